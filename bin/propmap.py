#!/usr/bin/env python3
"""Maps a property id to the harness crate (= binary name) that serves it."""
import sys
MAP = {
    "vh-misc": ["C21", "C26", "C32", "C46", "C47"],
    "vh-cry": ["C34", "C36", "C37", "C38", "C45"],
    "vh-rt": ["C01", "C02", "C03", "C04", "C05", "C06", "C08", "C09", "C10", "C11", "C12",
              "C13", "C14", "C16", "C17", "C18", "C19", "C20"],
    "vh-pol": ["C22", "C23", "C24", "C25", "C27", "C28", "C30", "C31"],
    "vh-vmrt": ["C07", "C29", "C35"],
    "vh-afc": ["C39"],
    "vh-crash": ["C15"],
    "vh-sched": ["C33", "C40", "C41", "C42", "C43", "C44"],
}
def crate_of(p):
    for k, v in MAP.items():
        if p in v:
            return k
    return None
if __name__ == "__main__":
    c = crate_of(sys.argv[1]) if len(sys.argv) > 1 else None
    if not c:
        sys.exit(1)
    print(c)
