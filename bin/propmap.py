#!/usr/bin/env python3
"""Property table: maps a property id to its harness crate and MANIFEST metadata.
`python3 bin/propmap.py Cxx` prints the crate; `python3 bin/propmap.py --manifest` rewrites MANIFEST.json."""
import json, os, sys

HERE = os.path.dirname(os.path.dirname(os.path.abspath(__file__)))

# id: (crate, built?, level, technique, level text, level note)
P = {}
def add(pid, crate, built, level, technique, text, note):
    P[pid] = dict(crate=crate, built=built, level=level, technique=technique, text=text, note=note)

add("C21", "vh-misc", True, "exploration",
    "model-based property testing (proptest op sequences vs Vec model)",
    "Generated op sequences in the two usage modes of TraversalQueue are run against the real queue and a Vec model written from the doc comments; every return value, drained set and the final contents must agree.",
    "Dedup and duplicate modes are not mixed (no caller does; the docs do not define it). Held only on the sequences explored.")
add("C46", "vh-misc", True, "exploration",
    "round-trip + differential property testing (proptest) against an independent base58 codec",
    "Generated ids and texts: Display/FromStr/decode/serde_json/postcard round trips, and parse results compared with an independent big-integer base58 decoder written in the harness.",
    "Trusts serde_json/postcard and the harness's reference codec. Held only on the inputs explored.")
add("C47", "vh-misc", True, "exploration",
    "property testing with guard-byte frame oracle (proptest)",
    "Generated multi-fragment Display values are written into buffers of every size around the exact fit inside a guard frame; text, NUL position, reported length, error and guard bytes are checked against std's own formatting.",
    "Expected text comes from std's String formatter. Held only on the inputs explored.")

# not built yet: crate assignment only
P.setdefault("C01", dict(crate="vh-rt", built=False))
P.setdefault("C02", dict(crate="vh-rt", built=False))
P.setdefault("C03", dict(crate="vh-rt", built=False))
P.setdefault("C04", dict(crate="vh-rt", built=False))
P.setdefault("C05", dict(crate="vh-rt", built=False))
P.setdefault("C06", dict(crate="vh-rt", built=False))
P.setdefault("C08", dict(crate="vh-rt", built=False))
P.setdefault("C09", dict(crate="vh-rt", built=False))
P.setdefault("C10", dict(crate="vh-rt", built=False))
P.setdefault("C11", dict(crate="vh-rt", built=False))
P.setdefault("C14", dict(crate="vh-rt", built=False))
P.setdefault("C16", dict(crate="vh-rt", built=False))
P.setdefault("C17", dict(crate="vh-rt", built=False))
P.setdefault("C19", dict(crate="vh-rt", built=False))
P.setdefault("C20", dict(crate="vh-rt", built=False))
P.setdefault("C12", dict(crate="vh-store", built=False))
P.setdefault("C13", dict(crate="vh-store", built=False))
P.setdefault("C18", dict(crate="vh-store", built=False))
P.setdefault("C22", dict(crate="vh-pol", built=False))
P.setdefault("C23", dict(crate="vh-pol", built=False))
P.setdefault("C24", dict(crate="vh-pol", built=False))
P.setdefault("C28", dict(crate="vh-pol", built=False))
P.setdefault("C30", dict(crate="vh-pol", built=False))
P.setdefault("C25", dict(crate="vh-robust", built=False))
P.setdefault("C26", dict(crate="vh-robust", built=False))
P.setdefault("C27", dict(crate="vh-robust", built=False))
P.setdefault("C31", dict(crate="vh-robust", built=False))
P.setdefault("C32", dict(crate="vh-robust", built=False))
P.setdefault("C07", dict(crate="vh-vmrt", built=False))
P.setdefault("C29", dict(crate="vh-vmrt", built=False))
P.setdefault("C35", dict(crate="vh-vmrt", built=False))
P.setdefault("C34", dict(crate="vh-cry", built=False))
P.setdefault("C36", dict(crate="vh-cry", built=False))
P.setdefault("C37", dict(crate="vh-cry", built=False))
P.setdefault("C45", dict(crate="vh-cry", built=False))
P.setdefault("C38", dict(crate="vh-afc", built=False))
P.setdefault("C39", dict(crate="vh-afc", built=False))
P.setdefault("C15", dict(crate="vh-crash", built=False))
P.setdefault("C33", dict(crate="vh-sched", built=False))
P.setdefault("C40", dict(crate="vh-sched", built=False))
P.setdefault("C41", dict(crate="vh-sched", built=False))
P.setdefault("C42", dict(crate="vh-sched", built=False))
P.setdefault("C43", dict(crate="vh-sched", built=False))
P.setdefault("C44", dict(crate="vh-sched", built=False))

def crate_of(p):
    return P[p]["crate"] if p in P else None

def manifest():
    props = [json.loads(l) for l in open(os.path.join(HERE, "properties.jsonl"))]
    checks, na = [], []
    for pr in props:
        pid = pr["id"]
        m = P.get(pid)
        if not m or not m["built"]:
            na.append({"property_id": pid, "reason": "check not built yet in this session (planned in DESIGN.md section 2; harness work in progress)"})
            continue
        c = {
            "property_id": pid,
            "quick_cmd": f"bin/check {pid} --tier quick",
            "thorough_cmd": f"bin/check {pid} --tier thorough",
            "evidence_file": f"/verif/evidence/{pid}.json",
            "replay_cmd_template": f"bin/check {pid} --replay {{path}}",
            "engine": m["crate"],
            "level_claimed": {"category": m["level"], "text": m["text"], "design_ref": f"DESIGN.md section 2 / {pid}"},
            "level_note": m["note"],
            "technique": m["technique"],
        }
        checks.append(c)
    man = {
        "version": 1,
        "setup_cmd": "bin/setup",
        "hooks": {
            "guard": "none",
            "enable": "no source hooks: harness crates use path dependencies on /repo/crates/* and rebuild from the working tree",
            "baseline_off_cmd": "cd /repo && cargo test --workspace --no-fail-fast --offline",
            "source_commits": [],
            "add_only": True,
        },
        "engines": [
            {"name": c, "path": f"harness/{c[3:]}", "serves_properties": sorted(p for p, m in P.items() if m["crate"] == c and m["built"]),
             "kind_free_text": "proptest-driven harness binary (vcommon driver: seeded multi-worker TestRunner, shrinking, JSON replay files)"}
            for c in sorted({m["crate"] for m in P.values() if m["built"]})
        ],
        "checks": checks,
        "not_applicable": na,
        "notes": "All checks are property-based tests / fuzzing with explicit oracles; see DESIGN.md. Exit 2 = inconclusive (harness build failure, watchdog).",
    }
    json.dump(man, open(os.path.join(HERE, "MANIFEST.json"), "w"), indent=1)
    print(f"MANIFEST.json: {len(checks)} checks, {len(na)} not_applicable")

if __name__ == "__main__":
    if len(sys.argv) > 1 and sys.argv[1] == "--manifest":
        manifest()
    else:
        c = crate_of(sys.argv[1]) if len(sys.argv) > 1 else None
        if not c:
            sys.exit(1)
        print(c)
