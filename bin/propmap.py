#!/usr/bin/env python3
"""Property table: maps a property id to its harness crate and MANIFEST metadata.
`python3 bin/propmap.py Cxx` prints the crate; `python3 bin/propmap.py --manifest` rewrites MANIFEST.json."""
import json, os, sys

HERE = os.path.dirname(os.path.dirname(os.path.abspath(__file__)))

# id: (crate, built?, level, technique, level text, level note)
P = {}
def add(pid, crate, built, level, technique, text, note):
    P[pid] = dict(crate=crate, built=built, level=level, technique=technique, text=text, note=note)

add("C21", "vh-misc", True, "exploration",
    "model-based property testing (proptest op sequences vs Vec model)",
    "Generated op sequences in the two usage modes of TraversalQueue are run against the real queue and a Vec model written from the doc comments; every return value, drained set and the final contents must agree.",
    "Dedup and duplicate modes are not mixed (no caller does; the docs do not define it). Held only on the sequences explored.")
add("C46", "vh-misc", True, "exploration",
    "round-trip + differential property testing (proptest) against an independent base58 codec",
    "Generated ids and texts: Display/FromStr/decode/serde_json/postcard round trips, and parse results compared with an independent big-integer base58 decoder written in the harness.",
    "Trusts serde_json/postcard and the harness's reference codec. Held only on the inputs explored.")
add("C47", "vh-misc", True, "exploration",
    "property testing with guard-byte frame oracle (proptest)",
    "Generated multi-fragment Display values are written into buffers of every size around the exact fit inside a guard frame; text, NUL position, reported length, error and guard bytes are checked against std's own formatting.",
    "Expected text comes from std's String formatter. Held only on the inputs explored.")


add("C38", "vh-afc", True, "exploration",
    "metamorphic property testing (proptest): same parameters => interoperable keys, any single-parameter change => not, at the crypto API and through FFI + Handler + Client",
    "Generated channel tuples and key pairs; the author's seal key and the peer's open key must open 1-3 messages exactly when no parameter differs; each single change (ids, label, parent, either key pair, encapsulation) on either side must give a refused derivation or keys that reject every message under identical AD/seq; role violations must return AuthorMustBeSealer.",
    "Seeded non-cryptographic RNG replaces the CSPRNG; DefaultCipherSuite only; trusts the AEAD/HPKE primitives for 'cannot open' (forgery <= 2^-128). Held only on the inputs explored.")
add("C39", "vh-afc", True, "exploration",
    "round-trip + mutation/garbage-input property testing (proptest) of Client seal/open over memory and shm states, panic classification, sentinel-buffer leak oracle, second cipher suite with a non-cleaning AEAD",
    "Generated messages of 0-2048 bytes through all seal x open interface pairs on memory and shared-memory states must return plaintext, label and sequence number; every single modification, truncation (all lengths below header+tag), foreign key/label message and arbitrary byte string of every length 0-64 (and longer) must return Err without panic and without the plaintext in the caller's buffer.",
    "Raw seeded keys (derivation is C38); leak = exact plaintext (>= 8 distinctive bytes) as a contiguous run; AEAD forgery probability trusted. Held only on the inputs explored.")
add("C15", "vh-crash", True, "fault_enumeration",
    "link-time syscall interposition + crash-image enumeration: every syscall index of generated multi-commit workloads is a crash point whose unsynced writes are enumerated kept/lost/torn; each image is reopened through the real FileManager path, walked and compared with model-validated snapshots, then extended by one commit",
    "Per workload all crash points and all 2^n kept/lost subsets (n<=8; seeded samples plus singles beyond) plus torn root/last-write variants are enumerated; workloads are sampled (12 quick / 153 thorough, plus 1.5k/30k generated cases): exhaustive over fault patterns of the sampled workloads, not over all workloads.",
    "Assumes the POSIX durability contract (a write is durable only after a later f(data)sync on that fd; fsync == fdatasync incl. size), size changes only via fallocate/extension, directory entry of the created file durable (never fsynced by the code: not modelled), single crash; tmpfs as image medium.")
add("C10", "vh-rt", True, "exploration",
    "property testing over all first-command shapes plus generated follow-up batches (proptest)",
    "First command into a missing graph in all 12 shapes {no/single/merge parent} x {policy present/absent} x {id matches or not}: creation iff parentless + policy + matching id, otherwise InitError and no graph listed; then batches mixing ordinary commands with the graph's own init (silent no-op) and foreign parentless commands (InitError).",
    "MemStorageProvider only for this check; held on the cases explored.")
add("C11", "vh-rt", True, "exploration",
    "differential property testing against DAG reachability (proptest worlds, many small transactions => skip lists)",
    "Every world command (committed or not) and fabricated ids are looked up by address; is_ancestor and get_location_from are compared with reachability in the abstract DAG for all pairs (small) or 500 sampled pairs incl. ancestor pairs (large), on graphs whose segments carry skip lists.",
    "Ancestry oracle is reachability in the generated DAG; held on the graphs explored.")


add("C07", "vh-vmrt", True, "exploration",
    "model-based property testing of the real VmPolicy on ClientState (generated multi-head graph states and action outcomes vs a Rust mirror of the policy text; graph walked through the storage API)",
    "Generated graph states (1-4 heads from divergent clients) and generated action outcomes (check failure, panic, fallible action, failure inside finish, nested actions) are checked for the full success/failure dichotomy: heads, ancestry, committed ids, fact scan, effect order and attribution, sink protocol.",
    "'Graph contents' = commands reachable from committed heads (merge segments written by a collapse before a failing action stay unreferenced); MemStorageProvider only; a zero-publish action may return EmptyPerspective (recorded as a label).")
add("C29", "vh-vmrt", True, "exploration",
    "differential testing against an ordered model store (generated schemas and policy text compiled per case; query results surfaced as effects; storage fact scan decoded by an independent key decoder)",
    "Generated fact schemas (5 key types, 1-3 keys, 0-2 values) with create/update/delete and all 7 query forms (query, exists, count_up_to, at_least, at_most, exactly, map) incl. prefix binds, value filters, literal and parameter forms, histories beyond the compaction depth; effects and the stored fact scan must equal the model.",
    "Only in-domain writes plus the wrong-update case; small value alphabets including extremes; single client; no session perspectives.")
add("C35", "vh-vmrt", True, "exploration",
    "mutation-based authenticity testing of a signature-verifying policy on the real runtime (two-device signed histories delivered command by command under 7 single wire mutations, then unmodified)",
    "Honest signed histories (real crypto, envelope, idam, device and perspective FFIs, deterministic engine) are delivered to a fresh replica, each command first under single mutations of payload, name, author, signature, id, parent and wire bytes (must be refused with heads, ids, facts and effects unchanged) and then unmodified (must be accepted); finally B == A.",
    "The policy is the harness's own signing policy (Init author binding added); a rejected transaction is dropped; fields the statement does not name (parent max_cut, priority, policy field, trailing bytes, merge ids) are recorded as labels only.")
add("C34", "vh-cry", True, "exploration",
    "property-based mutation of signed-command inputs (single/multi-point, field-boundary shifts) against direct and FFI-table sign/verify, with cross-layer differential",
    "Each case signs a generated command and applies up to 16 modifications (data, name, parent, signature bytes, other key, claimed id, boundary shifts that keep the concatenation identical); every one must be rejected, ids must be consistent between sign, verify and the crypto FFI.",
    "Ed25519/SHA-2 primitives trusted; deterministic seeded keys; FFI names restricted to policy identifiers; DefaultCipherSuite only.")
add("C36", "vh-cry", True, "exploration",
    "property-based wrap/serialize/mutate/unwrap over all 6 algorithm kinds (11 key types), unwrap-as-every-type and second-engine cross checks",
    "Wrapped keys of every kind are serialized, modified field by field (flips, variant retag, splices from re-wraps / other keys, truncation) and unwrapped as all 11 types on two engines: every modified or foreign form must be refused; the pristine form must round-trip with the same id and interchangeable behaviour.",
    "AES-256-GCM and serde trusted; AEAD/MAC kinds via harness key types built with the crate's unwrapped! macro; same-kind other-type unwrap is outside the statement (recorded as a label).")
add("C37", "vh-cry", True, "exploration",
    "property-based seal/open round trip plus one-at-a-time and multi-point modification of ciphertext, encapsulation and every context component for 5 primitives",
    "GroupKey messages, APQ topic messages, sealed group keys, sealed PSK seeds and sealed topic keys: untouched input opens to the exact plaintext / an equivalent secret; every modification of ciphertext, encapsulation or any context component (label, parent, author/sender keys, group, topic, version, recipient) must fail.",
    "AES-GCM/HKDF/DHKEM primitives trusted; seeded deterministic randomness; DefaultCipherSuite only.")
add("C45", "vh-cry", True, "exploration",
    "model-based stateful testing of MemStore and fs_keystore::Store against a HashMap, directory-listing oracle after every op, multi-handle reopen/clone, KeyStoreExt with real wrapped keys",
    "Generated op sequences (entry/insert/get/remove/vacant-dropped/duplicate insert/reopen/clone) over prefix-related ids; after every op all ids read back as the model says and the directory lists exactly the occupied ids; a reopened store shows the same contents.",
    "Single-threaded, one entry at a time per id (cross-process flock not covered); tmpfs temp dirs; payloads <= 400 B on the file system.")
add("C16", "vh-rt", True, "exploration",
    "stateful property testing of real sync sessions between two generated replicas with a bounded-progress oracle",
    "Two replicas holding generated downward-closed subsets of one world sync in repeated sessions (persistent peer caches, generated receive-buffer sizes with BufferTooSmall retries, mem/file back ends) until a session is empty, optionally alternating both directions until quiet: each session must gain >= 1 missing command while any is missing, the session count is bounded, finally A >= B and (bidirectional) identical heads, facts and hello heads; sizes exceed 100 commands per response and 100 segments per session.",
    "'Eventually' is decided as bounded progress (sessions <= missing + missing/50 + 4); the driver mirrors a transport with one PeerCache per direction and one transaction per session.")
add("C17", "vh-rt", True, "exploration",
    "stateful property testing of real sync sessions with per-message oracles (hand-decoded response headers)",
    "Per session: response indexes 0,1,2.., exactly one end message carrying the right count, every sent command is committed at the responder, add_commands of each response succeeds in order, requester graph == previous + sent, termination within a response bound; incl. responses that stop mid-segment and retries after BufferTooSmall.",
    "Termination is decided by a bound of 5000 responses per session (far above any sound session).")


add("C12", "vh-store", True, "exploration",
    "model-based stateful property testing of the linear storage API against a flat-map oracle",
    "Generated storage histories (inserts/deletes over prefix-related compound keys, add_command, write/commit, perspectives opened at heads and mid-segment, braid and merge perspectives, reopen) on the in-memory and file back ends; every exact and prefix query is compared with a flat map at every stored fact index, mid-segment reconstruction and live/merge/braid perspective, incl. chains past the compaction depth.",
    "Single-head commits only (multi-head braided caches are C03/C04); writes are always followed by add_command before a perspective is written; histories bounded at about 150 ops; file back end on tmpfs.")
add("C13", "vh-store", True, "exploration",
    "model-based property testing of checkpoint/revert on the four kinds of graph perspective and of ephemeral sessions driven by a scripted policy",
    "Generated interleavings of writes, commands, checkpoints and reverts compared with model snapshots (facts, head, command membership, stored segment), plus session actions and receives whose rules fail after writing.",
    "A checkpoint is used at most once; one listed finding (checkpoint taken with pending writes) is tolerated by its exact signature in the any-checkpoint part while the clean part never generates that shape.")
add("C14", "vh-rt", True, "exploration",
    "stateful model-based property testing of sessions (two sessions over a committed single/multi-head graph vs an overlay map model)",
    "1-25 generated ops on two sessions (actions with inserts, deletes of committed facts, order-sensitive writes, guards, poison; receives of other sessions' messages, fresh commands and garbage; reopen): after every op both sessions' full prefix scans (ascending order) must equal committed facts overlaid with their own writes, verdicts (exact queries) must match, failed ops leave the view unchanged, and the graph's heads/facts/committed ids never change.",
    "Reads inside a session are made by the policy (guards = exact queries, a publish-free action dumps the prefix scan). Held on the sequences explored.")
add("C18", "vh-store", True, "exploration",
    "in-process fuzzing with structured oracles: arbitrary bytes, mutation of messages harvested from real sync sessions, field-by-field crafted messages with an exact slicing/session/sequence model",
    "Every decode, receive and poll entry point is driven with arbitrary, mutated and crafted messages: no panic, all returned command slices inside the received buffer (pointer range), commands accepted only for the requester's session and next index, foreign sessions refused by requester and responder.",
    "Sampled input space; responder exercised over one fixed 140-command graph; postcard and TestPolicy trusted; no coverage-guided fuzzer (in-process campaign instead).")
add("C19", "vh-rt", True, "exploration",
    "metamorphic property testing over generated replica pairs (delivered subsets + actions)",
    "Pairs of replicas of one world (equal, nested, divergent subsets, merge-as-head shapes, optional actions): should_sync_on_hello(peer hello) == false must imply that the peer's walked committed ids are a subset of the own ones, in both directions; equal head sets give equal hello heads; a replica without the graph always syncs.",
    "One listed finding (peer holds only materialized merge commands the replica lacks; same synthetic hello head) is tolerated by exact signature; any non-merge command lacking is a violation.")
add("C20", "vh-rt", True, "exploration",
    "model-based property testing of PeerCache against an antichain model",
    "Generated add_command sequences with committed, uncommitted-but-flushed, undelivered and fabricated commands on bushy graphs; after every call: at most ten entries, all committed locally, pairwise non-ancestor, and contents equal to an antichain model (ignore not-committed and ancestors-or-equal, remove exactly the ancestors of the new entry).",
    "When the cache is full a further incomparable command is dropped (the statement only bounds the size).")
add("C22", "vh-pol", True, "exploration",
    "differential testing of generated typed policy programs (own AST printed to source: parser, compiler and VM in the path) against a big-step reference interpreter, with i64 boundary inputs",
    "Programs over bool/int/string/id/enum/struct/option/result with let, blocks, if, match (bindings, alternations, default), comparisons, logic, coalescing, checked and saturating arithmetic, field access, substruct, cast, calls, check, todo; exit reason, value and foreign-call trace of the VM must equal the interpreter for every function on 3 argument vectors.",
    "Trusts the harness interpreter as the language semantics (no spec in the repo); bytes, unit and fact queries not covered here; VM stack exhaustion skipped and counted.")
add("C23", "vh-pol", True, "exploration",
    "differential testing with planted poison behind constant-by-construction guards (same generator as C22)",
    "Panics, failing checks, early returns and logged foreign calls are planted in the right operands of &&, ||, or and in untaken if/match arms and statement branches (8 position classes); result and foreign-call log must equal the model and no poison call may appear in the log.",
    "Guards are constant by construction of the generator; same interpreter trust as C22.")
add("C24", "vh-pol", True, "exploration",
    "mutation-based property testing: generated well-typed programs plus single type-perturbing mutations; accepted programs are executed at every entry point; oracle on the kind of MachineError",
    "About 20 mutation kinds (wrong-typed subexpressions, dropped/added call or recall arguments, shadowing, struct literal field changes, binding patterns in odd places, swapped statements, fact literal changes ...); programs the compiler rejects are dropped; accepted ones must end normally, with a check failure, a panic or an IO/FFI error, never with a type mismatch, bad jump, stack underflow, undefined/redefined variable or unknown struct member.",
    "InvalidFact is counted as an I/O error; inputs are type-conformed by the harness; sound only for the constructs generated.")
add("C28", "vh-pol", True, "exploration",
    "round-trip and metamorphic property testing of compiled modules (compile twice; cbor and rkyv round trips; machine equality; re-execution with trace comparison)",
    "Each generated policy is compiled twice (equal Modules), round-tripped through ciborium and rkyv, loaded into machines that must be equal, and every function, command and action is re-run on each machine with identical end, stack, foreign-call trace, I/O events and final facts.",
    "ciborium and rkyv are the serialized forms of a Module (serde_json/postcard cannot encode one); determinism checked within one process.")
add("C30", "vh-pol", True, "exploration",
    "property testing of generated command policies by single-stepping the VM with a recording MachineIO",
    "Generated command policies with finish blocks, finish functions and recall blocks, incl. deliberately misplaced finish-only statements (must be rejected by the compiler): no Create/Update/Delete/Emit executes before a finish marker, Panic => no I/O event and unchanged facts, Check exit => a recall ran and every effect is recalled, Normal exit => no recalled effect.",
    "In this language version a Check exit is reachable only through recall; runs ending in I/O errors are constrained only by 'no write before a finish marker'.")

add("C43", "vh-sched", True, "exploration",
    'schedule-controlled property testing: generated per-task op scripts run under seeded shuttle schedules (uniform random; PCT in thorough) on a build-time instrumented copy of the source (atomics, futex, yield, std Mutex routed to the scheduler; substitution list asserted); occupancy counter + deadlock oracle on both lock variants (futex and CAS)',
    '2-4 tasks x 1-4 lock rounds with generated scheduling points and spurious futex returns, 300 (quick) / 1000 schedules per script: more than one holder, a wrong total, a deadlock with a blocked waiter (lost wake-up) or a panic is a violation.',
    'Trusts shuttle and the harness futex/shm models; sequentially consistent interleavings at atomic/futex/mutex granularity only (no weak-memory reorderings; plain-memory races between scheduling points invisible); schedules sampled, not enumerated; liveness only as no-deadlock within the step bound (> 1% cut-offs => inconclusive); Miri tier not implemented.')
add("C44", "vh-sched", True, "exploration",
    'schedule-controlled property testing: generated per-task op scripts run under seeded shuttle schedules (uniform random; PCT in thorough) on a build-time instrumented copy of the source (atomics, futex, yield, std Mutex routed to the scheduler; substitution list asserted); quarantining allocator + drop counters + content oracle on the lender/loan pair',
    '2-3 tasks run generated scripts of lend / shared / get_ref / get_mut / drop loan / move loan / drop lender: a second live loan, access after removal, payload dropped other than exactly once after both sides are gone, double free, leak or poisoned read is a violation.',
    'Trusts shuttle and the harness futex/shm models; sequentially consistent interleavings at atomic/futex/mutex granularity only (no weak-memory reorderings; plain-memory races between scheduling points invisible); schedules sampled, not enumerated; liveness only as no-deadlock within the step bound (> 1% cut-offs => inconclusive); Miri tier not implemented.')
add("C33", "vh-sched", True, "exploration",
    'schedule-controlled property testing: generated per-task op scripts run under seeded shuttle schedules (uniform random; PCT in thorough) on a build-time instrumented copy of the source (atomics, futex, yield, std Mutex routed to the scheduler; substitution list asserted); quarantining allocator + content oracle on the reference-counted text representation; plus generated thread scenarios on the real crate interpreted by Miri (seeded scheduler, weak-memory emulation on/off) with its data-race / use-after-free / leak detection as the oracle',
    '2-4 tasks clone, read-and-compare, move and drop 1-3 values around the inline/heap boundary: poisoned content (use after free), live blocks below the number of values with handles, double free or leak is a violation.  Part miri_ordering: 2-4 real threads clone/read/drop/hand over one text (main handle dropped before, between or after the joins) under Miri; any undefined behaviour (data race between a read and the deallocation, use after free, double free) or leak reported by Miri is a violation.',
    'Trusts shuttle and the harness futex/shm models and, for the Miri part, Miri (nightly) and its implementation of the C++11 memory model; shuttle parts see sequentially consistent interleavings at atomic/futex/mutex granularity only; schedules sampled, not enumerated; liveness only as no-deadlock within the step bound (> 1% cut-offs => inconclusive).  The Miri sysroot is built offline by bin/setup (or by the check on first use) into target/miri-sysroot.')
add("C40", "vh-sched", True, "exploration",
    'schedule-controlled property testing: generated per-task op scripts run under seeded shuttle schedules (uniform random; PCT in thorough) on a build-time instrumented copy of the source (atomics, futex, yield, std Mutex routed to the scheduler; substitution list asserted); channel-set / sequence-number model, plus model-based op sequences on the real crate',
    "Sequential op sequences on the real shm and memory states and concurrent writer + reader scripts on the instrumented copy: successful seals of one context carry 0,1,2,.. (each message decrypted with an independently built key at the header's sequence number) across cache invalidations and failed seals; the memory state refuses a second live context.",
    'Trusts shuttle and the harness futex/shm models; sequentially consistent interleavings at atomic/futex/mutex granularity only (no weak-memory reorderings; plain-memory races between scheduling points invisible); schedules sampled, not enumerated; liveness only as no-deadlock within the step bound (> 1% cut-offs => inconclusive); Miri tier not implemented.')
add("C41", "vh-sched", True, "exploration",
    'schedule-controlled property testing: generated per-task op scripts run under seeded shuttle schedules (uniform random; PCT in thorough) on a build-time instrumented copy of the source (atomics, futex, yield, std Mutex routed to the scheduler; substitution list asserted); channel-set model with happens-before bookkeeping, plus model-based op sequences on the real crate',
    'A reader op overlapping writer ops k0+1..k1 may see any of the channel sets S_k0..S_k1; it must fail with not-found if the removal returned before it started and must succeed if the channel is in all of them; removed channels never reappear after the removal returned.',
    'Trusts shuttle and the harness futex/shm models; sequentially consistent interleavings at atomic/futex/mutex granularity only (no weak-memory reorderings; plain-memory races between scheduling points invisible); schedules sampled, not enumerated; liveness only as no-deadlock within the step bound (> 1% cut-offs => inconclusive); Miri tier not implemented.')
add("C42", "vh-sched", True, "exploration",
    'schedule-controlled property testing: generated per-task op scripts run under seeded shuttle schedules (uniform random; PCT in thorough) on a build-time instrumented copy of the source (atomics, futex, yield, std Mutex routed to the scheduler; substitution list asserted); map model of both table copies, plus model-based op sequences on the real crate',
    "add => OutOfSpace iff full; ids strictly increasing and never reused; after every writer op (sequential) and at the end (concurrent) writer-side exists == every reader's exists == model for all ids plus one never issued; every set a reader observes is one the writer produced.",
    'Trusts shuttle and the harness futex/shm models; sequentially consistent interleavings at atomic/futex/mutex granularity only (no weak-memory reorderings; plain-memory races between scheduling points invisible); schedules sampled, not enumerated; liveness only as no-deadlock within the step bound (> 1% cut-offs => inconclusive); Miri tier not implemented.')


add("C25", "vh-robust", True, "exploration",
    "structure-aware property testing of hand-built and mutated-compiled bytecode with scripted I/O, catch_unwind oracle and a child-process allocation probe (proptest)",
    "Generated machines over every instruction kind with arbitrary operands, targets, stacks, contexts, definitions, code maps and scripted I/O results, and compiled modules with 0-3 edits, are stepped with a 10 000-step bound and re-run through RunState::run; any host panic (or process abort in the probe) is a violation.",
    "Acyclic struct definitions assumed; reaching a bound counts as pass; native-stack and memory exhaustion not observed; mid-range MStructSet operands only via the child probe.")
add("C26", "vh-robust", True, "exploration",
    "round-trip + differential property testing against an independent postcard reference encoder, with exhaustive targeted corruption per encoding (proptest)",
    "Generated acyclic schemas and conforming values: serialize equals a reference encoding, the round trip is exact, and every truncation, trailing byte, bad option/result tag, out-of-definition enum value, NUL or invalid-UTF-8 text and wrong-length id is rejected; arbitrary and edited byte strings never panic and whatever they yield conforms to the schema.",
    "Trusts the harness reference encoder and conformance checker; canonicality of accepted bytes is not asserted (the statement does not claim it).")
add("C27", "vh-robust", True, "exploration",
    "grammar-based and mutation-based in-process fuzzing (grammar sampler, scope- and type-aware sampler, repository corpus mutation, markdown wrappers) with a catch_unwind oracle (proptest)",
    "Every generated text is fed to parse_policy_document, parse_policy_str (V1, V2) and parse_expression, and every AST obtained is compiled under four option sets; any panic in parsing or compiling is a violation; four listed findings (three inside the markdown dependency, one compiler Bug on an arm-less match over never) are tolerated by exact signature.",
    "Profile has debug assertions and overflow checks on; nesting depth bounded (stack exhaustion not examined); panics while *rendering* a returned error are recorded as labels only (outside the statement).")
add("C31", "vh-robust", True, "exploration",
    "differential testing of the built policy-compiler binary against in-process library verdicts over generated documents of known class (proptest + process spawn)",
    "Generated documents (parse error, compile error, compiles-but-fails-validation, valid; wrappers and flag combinations; generated function/action/policy bodies of nested if/else/match, runs of up to 69 check statements and else-if chains of up to 59 arms): exit status and output-file presence must equal parse and compile and (no-validate or validation passes); a written module must decode.  A generated function with a path that does not return (the generator's own termination model, independent of the library tracer) must be refused once it compiles.",
    "Expected verdict uses the tracer API with the same analyzers as validate() and, for generated functions, the generator's termination model; the binary is built by the check from the repository working tree (dev profile).")
add("C32", "vh-robust", True, "exploration",
    "model-based property testing of every constructor and decoder with cross-representation Eq/Ord/Hash comparison and archive mutation (proptest)",
    "Every string or buffer goes through 12 construction routes and all byte and archive decoders (serde json/postcard/cbor text and byte strings, every serde visitor entry point incl. bytes / borrowed bytes / byte buf, rkyv access and deserialize on arbitrary and mutated archives, concatenation, lengths around the inline/heap boundary); acceptance must equal the invariant predicates written from the statement; content and Eq/Ord/Hash must agree across static, inline and heap values and with str.",
    "Hostile archives are produced by archiving a plain String (same layout); std's DefaultHasher stands for any hasher.")

# not built yet: crate assignment only
add("C01", "vh-rt", True, "exploration",
    'metamorphic + model-based property testing (proptest worlds, k delivery scripts, reference braid model)',
    'Generated command DAGs are delivered to 2-4 replicas by independent generated scripts (orders, batching, commit points, flushes, duplicates, both storage back ends); head lists, full fact scans and hello heads must be pairwise identical and equal to a storage-independent reference model.',
    'Trusts the harness reference model and AuditPolicy; sync-built replicas are exercised under C16. Held on the worlds/scripts explored.')
add("C02", "vh-rt", True, "exploration",
    'model-based property testing with an auditing policy (proptest)',
    'An auditing Policy logs every rule evaluation; for each add_commands (delivered merges) and each multi-head commit the in-braid log must equal the reference application order and verdicts (exactly once, ancestors first, merges never evaluated), incl. braids that overflow the 256-entry braid block.',
    'Reference braid order from the harness model; convergence-map spill (>256 branch points) only reached in the thorough tier.')
add("C03", "vh-rt", True, "exploration",
    'model-based / differential property testing against a reference braid (proptest)',
    'After every commit the fact cache, and at the end the stored fact perspective at every merge, must equal a reference braid computed from the abstract DAG (dominator-chain LCA, smallest (priority,id) first, stop at lone strand), across segment layouts, flush points and both back ends.',
    'The reference model is the oracle; it was written from the property statement and the documented rule, not from the code.')
add("C04", "vh-rt", True, "exploration",
    'stateful model-based property testing (proptest op sequences)',
    "Op sequences drive a replica into multi-head states and run actions that dump the fact view they observe: fact_cache before == view in action == reference; action parent == address hello_head advertised; that address absent before and present after; the sink sees only the action's own effects.",
    "Sessions' view of multi-head graphs is covered by C14. Held on the sequences explored.")
add("C05", "vh-rt", True, "exploration",
    'stateful model-based property testing with a property-level predicate (proptest)',
    'Worlds with freely placed finalize commands; a merge or multi-head commit must fail with ParallelFinalize iff its region above the last common ancestor holds two causally unordered finalize commands (predicate computed on the abstract DAG, independent of the braid walk), leaving committed ids, heads and facts unchanged.',
    'Assumes no stored merge spans two unordered finalize commands (the runtime refuses to store one). Results of add_commands on a transaction already overtaken by another commit are not constrained.')
add("C06", "vh-rt", True, "exploration",
    'stateful model-based property testing (proptest op sequences with poison commands)',
    'Poison commands (write facts, emit an effect, then reject) at generated positions inside multi-transaction op sequences; rejected => PolicyError::Rejected, children => NoSuchParent, all else accepted with exact counts; after every op the walked committed id set, heads and fact scan equal the model and no effect of a rejected command is ever committed.',
    'Guards are evaluated before writes in AuditPolicy; VM-policy recall paths are covered by C30/C07.')
add("C08", "vh-rt", True, "exploration",
    'stateful model-based property testing (harness-owned interleaving of up to 4 transactions + actions)',
    'The harness interleaves calls on up to four open transactions and actions; the committed id set (full graph walk) must equal the model after every op (hence never shrinks); commit returns ConcurrentTransaction iff another commit/action succeeded after the transaction first read the heads, else committed = previous + accepted.',
    'ClientState is &mut, so an interleaving is an order of API calls; no thread-level concurrency exists at this API.')
add("C09", "vh-rt", True, "exploration",
    'stateful model-based property testing (invariant after every op)',
    'After every successful commit or action (in the C01/C06/C08 engines and a dedicated generator with duplicates, deep parents, merges of non-tip commands, flushes) the head list must be strictly increasing by id and equal to the frontier of the walked committed graph.',
    'Frontier computed from the walked graph and the abstract DAG.')
P.setdefault("C10", dict(crate="vh-rt", built=False))
P.setdefault("C11", dict(crate="vh-rt", built=False))
P.setdefault("C14", dict(crate="vh-rt", built=False))
P.setdefault("C16", dict(crate="vh-rt", built=False))
P.setdefault("C17", dict(crate="vh-rt", built=False))
P.setdefault("C19", dict(crate="vh-rt", built=False))
P.setdefault("C20", dict(crate="vh-rt", built=False))
P.setdefault("C12", dict(crate="vh-store", built=False))
P.setdefault("C13", dict(crate="vh-store", built=False))
P.setdefault("C18", dict(crate="vh-store", built=False))
P.setdefault("C22", dict(crate="vh-pol", built=False))
P.setdefault("C23", dict(crate="vh-pol", built=False))
P.setdefault("C24", dict(crate="vh-pol", built=False))
P.setdefault("C28", dict(crate="vh-pol", built=False))
P.setdefault("C30", dict(crate="vh-pol", built=False))
P.setdefault("C25", dict(crate="vh-robust", built=False))
P.setdefault("C26", dict(crate="vh-robust", built=False))
P.setdefault("C27", dict(crate="vh-robust", built=False))
P.setdefault("C31", dict(crate="vh-robust", built=False))
P.setdefault("C32", dict(crate="vh-robust", built=False))
P.setdefault("C07", dict(crate="vh-vmrt", built=False))
P.setdefault("C29", dict(crate="vh-vmrt", built=False))
P.setdefault("C35", dict(crate="vh-vmrt", built=False))
P.setdefault("C34", dict(crate="vh-cry", built=False))
P.setdefault("C36", dict(crate="vh-cry", built=False))
P.setdefault("C37", dict(crate="vh-cry", built=False))
P.setdefault("C45", dict(crate="vh-cry", built=False))
P.setdefault("C38", dict(crate="vh-afc", built=False))
P.setdefault("C39", dict(crate="vh-afc", built=False))
P.setdefault("C15", dict(crate="vh-crash", built=False))
P.setdefault("C33", dict(crate="vh-sched", built=False))
P.setdefault("C40", dict(crate="vh-sched", built=False))
P.setdefault("C41", dict(crate="vh-sched", built=False))
P.setdefault("C42", dict(crate="vh-sched", built=False))
P.setdefault("C43", dict(crate="vh-sched", built=False))
P.setdefault("C44", dict(crate="vh-sched", built=False))

def crate_of(p):
    return P[p]["crate"] if p in P else None

def manifest():
    props = [json.loads(l) for l in open(os.path.join(HERE, "properties.jsonl"))]
    checks, na = [], []
    for pr in props:
        pid = pr["id"]
        m = P.get(pid)
        if not m or not m["built"]:
            na.append({"property_id": pid, "reason": "check not built yet in this session (planned in DESIGN.md section 2; harness work in progress)"})
            continue
        c = {
            "property_id": pid,
            "quick_cmd": f"bin/check {pid} --tier quick",
            "thorough_cmd": f"bin/check {pid} --tier thorough",
            "evidence_file": f"/verif/evidence/{pid}.json",
            "replay_cmd_template": f"bin/check {pid} --replay {{path}}",
            "engine": m["crate"],
            "level_claimed": {"category": m["level"], "text": m["text"], "design_ref": f"DESIGN.md section 2 / {pid}"},
            "level_note": m["note"],
            "technique": m["technique"],
        }
        checks.append(c)
    man = {
        "version": 1,
        "setup_cmd": "bin/setup",
        "hooks": {
            "guard": "none",
            "enable": "no source hooks: harness crates use path dependencies on /repo/crates/* and rebuild from the working tree",
            "baseline_off_cmd": "cd /repo && cargo test --workspace --no-fail-fast --offline",
            "source_commits": [],
            "add_only": True,
        },
        "engines": [
            {"name": c, "path": f"harness/{c[3:]}", "serves_properties": sorted(p for p, m in P.items() if m["crate"] == c and m["built"]),
             "kind_free_text": "proptest-driven harness binary (vcommon driver: seeded multi-worker TestRunner, shrinking, JSON replay files)"}
            for c in sorted({m["crate"] for m in P.values() if m["built"]})
        ],
        "checks": checks,
        "not_applicable": na,
        "notes": "All checks are property-based tests / fuzzing with explicit oracles; see DESIGN.md. Exit 2 = inconclusive (harness build failure, watchdog).",
    }
    json.dump(man, open(os.path.join(HERE, "MANIFEST.json"), "w"), indent=1)
    print(f"MANIFEST.json: {len(checks)} checks, {len(na)} not_applicable")

if __name__ == "__main__":
    if len(sys.argv) > 1 and sys.argv[1] == "--manifest":
        manifest()
    else:
        c = crate_of(sys.argv[1]) if len(sys.argv) > 1 else None
        if not c:
            sys.exit(1)
        print(c)
