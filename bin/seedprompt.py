#!/usr/bin/env python3
"""Prints the prompt for a seeded-breakage sub-agent for property Cxx (property text only, nothing from /verif)."""
import json, sys
pid = sys.argv[1]
pr = next(json.loads(l) for l in open('/verif/properties.jsonl') if json.loads(l)['id'] == pid)
wt = f"/tmp/seed-{pid}"
print(f"""You are playing the adversary in an evaluation of a verification effort. You have your own scratch git worktree of the repository aranya-project/aranya-core (Rust workspace) at {wt}. Work ONLY inside {wt} and {wt}-out (create the latter). Do not read or write /repo, /verif, other /tmp/seed-* directories or anything else outside those two directories.

PROPERTY that the code base is supposed to satisfy:
  Title: {pr['title']}
  Statement: {pr['statement']}
  It must hold for: {pr['quantifier']['text']}
  Code that is meant to make it hold (starting points for reading): {json.dumps(pr['anchors'].get('mechanism', []))}
  Files: {json.dumps(pr['anchors'].get('files', []))}

YOUR TASK: make a change to the source code under {wt}/crates that BREAKS this property while
 (a) everything still compiles,
 (b) the existing tests of the crates you touched still pass (run them offline, e.g. `cd {wt} && CARGO_NET_OFFLINE=true cargo test -j4 -p <crate> --offline`; if dependants obviously exercise the code, run theirs too), and
 (c) the breakage needs something specific to manifest — a particular interleaving or schedule, a crash or fault at a particular point, a multi-step sequence of operations, an unusual input or size, or two cooperating sites that each look fine alone — NOT something that ordinary use or the existing tests expose at once.
Make it a realistic bug a maintainer could plausibly introduce (refactoring slip, off-by-one, wrong ordering of two steps, a missed case, a wrong comparison), not sabotage that plainly disables a feature. Prefer a small diff (a few lines). Read the relevant code first; understand which invariants the existing tests pin down and choose a region they do not.

DEMONSTRATION: write a test (a new #[test] in a new or existing test file inside the worktree) or a small program that FAILS with your change and PASSES without it. Verify both directions yourself (save the source change with `git diff -- crates > /tmp/seed-<id>-out/patch.diff`, undo it with `git apply -R`, run the demo, re-apply it with `git apply`, run again; do NOT use `git stash`: the stash is shared by all worktrees of the repository).

DELIVER in {wt}-out/ :
  patch.diff   — `git diff` of the source change only (must apply to a clean checkout with `git apply`; do not include the demonstration in it)
  demo.diff    — the demonstration as a separate diff (or the demo files plus exact instructions), applicable on a clean checkout
  notes.md     — which behaviour the change alters, why the existing tests do not notice, exactly what is needed for the breakage to manifest, the commands you ran and their observed results with and without the change.
HARDER IS BETTER: an independent team has built randomized model-based checks for this property that already catch simple single-site slips (an off-by-one in the main path, a dropped check, swapped comparison). Aim for a change whose effect only shows in a corner of the state space: a rare combination of configuration and history, a boundary that needs two independent conditions, a resource limit (capacity, spill threshold, buffer size), an error path taken after a specific earlier event, or state carried over between two API calls.\nConstraints: the machine is shared — use `-j4` for cargo, keep build output inside your worktree's default target directory, no network (offline only). Do not commit anything. Your final message: a short summary (what you changed, how it manifests, paths of the three files).""")
