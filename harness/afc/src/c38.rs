//! C38: the author's seal key and the peer's open key work together exactly when both sides use the
//! same parent command, label, sealing device, opening device and key pairs; a device never derives
//! both ends of a channel.
//!
//! Part `uni_keys` drives `aranya_crypto::afc` directly; part `handler` goes through the code a device
//! really runs: the `afc` FFI module's `create_uni_channel`, `Handler::uni_channel_created` /
//! `uni_channel_received`, `memory::State` and `Client`.
use aranya_afc_util::{
    Ffi, Handler, UniChannelCreated, UniChannelReceived, UniKey,
    testing::MemStore,
};
use aranya_crypto::{
    BaseId, DeviceId, EncryptionKey, EncryptionKeyId, EncryptionPublicKey, KeyStoreExt as _,
    afc::{AuthData, OpenKey, SealKey, UniChannel, UniOpenKey, UniPeerEncap, UniSealKey, UniSecrets},
    default::{DefaultCipherSuite, DefaultEngine},
    policy::{CmdId, LabelId},
};
use aranya_fast_channels::{AranyaState as _, Client, Error as AfcError, memory};
use aranya_policy_vm::{
    ActionContext, CommandContext, MachineError, MachineStack, Stack as _, Struct, Value, ffi::FfiModule, ident,
};
use proptest::prelude::*;
use serde::{Deserialize, Serialize};
use vcommon::{CaseInfo, CheckResult, Ctx, Failure, Report, ensure, fail};

use crate::util::{Alt, SeedRng};

type CS = DefaultCipherSuite;
type E = DefaultEngine<SeedRng, CS>;

// ---------------------------------------------------------------------------------------------
// generators shared by both parts

fn id32() -> impl Strategy<Value = [u8; 32]> {
    prop_oneof![
        6 => any::<[u8; 32]>(),
        1 => Just([0u8; 32]),
        1 => Just([0xffu8; 32]),
        2 => (0u8..4).prop_map(|k| { let mut b = [0u8; 32]; b[31] = k; b }),
    ]
}

fn alt() -> impl Strategy<Value = Alt> {
    prop_oneof![
        3 => any::<u8>().prop_map(Alt::Bit),
        2 => id32().prop_map(Alt::Bytes),
    ]
}

fn msgs() -> impl Strategy<Value = Vec<Vec<u8>>> {
    prop::collection::vec(prop::collection::vec(any::<u8>(), 0..80), 1..4)
}

// ---------------------------------------------------------------------------------------------
// part 1: aranya_crypto::afc

#[derive(Clone, Copy, Debug, Serialize, Deserialize, PartialEq, Eq)]
enum Param {
    Parent,
    Label,
    SealId,
    OpenId,
}

#[derive(Clone, Copy, Debug, Serialize, Deserialize, PartialEq, Eq)]
enum Side {
    /// the channel description the peer passes to `from_peer_encap`
    Peer,
    /// the channel description the author passes to `from_author_secret` (the encapsulation was
    /// made with the unchanged one)
    Author,
}

#[derive(Clone, Debug, Serialize, Deserialize)]
enum Change {
    None,
    Id { side: Side, which: Param, alt: Alt },
    SwapIds { side: Side },
    OurSk { side: Side },
    TheirPk { side: Side },
    EncapBit { pos: u16, bit: u8 },
    /// the peer is handed the encapsulation of a second, independent `UniSecrets::new` for the same channel
    OtherEncap,
}

#[derive(Clone, Debug, Serialize, Deserialize)]
struct Case {
    seed: u64,
    parent: [u8; 32],
    label: [u8; 32],
    seal_id: [u8; 32],
    open_id: [u8; 32],
    change: Change,
    version: u32,
    ad_label: [u8; 32],
    msgs: Vec<Vec<u8>>,
}

fn side() -> impl Strategy<Value = Side> {
    prop_oneof![3 => Just(Side::Peer), 1 => Just(Side::Author)]
}

fn change() -> impl Strategy<Value = Change> {
    let which = prop_oneof![Just(Param::Parent), Just(Param::Label), Just(Param::SealId), Just(Param::OpenId)];
    prop_oneof![
        3 => Just(Change::None),
        8 => (side(), which, alt()).prop_map(|(side, which, alt)| Change::Id { side, which, alt }),
        1 => side().prop_map(|side| Change::SwapIds { side }),
        2 => side().prop_map(|side| Change::OurSk { side }),
        2 => side().prop_map(|side| Change::TheirPk { side }),
        2 => (any::<u16>(), 0u8..8).prop_map(|(pos, bit)| Change::EncapBit { pos, bit }),
        1 => Just(Change::OtherEncap),
    ]
}

fn case() -> impl Strategy<Value = Case> {
    (
        any::<u64>(),
        id32(),
        id32(),
        id32(),
        id32(),
        change(),
        prop_oneof![any::<u32>(), Just(0x6f54u32)],
        id32(),
        msgs(),
        // a few cases where the two device ids coincide
        prop::bool::weighted(0.04),
    )
        .prop_map(|(seed, parent, label, seal_id, open_id, change, version, ad_label, msgs, same)| Case {
            seed,
            parent,
            label,
            seal_id,
            open_id: if same { seal_id } else { open_id },
            change,
            version,
            ad_label,
            msgs,
        })
}

#[derive(Clone, Copy, PartialEq, Eq)]
struct Params {
    parent: [u8; 32],
    label: [u8; 32],
    seal_id: [u8; 32],
    open_id: [u8; 32],
}

impl Params {
    fn chan<'a>(&self, our_sk: &'a EncryptionKey<CS>, their_pk: &'a EncryptionPublicKey<CS>) -> UniChannel<'a, CS> {
        UniChannel {
            parent_cmd_id: CmdId::from_bytes(self.parent),
            our_sk,
            their_pk,
            seal_id: DeviceId::from_bytes(self.seal_id),
            open_id: DeviceId::from_bytes(self.open_id),
            label_id: LabelId::from_bytes(self.label),
        }
    }
}

fn err_s<T: std::fmt::Display>(sig: &'static str) -> impl Fn(T) -> Failure {
    move |e| Failure::new(sig, e.to_string())
}

fn check_uni(c: &Case, info: &mut CaseInfo) -> CheckResult {
    let (eng, _) = E::from_entropy(SeedRng::new(c.seed, 1));
    let author_sk = EncryptionKey::<CS>::new(&eng);
    let peer_sk = EncryptionKey::<CS>::new(&eng);
    let spare_sk = EncryptionKey::<CS>::new(&eng);
    let author_pk = author_sk.public().map_err(err_s("public key of a fresh key failed"))?;
    let peer_pk = peer_sk.public().map_err(err_s("public key of a fresh key failed"))?;
    let spare_pk = spare_sk.public().map_err(err_s("public key of a fresh key failed"))?;

    let base = Params { parent: c.parent, label: c.label, seal_id: c.seal_id, open_id: c.open_id };
    let ch_e = base.chan(&author_sk, &peer_pk);

    if base.seal_id == base.open_id {
        // one device would hold both ends: every derivation must refuse
        info.label("same_device");
        ensure!(
            UniSecrets::new(&eng, &ch_e).is_err(),
            "UniSecrets::new accepted seal_id == open_id",
            "ids={:?}",
            base.seal_id
        );
        // a valid encapsulation made for two distinct devices, presented with equal ids
        let mut other = base;
        other.open_id[0] ^= 1;
        let s = UniSecrets::new(&eng, &other.chan(&author_sk, &peer_pk)).map_err(err_s("UniSecrets::new failed on valid input"))?;
        ensure!(
            UniOpenKey::from_peer_encap(&base.chan(&peer_sk, &author_pk), s.peer).is_err(),
            "from_peer_encap accepted seal_id == open_id",
            "ids={:?}",
            base.seal_id
        );
        ensure!(
            UniSealKey::from_author_secret(&ch_e, s.author).is_err(),
            "from_author_secret accepted seal_id == open_id",
            "ids={:?}",
            base.seal_id
        );
        info.nontrivial();
        return Ok(());
    }

    let secrets = UniSecrets::new(&eng, &ch_e).map_err(err_s("UniSecrets::new failed on valid input"))?;
    let UniSecrets { author, peer } = secrets;

    // the two descriptions actually used for key derivation
    let mut p_author = base;
    let mut p_peer = base;
    let mut a_sk = &author_sk;
    let mut a_pk = &peer_pk;
    let mut o_sk = &peer_sk;
    let mut o_pk = &author_pk;
    let mut encap_bytes = peer.as_bytes().to_vec();
    let mut changed = false;
    let kind: &str;
    match &c.change {
        Change::None => kind = "none",
        Change::Id { side, which, alt } => {
            let p = if *side == Side::Peer { &mut p_peer } else { &mut p_author };
            let f = match which {
                Param::Parent => &mut p.parent,
                Param::Label => &mut p.label,
                Param::SealId => &mut p.seal_id,
                Param::OpenId => &mut p.open_id,
            };
            let n = alt.apply(f);
            changed = n != *f;
            *f = n;
            kind = match (side, which) {
                (Side::Peer, Param::Parent) => "peer_parent",
                (Side::Peer, Param::Label) => "peer_label",
                (Side::Peer, Param::SealId) => "peer_seal_id",
                (Side::Peer, Param::OpenId) => "peer_open_id",
                (Side::Author, Param::Parent) => "author_parent",
                (Side::Author, Param::Label) => "author_label",
                (Side::Author, Param::SealId) => "author_seal_id",
                (Side::Author, Param::OpenId) => "author_open_id",
            };
        }
        Change::SwapIds { side } => {
            let p = if *side == Side::Peer { &mut p_peer } else { &mut p_author };
            std::mem::swap(&mut p.seal_id, &mut p.open_id);
            changed = true;
            kind = "swap_ids";
        }
        Change::OurSk { side } => {
            if *side == Side::Peer { o_sk = &spare_sk } else { a_sk = &spare_sk }
            changed = true;
            kind = if *side == Side::Peer { "peer_our_sk" } else { "author_our_sk" };
        }
        Change::TheirPk { side } => {
            if *side == Side::Peer { o_pk = &spare_pk } else { a_pk = &spare_pk }
            changed = true;
            kind = if *side == Side::Peer { "peer_their_pk" } else { "author_their_pk" };
        }
        Change::EncapBit { pos, bit } => {
            let i = vcommon::idx(*pos, encap_bytes.len());
            encap_bytes[i] ^= 1 << bit;
            changed = true;
            kind = "encap_bit";
        }
        Change::OtherEncap => {
            let s2 = UniSecrets::new(&eng, &ch_e).map_err(err_s("UniSecrets::new failed on valid input"))?;
            encap_bytes = s2.peer.as_bytes().to_vec();
            changed = true;
            kind = "other_encap";
        }
    }
    info.label(kind);

    let seal = UniSealKey::from_author_secret(&p_author.chan(a_sk, a_pk), author).and_then(|k| k.into_key());
    let open = UniPeerEncap::<CS>::from_bytes(&encap_bytes)
        .map_err(aranya_crypto::Error::from)
        .and_then(|enc| UniOpenKey::from_peer_encap(&p_peer.chan(o_sk, o_pk), enc))
        .and_then(|k| k.into_key());

    if !changed {
        info.label("expect_match");
        let mut seal = seal.map_err(err_s("author could not derive its seal key"))?;
        let open = open.map_err(err_s("peer could not derive the open key from the author's encapsulation"))?;
        roundtrip(c, &mut seal, &open, true)?;
        info.nontrivial();
        return Ok(());
    }
    info.label("expect_mismatch");
    let (mut seal, open): (SealKey<CS>, OpenKey<CS>) = match (seal, open) {
        (Ok(s), Ok(o)) => (s, o),
        _ => {
            info.label("derivation_refused");
            return Ok(());
        }
    };
    roundtrip(c, &mut seal, &open, false)?;
    info.nontrivial();
    Ok(())
}

/// Seals every message with the author's key and opens it with the peer's key, same AD and seq.
fn roundtrip(c: &Case, seal: &mut SealKey<CS>, open: &OpenKey<CS>, want_ok: bool) -> CheckResult {
    let ad = AuthData { version: c.version, label_id: LabelId::from_bytes(c.ad_label) };
    for (i, m) in c.msgs.iter().enumerate() {
        let mut ct = vec![0u8; m.len() + SealKey::<CS>::OVERHEAD];
        let seq = seal.seal(&mut ct, m, &ad).map_err(err_s("seal failed"))?;
        ensure!(seq.to_u64() == i as u64, "seal returned an unexpected sequence number", "msg#{i}: {seq}");
        let in_place = i % 2 == 1;
        let (res, out) = if in_place {
            let mut data = ct[..m.len()].to_vec();
            let r = open.open_in_place(&mut data, &ct[m.len()..], &ad, seq);
            (r, data)
        } else {
            let mut dst = vec![0x5au8; m.len()];
            let r = open.open(&mut dst, &ct, &ad, seq);
            (r, dst)
        };
        if want_ok {
            ensure!(res.is_ok(), "matching parameters: peer key cannot open the author's message", "msg#{i}: {res:?}");
            ensure!(&out == m, "matching parameters: opened plaintext differs", "msg#{i}");
        } else {
            ensure!(
                res.is_err(),
                "changed parameter: peer key still opens the author's message",
                "msg#{i} len={} change={:?}",
                m.len(),
                c.change
            );
        }
    }
    Ok(())
}

// ---------------------------------------------------------------------------------------------
// part 2: FFI + Handler + memory state + Client

#[derive(Clone, Debug, Serialize, Deserialize)]
enum HChange {
    None,
    // fields of the peer's `UniChannelReceived`
    PeerParent(Alt),
    PeerLabel(Alt),
    PeerSealId(Alt),
    PeerAuthorPk,
    PeerKeyId,
    PeerEncapBit { pos: u16, bit: u8 },
    PeerEncapTruncated { keep: u16 },
    // fields of the author's `UniChannelCreated` (differing from what `create_uni_channel` was given)
    AuthorParent(Alt),
    AuthorLabel(Alt),
    AuthorOpenId(Alt),
    AuthorPeerPk,
    AuthorKeyId,
    // role violations
    CreatedByOpener,
    ReceivedBySealer,
    /// the author handles the `received` effect of its own channel (trying to get the open end too)
    AuthorReceivesOwn { claim_other_sealer: bool },
    /// the peer handles a `created` effect for the channel (trying to get the seal end too)
    PeerCreates,
}

#[derive(Clone, Debug, Serialize, Deserialize)]
struct HCase {
    seed: u64,
    parent: [u8; 32],
    label: [u8; 32],
    change: HChange,
    msgs: Vec<Vec<u8>>,
}

fn hchange() -> impl Strategy<Value = HChange> {
    prop_oneof![
        4 => Just(HChange::None),
        2 => alt().prop_map(HChange::PeerParent),
        2 => alt().prop_map(HChange::PeerLabel),
        2 => alt().prop_map(HChange::PeerSealId),
        1 => Just(HChange::PeerAuthorPk),
        1 => Just(HChange::PeerKeyId),
        1 => (any::<u16>(), 0u8..8).prop_map(|(pos, bit)| HChange::PeerEncapBit { pos, bit }),
        1 => any::<u16>().prop_map(|keep| HChange::PeerEncapTruncated { keep }),
        1 => alt().prop_map(HChange::AuthorParent),
        1 => alt().prop_map(HChange::AuthorLabel),
        2 => alt().prop_map(HChange::AuthorOpenId),
        1 => Just(HChange::AuthorPeerPk),
        1 => Just(HChange::AuthorKeyId),
        2 => Just(HChange::CreatedByOpener),
        2 => Just(HChange::ReceivedBySealer),
        2 => any::<bool>().prop_map(|claim_other_sealer| HChange::AuthorReceivesOwn { claim_other_sealer }),
        1 => Just(HChange::PeerCreates),
    ]
}

fn hcase() -> impl Strategy<Value = HCase> {
    (any::<u64>(), id32(), id32(), hchange(), msgs())
        .prop_map(|(seed, parent, label, change, msgs)| HCase { seed, parent, label, change, msgs })
}

struct Dev {
    eng: E,
    id: DeviceId,
    enc_key_id: EncryptionKeyId,
    enc_pk: Vec<u8>,
    spare_key_id: EncryptionKeyId,
    spare_pk: Vec<u8>,
    ffi: Ffi<MemStore>,
    handler: Handler<MemStore>,
    state: memory::State<CS>,
    client: Client<memory::State<CS>>,
}

impl Dev {
    fn new(seed: u64, salt: u64) -> Result<Dev, Failure> {
        let rng = SeedRng::new(seed, salt);
        let id = DeviceId::from_bytes(rng.bytes32());
        let (eng, _) = E::from_entropy(rng);
        let mut store = MemStore::new();
        let mk = |store: &mut MemStore| -> Result<(EncryptionKeyId, Vec<u8>), Failure> {
            let sk = EncryptionKey::<CS>::new(&eng);
            let pk = postcard::to_allocvec(&sk.public().map_err(err_s("public key of a fresh key failed"))?)
                .map_err(err_s("cannot encode a public key"))?;
            let kid = store.insert_key(&eng, sk).map_err(err_s("keystore insert failed"))?;
            Ok((kid, pk))
        };
        let (enc_key_id, enc_pk) = mk(&mut store)?;
        let (spare_key_id, spare_pk) = mk(&mut store)?;
        let state = memory::State::<CS>::new();
        Ok(Dev {
            eng,
            id,
            enc_key_id,
            enc_pk,
            spare_key_id,
            spare_pk,
            ffi: Ffi::new(store.clone()),
            handler: Handler::new(id, store),
            client: Client::new(state.clone()),
            state,
        })
    }

    /// Calls the FFI procedure `afc::create_uni_channel` the way the policy VM does.
    fn create_uni_channel(
        &self,
        parent: CmdId,
        their_pk: &[u8],
        seal_id: DeviceId,
        open_id: DeviceId,
        label: LabelId,
    ) -> Result<(Vec<u8>, BaseId), MachineError> {
        let schema = <Ffi<MemStore> as FfiModule>::SCHEMA;
        let proc_idx = schema
            .functions
            .iter()
            .position(|f| f.name.as_str() == "create_uni_channel")
            .expect("afc FFI module exports create_uni_channel");
        let ctx = CommandContext::Action(ActionContext { name: ident!("CreateChannel"), head_id: parent });
        let mut stack = MachineStack::new();
        stack.push(parent)?;
        stack.push(self.enc_key_id)?;
        stack.push(their_pk.to_vec())?;
        stack.push(seal_id)?;
        stack.push(open_id)?;
        stack.push(label)?;
        self.ffi.call(proc_idx, &mut stack, &ctx, &self.eng).map_err(|e| -> MachineError { e.into() })?;
        let s: Struct = stack.pop()?;
        let mut encap = None;
        let mut key_id = None;
        for (k, v) in s.fields {
            match (k.as_str(), v) {
                ("peer_encap", Value::Bytes(b)) => encap = Some(b),
                ("key_id", Value::Id(i)) => key_id = Some(i),
                _ => {}
            }
        }
        Ok((encap.expect("peer_encap field"), key_id.expect("key_id field")))
    }
}

type Key = UniKey<SealKey<CS>, OpenKey<CS>>;

fn is_must_be_sealer<T>(r: &Result<T, aranya_afc_util::Error>) -> bool {
    matches!(r, Err(aranya_afc_util::Error::AuthorMustBeSealer))
}

fn check_handler(c: &HCase, info: &mut CaseInfo) -> CheckResult {
    let mut author = Dev::new(c.seed, 11)?;
    let mut peer = Dev::new(c.seed, 12)?;
    let parent = CmdId::from_bytes(c.parent);
    let label = LabelId::from_bytes(c.label);

    let (encap, key_id) = author
        .create_uni_channel(parent, &peer.enc_pk, author.id, peer.id, label)
        .map_err(err_s("create_uni_channel failed on valid input"))?;

    // what each side is told by its effect
    let mut created = UniChannelCreated {
        parent_cmd_id: parent,
        open_id: peer.id,
        author_enc_key_id: author.enc_key_id,
        peer_enc_pk: &peer.enc_pk,
        label_id: label,
        key_id: key_id.into(),
    };
    let mut encap_peer = encap.clone();
    let mut received = UniChannelReceived {
        parent_cmd_id: parent,
        seal_id: author.id,
        author_enc_pk: &author.enc_pk,
        peer_enc_key_id: peer.enc_key_id,
        label_id: label,
        encap: &[],
    };

    let mut changed = true;
    let kind: &str;
    let alt_id = |a: &Alt, orig: &[u8], changed: &mut bool| -> [u8; 32] {
        let mut o = [0u8; 32];
        o.copy_from_slice(orig);
        let n = a.apply(&o);
        *changed = n != o;
        n
    };
    match &c.change {
        HChange::None => {
            changed = false;
            kind = "none";
        }
        HChange::PeerParent(a) => {
            received.parent_cmd_id = CmdId::from_bytes(alt_id(a, parent.as_bytes(), &mut changed));
            kind = "peer_parent";
        }
        HChange::PeerLabel(a) => {
            received.label_id = LabelId::from_bytes(alt_id(a, label.as_bytes(), &mut changed));
            kind = "peer_label";
        }
        HChange::PeerSealId(a) => {
            received.seal_id = DeviceId::from_bytes(alt_id(a, author.id.as_bytes(), &mut changed));
            kind = "peer_seal_id";
        }
        HChange::PeerAuthorPk => {
            received.author_enc_pk = &author.spare_pk;
            kind = "peer_author_pk";
        }
        HChange::PeerKeyId => {
            received.peer_enc_key_id = peer.spare_key_id;
            kind = "peer_key_id";
        }
        HChange::PeerEncapBit { pos, bit } => {
            let i = vcommon::idx(*pos, encap_peer.len());
            encap_peer[i] ^= 1 << bit;
            kind = "peer_encap_bit";
        }
        HChange::PeerEncapTruncated { keep } => {
            let k = vcommon::idx(*keep, encap_peer.len());
            encap_peer.truncate(k);
            kind = "peer_encap_truncated";
        }
        HChange::AuthorParent(a) => {
            created.parent_cmd_id = CmdId::from_bytes(alt_id(a, parent.as_bytes(), &mut changed));
            kind = "author_parent";
        }
        HChange::AuthorLabel(a) => {
            created.label_id = LabelId::from_bytes(alt_id(a, label.as_bytes(), &mut changed));
            kind = "author_label";
        }
        HChange::AuthorOpenId(a) => {
            created.open_id = DeviceId::from_bytes(alt_id(a, peer.id.as_bytes(), &mut changed));
            kind = "author_open_id";
        }
        HChange::AuthorPeerPk => {
            created.peer_enc_pk = &peer.spare_pk;
            kind = "author_peer_pk";
        }
        HChange::AuthorKeyId => {
            created.author_enc_key_id = author.spare_key_id;
            kind = "author_key_id";
        }
        HChange::CreatedByOpener => {
            info.label("created_by_opener");
            created.open_id = author.id;
            let r: Result<Key, _> = author.handler.uni_channel_created(&author.eng, &created);
            ensure!(
                is_must_be_sealer(&r),
                "uni_channel_created accepted a channel whose opener is the device itself",
                "result={:?}",
                r.as_ref().map(|_| "key").map_err(|e| e.to_string())
            );
            info.nontrivial();
            return Ok(());
        }
        HChange::ReceivedBySealer => {
            info.label("received_by_sealer");
            received.seal_id = peer.id;
            received.encap = &encap_peer;
            let r: Result<Key, _> = peer.handler.uni_channel_received(&peer.eng, &received);
            ensure!(
                is_must_be_sealer(&r),
                "uni_channel_received accepted a channel whose sealer is the device itself",
                "result={:?}",
                r.as_ref().map(|_| "key").map_err(|e| e.to_string())
            );
            info.nontrivial();
            return Ok(());
        }
        HChange::AuthorReceivesOwn { claim_other_sealer } => {
            info.label("author_receives_own");
            // the author first takes its seal end ...
            let k: Key = author
                .handler
                .uni_channel_created(&author.eng, &created)
                .map_err(err_s("author could not load its seal key"))?;
            ensure!(matches!(k, UniKey::SealOnly(_)), "uni_channel_created did not return a seal-only key", "");
            let seal_ch = author.state.add(k.into(), label, peer.id).map_err(err_s("state.add failed"))?;
            // ... and then tries to obtain the open end of the same channel as well
            received.encap = &encap_peer;
            received.peer_enc_key_id = author.enc_key_id;
            received.author_enc_pk = &author.enc_pk;
            if *claim_other_sealer {
                // lying about the sealer gets past the role check; the key must then be useless
                received.seal_id = peer.id;
            }
            let r: Result<Key, _> = author.handler.uni_channel_received(&author.eng, &received);
            if !*claim_other_sealer {
                ensure!(
                    is_must_be_sealer(&r),
                    "uni_channel_received gave the channel's sealer an open key",
                    "result={:?}",
                    r.as_ref().map(|_| "key").map_err(|e| e.to_string())
                );
            } else if let Ok(k) = r {
                ensure!(matches!(k, UniKey::OpenOnly(_)), "uni_channel_received did not return an open-only key", "");
                let open_ch = author.state.add(k.into(), label, peer.id).map_err(err_s("state.add failed"))?;
                client_roundtrip(c, &author.client, seal_ch, &author.client, open_ch, label, false)?;
            } else {
                info.label("derivation_refused");
            }
            info.nontrivial();
            return Ok(());
        }
        HChange::PeerCreates => {
            info.label("peer_creates");
            // the peer takes its open end ...
            received.encap = &encap_peer;
            let k: Key = peer
                .handler
                .uni_channel_received(&peer.eng, &received)
                .map_err(err_s("peer could not load its open key"))?;
            ensure!(matches!(k, UniKey::OpenOnly(_)), "uni_channel_received did not return an open-only key", "");
            // ... and cannot get a seal end for the same channel: it is the opener
            created.author_enc_key_id = peer.enc_key_id;
            created.peer_enc_pk = &author.enc_pk;
            let r: Result<Key, _> = peer.handler.uni_channel_created(&peer.eng, &created);
            ensure!(
                is_must_be_sealer(&r),
                "uni_channel_created gave the channel's opener a seal key",
                "result={:?}",
                r.as_ref().map(|_| "key").map_err(|e| e.to_string())
            );
            info.nontrivial();
            return Ok(());
        }
    }
    info.label(kind);
    received.encap = &encap_peer;

    let seal: Result<Key, _> = author.handler.uni_channel_created(&author.eng, &created);
    let open: Result<Key, _> = peer.handler.uni_channel_received(&peer.eng, &received);

    if !changed {
        info.label("expect_match");
        let seal = seal.map_err(err_s("author could not load its seal key"))?;
        let open = open.map_err(err_s("peer could not load its open key"))?;
        ensure!(matches!(seal, UniKey::SealOnly(_)), "uni_channel_created did not return a seal-only key", "");
        ensure!(matches!(open, UniKey::OpenOnly(_)), "uni_channel_received did not return an open-only key", "");
        let seal_ch = author.state.add(seal.into(), label, peer.id).map_err(err_s("state.add failed"))?;
        let open_ch = peer.state.add(open.into(), label, author.id).map_err(err_s("state.add failed"))?;
        // each device holds exactly one end
        ensure!(
            matches!(author.client.setup_open_ctx(seal_ch), Err(AfcError::NotFound(_))),
            "the author's channel can be used for opening",
            ""
        );
        ensure!(
            matches!(peer.client.setup_seal_ctx(open_ch), Err(AfcError::NotFound(_))),
            "the peer's channel can be used for sealing",
            ""
        );
        client_roundtrip(c, &author.client, seal_ch, &peer.client, open_ch, label, true)?;
        info.nontrivial();
        return Ok(());
    }
    info.label("expect_mismatch");
    let (seal, open) = match (seal, open) {
        (Ok(s), Ok(o)) => (s, o),
        _ => {
            info.label("derivation_refused");
            return Ok(());
        }
    };
    // both channels are registered under the author's label so that only the keys can make the
    // difference
    let seal_ch = author.state.add(seal.into(), label, peer.id).map_err(err_s("state.add failed"))?;
    let open_ch = peer.state.add(open.into(), label, author.id).map_err(err_s("state.add failed"))?;
    client_roundtrip(c, &author.client, seal_ch, &peer.client, open_ch, label, false)?;
    info.nontrivial();
    Ok(())
}

fn client_roundtrip(
    c: &HCase,
    sealer: &Client<memory::State<CS>>,
    seal_ch: aranya_fast_channels::LocalChannelId,
    opener: &Client<memory::State<CS>>,
    open_ch: aranya_fast_channels::LocalChannelId,
    label: LabelId,
    want_ok: bool,
) -> CheckResult {
    const OV: usize = Client::<memory::State<CS>>::OVERHEAD;
    let mut sctx = sealer.setup_seal_ctx(seal_ch).map_err(err_s("setup_seal_ctx failed"))?;
    let mut octx = opener.setup_open_ctx(open_ch).map_err(err_s("setup_open_ctx failed"))?;
    for (i, m) in c.msgs.iter().enumerate() {
        let mut ct = vec![0u8; m.len() + OV];
        sealer.seal(&mut sctx, &mut ct, m).map_err(err_s("seal failed"))?;
        let (res, out) = if i % 2 == 1 {
            let mut data = ct.clone();
            let r = opener.open_in_place(&mut octx, &mut data);
            (r, data)
        } else {
            let mut dst = vec![0x5au8; m.len()];
            let r = opener.open(&mut octx, &mut dst, &ct);
            (r, dst)
        };
        if want_ok {
            match res {
                Ok((l, s)) => {
                    ensure!(l == label, "opened message reports another label", "msg#{i}: {l} != {label}");
                    ensure!(s.to_u64() == i as u64, "opened message reports another sequence number", "msg#{i}: {s}");
                    ensure!(&out == m, "matching parameters: opened plaintext differs", "msg#{i}");
                }
                Err(e) => fail!("matching parameters: peer cannot open the author's message", "msg#{i}: {e}"),
            }
        } else {
            ensure!(
                res.is_err(),
                "changed parameter: peer still opens the author's message",
                "msg#{i} len={} change={:?}",
                m.len(),
                c.change
            );
        }
    }
    Ok(())
}

pub fn run(ctx: &Ctx) -> ! {
    let mut rep = Report::new(ctx, "exploration");
    rep.assume(
        "keys, ids and the engine's randomness come from a seeded byte generator (splitmix64) instead of the system \
         CSPRNG; cipher suite = DefaultCipherSuite (P-256 DHKEM, HKDF-SHA-512, AES-256-GCM)",
    );
    rep.assume(
        "'cannot open' is decided with the author's exact associated data and sequence number on both sides, so only \
         the derived keys can make the difference; a modified encapsulation that no longer decodes counts as refused",
    );
    rep.explore(
        "uni_keys",
        "aranya_crypto::afc: random/edge 32-byte parent, label, seal and open ids (4% with seal_id == open_id), fresh key \
         pairs; UniSecrets::new + UniSealKey::from_author_secret vs UniOpenKey::from_peer_encap with no change or exactly one \
         change (one id replaced or one bit flipped, ids swapped, own secret key or other side's public key replaced, one \
         encapsulation bit flipped, encapsulation of an independent UniSecrets) on the peer's or the author's description; \
         1-3 messages of 0..80 bytes sealed and opened (copying and in-place) with identical AD/seq; non-trivial = both keys \
         derived and every message opened (no change) resp. rejected (change), or a same-device tuple refused by all three \
         derivations",
        case,
        ctx.pick(6_000, 120_000),
        check_uni,
    );
    rep.explore(
        "handler",
        "two devices with their own engine/keystore: afc FFI create_uni_channel (called through FfiModule::call) -> \
         Handler::uni_channel_created / uni_channel_received -> memory::State::add -> Client seal/open; no change or one changed \
         field of the peer's UniChannelReceived (parent, label, seal_id, author pk, own key id, encap bit/truncation) or of the \
         author's UniChannelCreated (parent, label, open_id, peer pk, own key id), and role violations (created with \
         open_id == self, received with seal_id == self, author handling `received` for its own channel, peer handling \
         `created`); non-trivial = keys loaded and all messages opened with label+seq (no change) resp. rejected (change), or \
         the role violation answered with AuthorMustBeSealer / a useless key",
        hcase,
        ctx.pick(3_000, 60_000),
        check_handler,
    );
    rep.finish()
}
