//! C39: `Client::{seal, seal_in_place}` x `Client::{open, open_in_place}` round trips return the
//! plaintext, the channel's label and the sequence number used; every modified, truncated, foreign
//! or arbitrary byte string is answered with an error, without a panic and without plaintext left
//! in the output buffer.
//!
//! Runs on the in-memory state and the POSIX shared-memory state, with the default cipher suite and
//! with a second suite whose AEAD is deliberately sloppy (decrypts before it verifies and does not
//! clean up on failure), so that "no plaintext left behind" depends on the client alone.
use std::marker::PhantomData;

use aranya_crypto::{
    CipherSuite, DeviceId, Random as _,
    afc::{OpenKey, RawOpenKey, RawSealKey, SealKey, Seq},
    dangerous::spideroak_crypto::{
        aead::{self, Aead, AeadKey, IndCca2, Lifetime, OpenError, SealError},
        ctutils::CtEq as _,
        hash::tuple_hash,
        hpke::{AeadId, HpkeAead},
        oid::{Identified, Oid},
        rust::Sha256,
        typenum::{U12, U16, U32},
    },
    default::DefaultCipherSuite,
    policy::LabelId,
    test_util::TestCs,
};
use aranya_crypto::dangerous::spideroak_crypto::oid;
use aranya_fast_channels::{
    AfcState, AranyaState, Buf as _, Client, Directed, Error as AfcError, FixedBuf, LocalChannelId, memory,
    shm::{Flag, Mode, ReadState, WriteState},
};
use proptest::prelude::*;
use serde::{Deserialize, Serialize};
use vcommon::{CaseInfo, CheckResult, Ctx, Failure, Report, ensure};

use crate::util::{SeedRng, ShmPath, contains, gen_bytes, panic_file};

// ---------------------------------------------------------------------------------------------
// a sloppy AEAD: stream cipher + MAC that decrypts first, verifies afterwards and leaves whatever it
// produced in the buffer when verification fails

pub struct SloppyAead {
    key: [u8; 32],
}

impl SloppyAead {
    fn xor_stream(&self, nonce: &[u8], data: &mut [u8]) {
        for (i, chunk) in data.chunks_mut(32).enumerate() {
            let ks = tuple_hash::<Sha256, _>([&b"ks"[..], &self.key[..], nonce, &(i as u64).to_le_bytes()[..]]);
            for (d, k) in chunk.iter_mut().zip(ks.iter()) {
                *d ^= *k;
            }
        }
    }
    fn tag(&self, nonce: &[u8], ct: &[u8], ad: &[u8]) -> [u8; 16] {
        let d = tuple_hash::<Sha256, _>([&b"tag"[..], &self.key[..], nonce, ct, ad]);
        let mut t = [0u8; 16];
        t.copy_from_slice(&d[..16]);
        t
    }
}

impl Aead for SloppyAead {
    const LIFETIME: Lifetime = Lifetime::Messages(u64::MAX);
    type KeySize = U32;
    type NonceSize = U12;
    type Overhead = U16;
    const MAX_PLAINTEXT_SIZE: u64 = u64::MAX - 16;
    const MAX_ADDITIONAL_DATA_SIZE: u64 = u64::MAX;
    type Key = AeadKey<U32>;

    fn new(key: &Self::Key) -> Self {
        let mut k = [0u8; 32];
        k.copy_from_slice(key.as_slice());
        Self { key: k }
    }

    fn seal_in_place(&self, nonce: &[u8], data: &mut [u8], overhead: &mut [u8], ad: &[u8]) -> Result<(), SealError> {
        aead::check_seal_in_place_params::<Self>(nonce, data, overhead, ad)?;
        self.xor_stream(nonce, data);
        let t = self.tag(nonce, data, ad);
        overhead[..16].copy_from_slice(&t);
        Ok(())
    }

    // no clean-up of `dst` on failure (the trait's default would zeroize it)
    fn open(&self, dst: &mut [u8], nonce: &[u8], ciphertext: &[u8], ad: &[u8]) -> Result<(), OpenError> {
        aead::check_open_params::<Self>(dst, nonce, ciphertext, ad)?;
        let n = ciphertext.len() - 16;
        let (ct, tag) = ciphertext.split_at(n);
        dst[..n].copy_from_slice(ct);
        self.open_in_place(nonce, &mut dst[..n], tag, ad)
    }

    fn open_in_place(&self, nonce: &[u8], data: &mut [u8], overhead: &[u8], ad: &[u8]) -> Result<(), OpenError> {
        aead::check_open_in_place_params::<Self>(nonce, data, overhead, ad)?;
        let want = self.tag(nonce, data, ad);
        self.xor_stream(nonce, data);
        if overhead.len() != 16 || !bool::from(overhead.ct_eq(&want[..])) {
            return Err(OpenError::Authentication);
        }
        Ok(())
    }
}

impl IndCca2 for SloppyAead {}
impl HpkeAead for SloppyAead {
    const ID: AeadId = AeadId::Other(std::num::NonZeroU16::new(0x7e57).unwrap());
}
impl Identified for SloppyAead {
    const OID: &Oid = oid!("1.2.3.39");
}

type Gcm = DefaultCipherSuite;
type Sloppy = TestCs<
    SloppyAead,
    <Gcm as CipherSuite>::Hash,
    <Gcm as CipherSuite>::Kdf,
    <Gcm as CipherSuite>::Kem,
    <Gcm as CipherSuite>::Mac,
    <Gcm as CipherSuite>::Signer,
>;

// ---------------------------------------------------------------------------------------------
// state backends

fn err_s<T: std::fmt::Display>(sig: &'static str) -> impl Fn(T) -> Failure {
    move |e| Failure::new(sig, e.to_string())
}

trait Backend<CS: CipherSuite>: Sized {
    type Afc: AfcState<CipherSuite = CS>;
    fn new(seed: u64) -> Result<Self, Failure>;
    fn add(&self, keys: Directed<RawSealKey<CS>, RawOpenKey<CS>>, label: LabelId) -> Result<LocalChannelId, Failure>;
    fn client(&self) -> &Client<Self::Afc>;
}

struct Mem<CS: CipherSuite> {
    client: Client<memory::State<CS>>,
    state: memory::State<CS>,
}

impl<CS: CipherSuite> Backend<CS> for Mem<CS> {
    type Afc = memory::State<CS>;
    fn new(_seed: u64) -> Result<Self, Failure> {
        let state = memory::State::<CS>::new();
        Ok(Mem { client: Client::new(state.clone()), state })
    }
    fn add(&self, keys: Directed<RawSealKey<CS>, RawOpenKey<CS>>, label: LabelId) -> Result<LocalChannelId, Failure> {
        let keys = match keys {
            Directed::SealOnly { seal } => Directed::SealOnly {
                seal: SealKey::from_raw(&seal, Seq::ZERO).map_err(err_s("SealKey::from_raw failed"))?,
            },
            Directed::OpenOnly { open } => {
                Directed::OpenOnly { open: OpenKey::from_raw(&open).map_err(err_s("OpenKey::from_raw failed"))? }
            }
        };
        self.state.add(keys, label, DeviceId::default()).map_err(err_s("memory state add failed"))
    }
    fn client(&self) -> &Client<Self::Afc> {
        &self.client
    }
}

const SHM_CHANS: usize = 8;

struct Shm<CS: CipherSuite> {
    client: Client<ReadState<CS>>,
    write: WriteState<CS, SeedRng>,
    _path: ShmPath,
}

impl<CS: CipherSuite> Backend<CS> for Shm<CS> {
    type Afc = ReadState<CS>;
    fn new(seed: u64) -> Result<Self, Failure> {
        let path = ShmPath::new();
        let write = WriteState::<CS, _>::open(&*path.0, Flag::Create, Mode::ReadWrite, SHM_CHANS, SeedRng::new(seed, 77))
            .map_err(err_s("cannot create the shm write state"))?;
        let read = ReadState::<CS>::open(&*path.0, Flag::OpenOnly, Mode::ReadWrite, SHM_CHANS)
            .map_err(err_s("cannot open the shm read state"))?;
        Ok(Shm { client: Client::new(read), write, _path: path })
    }
    fn add(&self, keys: Directed<RawSealKey<CS>, RawOpenKey<CS>>, label: LabelId) -> Result<LocalChannelId, Failure> {
        self.write.add(keys, label, DeviceId::default()).map_err(err_s("shm state add failed"))
    }
    fn client(&self) -> &Client<Self::Afc> {
        &self.client
    }
}

fn key_pair<CS: CipherSuite>(rng: &SeedRng) -> (RawSealKey<CS>, RawOpenKey<CS>) {
    let seal = RawSealKey::<CS>::random(rng);
    let open = RawOpenKey::<CS> { key: seal.key.clone(), base_nonce: seal.base_nonce.clone() };
    (seal, open)
}

// ---------------------------------------------------------------------------------------------
// case data

#[derive(Clone, Copy, Debug, Serialize, Deserialize, PartialEq, Eq)]
enum Suite {
    Gcm,
    Sloppy,
}

#[derive(Clone, Copy, Debug, Serialize, Deserialize, PartialEq, Eq)]
enum Bk {
    Mem,
    Shm,
}

#[derive(Clone, Debug, Serialize, Deserialize)]
enum Plain {
    Bytes(Vec<u8>),
    Gen { len: u16, fill: u8 },
}

impl Plain {
    fn bytes(&self) -> Vec<u8> {
        match self {
            Plain::Bytes(b) => b.clone(),
            Plain::Gen { len, fill } => gen_bytes(usize::from(*len), *fill),
        }
    }
}

/// How the bytes are handed to the client.
#[derive(Clone, Copy, Debug, Serialize, Deserialize, PartialEq, Eq)]
enum Iface {
    /// `open(dst, ciphertext)` / `seal(dst, plaintext)`; `slack` extra bytes in `dst`
    Copy { slack: u8 },
    /// in place on a `Vec<u8>`
    Vec,
    /// in place on a `FixedBuf` with `slack` bytes of spare capacity beyond what is needed
    Fixed { slack: u8 },
}

fn suite() -> impl Strategy<Value = Suite> {
    prop_oneof![3 => Just(Suite::Gcm), 2 => Just(Suite::Sloppy)]
}
fn bk() -> impl Strategy<Value = Bk> {
    prop_oneof![2 => Just(Bk::Mem), 1 => Just(Bk::Shm)]
}
fn iface() -> impl Strategy<Value = Iface> {
    prop_oneof![
        3 => (0u8..9).prop_map(|slack| Iface::Copy { slack }),
        2 => Just(Iface::Vec),
        1 => (0u8..9).prop_map(|slack| Iface::Fixed { slack }),
    ]
}
fn plain(max: u16) -> impl Strategy<Value = Plain> {
    prop_oneof![
        4 => prop::collection::vec(any::<u8>(), 0..64).prop_map(Plain::Bytes),
        1 => prop::collection::vec(any::<u8>(), 0..4).prop_map(Plain::Bytes),
        4 => (0..=max, any::<u8>()).prop_map(|(len, fill)| Plain::Gen { len, fill }),
        1 => (prop::sample::select(vec![0u16, 1, 15, 16, 17, 31, 32, 33, 255, 256, 1023, 1024, 2047, 2048]), any::<u8>())
            .prop_map(|(len, fill)| Plain::Gen { len, fill }),
    ]
}
fn id32() -> impl Strategy<Value = [u8; 32]> {
    prop_oneof![4 => any::<[u8; 32]>(), 1 => Just([0u8; 32]), 1 => Just([0xffu8; 32])]
}

const SENTINEL: u8 = 0xA5;
const OV: usize = 24;

/// The plaintext is long and varied enough that finding it in a buffer is not a coincidence.
fn distinctive(pt: &[u8]) -> bool {
    pt.len() >= 8 && !pt.iter().all(|b| *b == 0) && !pt.iter().all(|b| *b == SENTINEL)
}

pub const F5_SIG: &str =
    "open_in_place panics: attempt to subtract with overflow @ crates/aranya-fast-channels/src/client.rs";

struct Opened {
    res: Result<(LabelId, Seq), AfcError>,
    /// the caller-visible buffer after the call (`dst`, or the in-place buffer's contents)
    out: Vec<u8>,
}

/// Runs one open call; a panic becomes a failure named after the interface, the message and the file.
fn open_with<S: AfcState>(client: &Client<S>, octx: &mut S::OpenCtx, data: &[u8], iface: Iface) -> Result<Opened, Failure> {
    let r = vcommon::catch(|| match iface {
        Iface::Copy { slack } => {
            let mut dst = vec![SENTINEL; data.len().saturating_sub(OV) + usize::from(slack)];
            let res = client.open(octx, &mut dst, data);
            Opened { res, out: dst }
        }
        Iface::Vec => {
            let mut buf = data.to_vec();
            let res = client.open_in_place(octx, &mut buf);
            Opened { res, out: buf }
        }
        Iface::Fixed { slack } => {
            let mut backing = vec![SENTINEL; data.len() + usize::from(slack)];
            backing[..data.len()].copy_from_slice(data);
            let (res, n) = {
                let mut buf = FixedBuf::from_slice_mut(&mut backing, data.len()).expect("len <= capacity");
                let res = client.open_in_place(octx, &mut buf);
                (res, buf.len())
            };
            backing.truncate(n);
            Opened { res, out: backing }
        }
    });
    r.map_err(|(msg, loc)| {
        let what = if matches!(iface, Iface::Copy { .. }) { "open" } else { "open_in_place" };
        let m: String = msg.chars().take(100).collect();
        Failure::new(format!("{what} panics: {m} @ {}", panic_file(&loc)), format!("input len={} iface={iface:?} at {loc}", data.len()))
    })
}

struct Sealed {
    ct: Vec<u8>,
}

fn seal_with<S: AfcState>(client: &Client<S>, sctx: &mut S::SealCtx, pt: &[u8], iface: Iface) -> Result<Sealed, Failure> {
    let r = vcommon::catch(|| -> Result<Vec<u8>, AfcError> {
        match iface {
            Iface::Copy { slack } => {
                let mut dst = vec![SENTINEL; pt.len() + OV + usize::from(slack)];
                client.seal(sctx, &mut dst, pt)?;
                dst.truncate(pt.len() + OV);
                Ok(dst)
            }
            Iface::Vec => {
                let mut buf = pt.to_vec();
                client.seal_in_place(sctx, &mut buf)?;
                Ok(buf)
            }
            Iface::Fixed { slack } => {
                let mut backing = vec![SENTINEL; pt.len() + OV + usize::from(slack)];
                backing[..pt.len()].copy_from_slice(pt);
                let n = {
                    let mut buf = FixedBuf::from_slice_mut(&mut backing, pt.len()).expect("len <= capacity");
                    client.seal_in_place(sctx, &mut buf)?;
                    buf.len()
                };
                backing.truncate(n);
                Ok(backing)
            }
        }
    });
    match r {
        Ok(Ok(ct)) => Ok(Sealed { ct }),
        Ok(Err(e)) => Err(Failure::new("seal failed on valid input", format!("len={} iface={iface:?}: {e}", pt.len()))),
        Err((msg, loc)) => Err(Failure::new(format!("seal panics: {msg} @ {}", panic_file(&loc)), format!("len={} at {loc}", pt.len()))),
    }
}

fn check_success(o: &Opened, pt: &[u8], label: LabelId, seq: u64, iface: Iface, what: &str) -> CheckResult {
    match &o.res {
        Ok((l, s)) => {
            ensure!(*l == label, "open returned another label", "{what}: {l} != {label}");
            ensure!(s.to_u64() == seq, "open returned another sequence number", "{what}: {s} != {seq}");
        }
        Err(e) => {
            return Err(Failure::new("valid message rejected", format!("{what}: len={} iface={iface:?}: {e}", pt.len())));
        }
    }
    match iface {
        Iface::Copy { .. } => {
            ensure!(o.out.len() >= pt.len() && o.out[..pt.len()] == *pt, "opened plaintext differs", "{what}: len={}", pt.len());
        }
        _ => {
            ensure!(
                o.out == pt,
                "in-place open did not leave exactly the plaintext",
                "{what}: len={} got len={}",
                pt.len(),
                o.out.len()
            );
        }
    }
    Ok(())
}

/// After a refused open: an error, and the plaintext is nowhere in the caller's buffer.
fn check_refused(o: &Opened, pt: Option<&[u8]>, input: &[u8], iface: Iface, what: &str) -> CheckResult {
    ensure!(
        o.res.is_err(),
        if matches!(iface, Iface::Copy { .. }) { "open accepted a forged message" } else { "open_in_place accepted a forged message" },
        "{what}: input len={} iface={iface:?} -> {:?}",
        input.len(),
        o.res
    );
    if let Some(pt) = pt {
        if distinctive(pt) && !contains(input, pt) {
            ensure!(
                !contains(&o.out, pt),
                if matches!(iface, Iface::Copy { .. }) {
                    "plaintext left in the output buffer after a failed open"
                } else {
                    "plaintext left in the buffer after a failed open_in_place"
                },
                "{what}: pt len={} input len={} iface={iface:?} err={:?}",
                pt.len(),
                input.len(),
                o.res
            );
        }
    }
    Ok(())
}

// ---------------------------------------------------------------------------------------------
// part: roundtrip

#[derive(Clone, Debug, Serialize, Deserialize)]
struct Msg {
    pt: Plain,
    seal: Iface,
    open: Iface,
}

#[derive(Clone, Debug, Serialize, Deserialize)]
struct RtCase {
    seed: u64,
    suite: Suite,
    sealer: Bk,
    opener: Bk,
    label: [u8; 32],
    /// unrelated channels added before the one under test
    decoys: u8,
    msgs: Vec<Msg>,
    /// open the messages in reverse order
    reverse: bool,
}

fn rt_case() -> impl Strategy<Value = RtCase> {
    (
        any::<u64>(),
        suite(),
        bk(),
        bk(),
        id32(),
        0u8..3,
        prop::collection::vec((plain(2048), iface(), iface()).prop_map(|(pt, seal, open)| Msg { pt, seal, open }), 1..5),
        any::<bool>(),
    )
        .prop_map(|(seed, suite, sealer, opener, label, decoys, msgs, reverse)| RtCase {
            seed,
            suite,
            sealer,
            opener,
            label,
            decoys,
            msgs,
            reverse,
        })
}

fn rt_run<CS: CipherSuite, S: Backend<CS>, O: Backend<CS>>(c: &RtCase, info: &mut CaseInfo) -> CheckResult {
    let rng = SeedRng::new(c.seed, 3);
    let label = LabelId::from_bytes(c.label);
    let sealer = S::new(c.seed)?;
    let opener = O::new(c.seed ^ 1)?;
    for _ in 0..c.decoys {
        let (s, o) = key_pair::<CS>(&rng);
        sealer.add(Directed::OpenOnly { open: o }, LabelId::from_bytes(rng.bytes32()))?;
        opener.add(Directed::SealOnly { seal: s }, LabelId::from_bytes(rng.bytes32()))?;
    }
    let (sk, ok) = key_pair::<CS>(&rng);
    let sch = sealer.add(Directed::SealOnly { seal: sk }, label)?;
    let och = opener.add(Directed::OpenOnly { open: ok }, label)?;
    let mut sctx = sealer.client().setup_seal_ctx(sch).map_err(err_s("setup_seal_ctx failed"))?;
    let mut octx = opener.client().setup_open_ctx(och).map_err(err_s("setup_open_ctx failed"))?;

    let mut sealed = Vec::new();
    for (i, m) in c.msgs.iter().enumerate() {
        let pt = m.pt.bytes();
        let s = seal_with(sealer.client(), &mut sctx, &pt, m.seal)?;
        ensure!(s.ct.len() == pt.len() + OV, "ciphertext length is not plaintext length + OVERHEAD", "msg#{i} pt={} ct={}", pt.len(), s.ct.len());
        if distinctive(&pt) {
            ensure!(!contains(&s.ct, &pt), "sealed message contains the plaintext", "msg#{i} len={}", pt.len());
        }
        sealed.push((i, pt, s.ct, m.open));
    }
    if c.reverse {
        sealed.reverse();
    }
    let mut nonempty = false;
    for (i, pt, ct, oi) in &sealed {
        let o = open_with(opener.client(), &mut octx, ct, *oi)?;
        check_success(&o, pt, label, *i as u64, *oi, "round trip")?;
        nonempty |= !pt.is_empty();
        info.label(match pt.len() {
            0 => "len_0",
            1..=15 => "len_1_15",
            16..=255 => "len_16_255",
            _ => "len_256_2048",
        });
        info.label(match oi {
            Iface::Copy { .. } => "open_copy",
            Iface::Vec => "open_in_place_vec",
            Iface::Fixed { .. } => "open_in_place_fixed",
        });
    }
    for m in &c.msgs {
        info.label(match m.seal {
            Iface::Copy { .. } => "seal_copy",
            Iface::Vec => "seal_in_place_vec",
            Iface::Fixed { .. } => "seal_in_place_fixed",
        });
    }
    if nonempty {
        info.nontrivial();
    }
    Ok(())
}

fn check_rt(c: &RtCase, info: &mut CaseInfo) -> CheckResult {
    info.label(format!("{:?}->{:?}", c.sealer, c.opener));
    info.label(format!("{:?}", c.suite));
    match (c.suite, c.sealer, c.opener) {
        (Suite::Gcm, Bk::Mem, Bk::Mem) => rt_run::<Gcm, Mem<Gcm>, Mem<Gcm>>(c, info),
        (Suite::Gcm, Bk::Mem, Bk::Shm) => rt_run::<Gcm, Mem<Gcm>, Shm<Gcm>>(c, info),
        (Suite::Gcm, Bk::Shm, Bk::Mem) => rt_run::<Gcm, Shm<Gcm>, Mem<Gcm>>(c, info),
        (Suite::Gcm, Bk::Shm, Bk::Shm) => rt_run::<Gcm, Shm<Gcm>, Shm<Gcm>>(c, info),
        (Suite::Sloppy, Bk::Mem, Bk::Mem) => rt_run::<Sloppy, Mem<Sloppy>, Mem<Sloppy>>(c, info),
        (Suite::Sloppy, Bk::Mem, Bk::Shm) => rt_run::<Sloppy, Mem<Sloppy>, Shm<Sloppy>>(c, info),
        (Suite::Sloppy, Bk::Shm, Bk::Mem) => rt_run::<Sloppy, Shm<Sloppy>, Mem<Sloppy>>(c, info),
        (Suite::Sloppy, Bk::Shm, Bk::Shm) => rt_run::<Sloppy, Shm<Sloppy>, Shm<Sloppy>>(c, info),
    }
}

// ---------------------------------------------------------------------------------------------
// part: tamper

#[derive(Clone, Debug, Serialize, Deserialize)]
enum Tamper {
    /// one bit anywhere in ciphertext || tag || header
    BitFlip { pos: u16, bit: u8 },
    /// one bit in the 16 tag bytes
    TagFlip { pos: u8, bit: u8 },
    /// the header's sequence number replaced
    HeaderSeq { seq: u64 },
    /// the header of an earlier message of the same channel (needs `prior >= 1`, else like `HeaderSeq`)
    EarlierHeader,
    /// 1..=len bytes removed from the end
    TruncateEnd { n: u16 },
    /// 1..=len bytes removed from the front
    TruncateFront { n: u16 },
    /// bytes appended behind the header
    Append { extra: Vec<u8> },
    /// one byte inserted
    Insert { pos: u16, byte: u8 },
    /// the ciphertext part replaced by other bytes of the same length
    Body { fill: u8 },
    /// sealed by a channel with another key (same label)
    OtherKey,
    /// presented to a channel holding the same key under another label
    OtherLabel,
}

#[derive(Clone, Debug, Serialize, Deserialize)]
struct TCase {
    seed: u64,
    suite: Suite,
    opener: Bk,
    label: [u8; 32],
    other_label: [u8; 32],
    /// messages sealed before the one under test (so its sequence number is `prior`)
    prior: u8,
    pt: Plain,
    seal: Iface,
    open: Iface,
    tamper: Tamper,
}

fn tamper() -> impl Strategy<Value = Tamper> {
    prop_oneof![
        4 => (any::<u16>(), 0u8..8).prop_map(|(pos, bit)| Tamper::BitFlip { pos, bit }),
        4 => (0u8..16, 0u8..8).prop_map(|(pos, bit)| Tamper::TagFlip { pos, bit }),
        2 => prop_oneof![any::<u64>(), 0u64..4, Just(u64::MAX), Just(u64::MAX - 1)].prop_map(|seq| Tamper::HeaderSeq { seq }),
        1 => Just(Tamper::EarlierHeader),
        4 => any::<u16>().prop_map(|n| Tamper::TruncateEnd { n }),
        1 => (0u16..40).prop_map(|n| Tamper::TruncateEnd { n }),
        2 => any::<u16>().prop_map(|n| Tamper::TruncateFront { n }),
        2 => prop::collection::vec(any::<u8>(), 1..24).prop_map(|extra| Tamper::Append { extra }),
        1 => (any::<u16>(), any::<u8>()).prop_map(|(pos, byte)| Tamper::Insert { pos, byte }),
        1 => any::<u8>().prop_map(|fill| Tamper::Body { fill }),
        2 => Just(Tamper::OtherKey),
        2 => Just(Tamper::OtherLabel),
    ]
}

fn t_case() -> impl Strategy<Value = TCase> {
    (any::<u64>(), suite(), bk(), id32(), id32(), 0u8..3, plain(600), iface(), iface(), tamper()).prop_map(
        |(seed, suite, opener, label, other_label, prior, pt, seal, open, tamper)| TCase {
            seed,
            suite,
            opener,
            label,
            other_label,
            prior,
            pt,
            seal,
            open,
            tamper,
        },
    )
}

fn t_run<CS: CipherSuite, O: Backend<CS>>(c: &TCase, info: &mut CaseInfo) -> CheckResult {
    let rng = SeedRng::new(c.seed, 5);
    let label = LabelId::from_bytes(c.label);
    let mut other_label = c.other_label;
    if other_label == c.label {
        other_label[31] ^= 1;
    }
    let other_label = LabelId::from_bytes(other_label);
    let sealer = Mem::<CS>::new(c.seed)?;
    let opener = O::new(c.seed ^ 1)?;
    let (sk, ok) = key_pair::<CS>(&rng);
    let (sk2, _) = key_pair::<CS>(&rng);
    let ok_other_label = RawOpenKey::<CS> { key: ok.key.clone(), base_nonce: ok.base_nonce.clone() };
    let sch = sealer.add(Directed::SealOnly { seal: sk }, label)?;
    let sch2 = sealer.add(Directed::SealOnly { seal: sk2 }, label)?;
    let och = opener.add(Directed::OpenOnly { open: ok }, label)?;
    let och_other = opener.add(Directed::OpenOnly { open: ok_other_label }, other_label)?;
    let mut sctx = sealer.client().setup_seal_ctx(sch).map_err(err_s("setup_seal_ctx failed"))?;
    let mut sctx2 = sealer.client().setup_seal_ctx(sch2).map_err(err_s("setup_seal_ctx failed"))?;
    let mut octx = opener.client().setup_open_ctx(och).map_err(err_s("setup_open_ctx failed"))?;
    let mut octx_other = opener.client().setup_open_ctx(och_other).map_err(err_s("setup_open_ctx failed"))?;

    let pt = c.pt.bytes();
    let mut earlier: Option<Vec<u8>> = None;
    for _ in 0..c.prior {
        let e = seal_with(sealer.client(), &mut sctx, &pt, c.seal)?.ct;
        let _ = seal_with(sealer.client(), &mut sctx2, &pt, c.seal)?;
        earlier.get_or_insert(e);
    }
    let valid = seal_with(sealer.client(), &mut sctx, &pt, c.seal)?.ct;
    let foreign = seal_with(sealer.client(), &mut sctx2, &pt, c.seal)?.ct;
    let seq = u64::from(c.prior);
    let n = valid.len();
    ensure!(n == pt.len() + OV, "ciphertext length is not plaintext length + OVERHEAD", "pt={} ct={n}", pt.len());

    let mut input = valid.clone();
    let mut use_other_label_chan = false;
    let kind = match &c.tamper {
        Tamper::BitFlip { pos, bit } => {
            input[vcommon::idx(*pos, n)] ^= 1 << bit;
            "bit_flip"
        }
        Tamper::TagFlip { pos, bit } => {
            input[pt.len() + usize::from(*pos)] ^= 1 << bit;
            "tag_flip"
        }
        Tamper::HeaderSeq { seq: s } => {
            let s = if *s == seq { s ^ 1 } else { *s };
            input[n - 8..].copy_from_slice(&s.to_le_bytes());
            "header_seq"
        }
        Tamper::EarlierHeader => {
            match &earlier {
                Some(e) => input[n - 8..].copy_from_slice(&e[n - 8..]),
                None => input[n - 8..].copy_from_slice(&(seq + 1).to_le_bytes()),
            }
            "earlier_header"
        }
        Tamper::TruncateEnd { n: k } => {
            let k = 1 + vcommon::idx(*k, n);
            input.truncate(n - k);
            "truncate_end"
        }
        Tamper::TruncateFront { n: k } => {
            let k = 1 + vcommon::idx(*k, n);
            input.drain(..k);
            "truncate_front"
        }
        Tamper::Append { extra } => {
            input.extend_from_slice(extra);
            "append"
        }
        Tamper::Insert { pos, byte } => {
            input.insert(vcommon::idx(*pos, n + 1), *byte);
            "insert"
        }
        Tamper::Body { fill } => {
            let b = gen_bytes(pt.len(), *fill);
            if pt.is_empty() || b == valid[..pt.len()] {
                input[pt.len()] ^= 0x80;
            } else {
                input[..pt.len()].copy_from_slice(&b);
            }
            "body"
        }
        Tamper::OtherKey => {
            input = foreign;
            "other_key"
        }
        Tamper::OtherLabel => {
            use_other_label_chan = true;
            "other_label"
        }
    };
    info.label(kind);
    info.label(match c.open {
        Iface::Copy { .. } => "open_copy",
        Iface::Vec => "open_in_place_vec",
        Iface::Fixed { .. } => "open_in_place_fixed",
    });
    if input.len() < OV {
        info.label(if input.len() < 8 { "input_shorter_than_header" } else { "input_shorter_than_header_plus_tag" });
    }
    if !use_other_label_chan {
        ensure!(input != valid, "harness: tampering left the message unchanged", "{:?}", c.tamper);
    }

    let o = if use_other_label_chan {
        open_with(opener.client(), &mut octx_other, &input, c.open)?
    } else {
        open_with(opener.client(), &mut octx, &input, c.open)?
    };
    check_refused(&o, Some(&pt), &input, c.open, kind)?;
    if distinctive(&pt) {
        info.label("leak_checked");
        info.nontrivial();
    }

    // the untouched message still opens on the right channel
    let o = open_with(opener.client(), &mut octx, &valid, c.open)?;
    check_success(&o, &pt, label, seq, c.open, "valid message after a refused one")?;
    Ok(())
}

fn check_tamper(c: &TCase, info: &mut CaseInfo) -> CheckResult {
    info.label(format!("{:?}/{:?}", c.suite, c.opener));
    match (c.suite, c.opener) {
        (Suite::Gcm, Bk::Mem) => t_run::<Gcm, Mem<Gcm>>(c, info),
        (Suite::Gcm, Bk::Shm) => t_run::<Gcm, Shm<Gcm>>(c, info),
        (Suite::Sloppy, Bk::Mem) => t_run::<Sloppy, Mem<Sloppy>>(c, info),
        (Suite::Sloppy, Bk::Shm) => t_run::<Sloppy, Shm<Sloppy>>(c, info),
    }
}

// ---------------------------------------------------------------------------------------------
// parts: arbitrary byte strings

#[derive(Clone, Debug, Serialize, Deserialize)]
enum Fill {
    Random(u8),
    Zeros,
    Ones,
    /// random bytes, but the last 8 bytes hold this small sequence number
    SmallSeq(u8, u8),
}

impl Fill {
    fn make(&self, len: usize) -> Vec<u8> {
        match self {
            Fill::Random(s) => gen_bytes(len, *s),
            Fill::Zeros => vec![0; len],
            Fill::Ones => vec![0xff; len],
            Fill::SmallSeq(s, q) => {
                let mut v = gen_bytes(len, *s);
                if len >= 8 {
                    v[len - 8..].copy_from_slice(&u64::from(*q).to_le_bytes());
                }
                v
            }
        }
    }
}

fn fill() -> impl Strategy<Value = Fill> {
    prop_oneof![
        4 => any::<u8>().prop_map(Fill::Random),
        1 => Just(Fill::Zeros),
        1 => Just(Fill::Ones),
        3 => (any::<u8>(), 0u8..4).prop_map(|(s, q)| Fill::SmallSeq(s, q)),
    ]
}

/// One case presents a byte string of EVERY length 0..=64 through all three interfaces.
#[derive(Clone, Debug, Serialize, Deserialize)]
struct GShort {
    seed: u64,
    suite: Suite,
    opener: Bk,
    fill: Fill,
    slack: u8,
}

#[derive(Clone, Debug, Serialize, Deserialize)]
struct GLong {
    seed: u64,
    suite: Suite,
    opener: Bk,
    data: Vec<u8>,
    small_seq: Option<u8>,
    open: Iface,
}

fn g_short() -> impl Strategy<Value = GShort> {
    (any::<u64>(), suite(), bk(), fill(), 0u8..9)
        .prop_map(|(seed, suite, opener, fill, slack)| GShort { seed, suite, opener, fill, slack })
}

fn g_long() -> impl Strategy<Value = GLong> {
    (
        any::<u64>(),
        suite(),
        bk(),
        prop_oneof![
            3 => prop::collection::vec(any::<u8>(), 0..200),
            1 => prop::collection::vec(any::<u8>(), 200..3000),
        ],
        prop::option::weighted(0.5, 0u8..4),
        iface(),
    )
        .prop_map(|(seed, suite, opener, data, small_seq, open)| GLong { seed, suite, opener, data, small_seq, open })
}

struct OpenerFixture<CS: CipherSuite, O: Backend<CS>> {
    opener: O,
    och: LocalChannelId,
    _cs: PhantomData<CS>,
}

fn opener_fixture<CS: CipherSuite, O: Backend<CS>>(seed: u64) -> Result<OpenerFixture<CS, O>, Failure> {
    let rng = SeedRng::new(seed, 9);
    let opener = O::new(seed)?;
    let (_, ok) = key_pair::<CS>(&rng);
    let och = opener.add(Directed::OpenOnly { open: ok }, LabelId::from_bytes(rng.bytes32()))?;
    Ok(OpenerFixture { opener, och, _cs: PhantomData })
}

fn gs_run<CS: CipherSuite, O: Backend<CS>>(c: &GShort, info: &mut CaseInfo) -> CheckResult {
    let fx = opener_fixture::<CS, O>(c.seed)?;
    let client = fx.opener.client();
    let mut octx = client.setup_open_ctx(fx.och).map_err(err_s("setup_open_ctx failed"))?;
    // every failure is collected so that the already listed one (F5_SIG) cannot hide another
    let mut failures: Vec<Failure> = Vec::new();
    for len in 0..=64usize {
        let data = c.fill.make(len);
        for iface in [Iface::Copy { slack: c.slack }, Iface::Vec, Iface::Fixed { slack: c.slack }] {
            let r = open_with(client, &mut octx, &data, iface).and_then(|o| check_refused(&o, None, &data, iface, "arbitrary bytes"));
            if let Err(f) = r {
                failures.push(f);
            }
        }
    }
    info.nontrivial();
    if let Some(f) = failures.iter().find(|f| f.signature != F5_SIG) {
        return Err(f.clone());
    }
    match failures.into_iter().next() {
        Some(f) => Err(f),
        None => Ok(()),
    }
}

fn gl_run<CS: CipherSuite, O: Backend<CS>>(c: &GLong, info: &mut CaseInfo) -> CheckResult {
    let fx = opener_fixture::<CS, O>(c.seed)?;
    let client = fx.opener.client();
    let mut octx = client.setup_open_ctx(fx.och).map_err(err_s("setup_open_ctx failed"))?;
    let mut data = c.data.clone();
    if let (Some(q), true) = (c.small_seq, data.len() >= 8) {
        let n = data.len();
        data[n - 8..].copy_from_slice(&u64::from(q).to_le_bytes());
    }
    info.label(match data.len() {
        0..=7 => "len_0_7",
        8..=23 => "len_8_23",
        24..=64 => "len_24_64",
        65..=199 => "len_65_199",
        _ => "len_200_3000",
    });
    if data.len() >= OV {
        info.nontrivial();
    }
    let o = open_with(client, &mut octx, &data, c.open)?;
    check_refused(&o, None, &data, c.open, "arbitrary bytes")
}

fn check_gs(c: &GShort, info: &mut CaseInfo) -> CheckResult {
    info.label(format!("{:?}/{:?}", c.suite, c.opener));
    match (c.suite, c.opener) {
        (Suite::Gcm, Bk::Mem) => gs_run::<Gcm, Mem<Gcm>>(c, info),
        (Suite::Gcm, Bk::Shm) => gs_run::<Gcm, Shm<Gcm>>(c, info),
        (Suite::Sloppy, Bk::Mem) => gs_run::<Sloppy, Mem<Sloppy>>(c, info),
        (Suite::Sloppy, Bk::Shm) => gs_run::<Sloppy, Shm<Sloppy>>(c, info),
    }
}

fn check_gl(c: &GLong, info: &mut CaseInfo) -> CheckResult {
    info.label(format!("{:?}/{:?}", c.suite, c.opener));
    match (c.suite, c.opener) {
        (Suite::Gcm, Bk::Mem) => gl_run::<Gcm, Mem<Gcm>>(c, info),
        (Suite::Gcm, Bk::Shm) => gl_run::<Gcm, Shm<Gcm>>(c, info),
        (Suite::Sloppy, Bk::Mem) => gl_run::<Sloppy, Mem<Sloppy>>(c, info),
        (Suite::Sloppy, Bk::Shm) => gl_run::<Sloppy, Shm<Sloppy>>(c, info),
    }
}

pub fn run(ctx: &Ctx) -> ! {
    let mut rep = Report::new(ctx, "exploration");
    rep.assume(
        "channel keys are raw AEAD keys drawn from a seeded byte generator and installed directly (RawSealKey / RawOpenKey \
         with identical key and base nonce); key derivation is C38's subject",
    );
    rep.assume(
        "two cipher suites: DefaultCipherSuite (AES-256-GCM) and a TestCs whose AEAD (harness-local stream cipher + MAC, \
         same key/nonce/tag sizes) decrypts before verifying and never cleans up, so the client's own clean-up is observable",
    );
    rep.assume(
        "'no plaintext in the buffer' = the plaintext (>= 8 bytes, not all 0x00 / all sentinel, and not already part of the \
         presented input) does not occur as a contiguous run in the caller's buffer after the failed call",
    );
    rep.assume("the sequence number used by the i-th seal on a fresh seal context is i (0-based)");
    rep.explore(
        "roundtrip",
        "1-4 messages per channel (plaintexts: arbitrary bytes of length 0..64, generated fill of length 0..=2048 incl. \
         0,1,15,16,17,31,32,33,255,256,1023,1024,2047,2048) sealed with seal / seal_in_place(Vec) / seal_in_place(FixedBuf) and \
         opened (in order or reversed) with open / open_in_place(Vec) / open_in_place(FixedBuf), dst slack 0..8; sealer and \
         opener independently on memory::State or shm WriteState+ReadState, 0-2 unrelated channels before the tested one; \
         oracle: same plaintext, the label given to add(), seq = index of the seal; non-trivial = >=1 non-empty message",
        rt_case,
        ctx.pick(12_000, 400_000),
        check_rt,
    );
    rep.explore(
        "tamper",
        "one valid message (plaintext 0..600 bytes, seq 0..2) changed in exactly one way: bit flip anywhere / in the tag, \
         header seq rewritten (incl. an earlier message's header), 1..=len bytes cut from the end or the front (reaches every \
         length below header+tag for short plaintexts), bytes appended, a byte inserted, body replaced, sealed under another \
         key, or presented to a channel with the same key but another label; oracle: Err, no panic, output buffer (0xA5 \
         pre-filled dst resp. the in-place buffer) does not contain the plaintext, and the untouched message still opens; \
         non-trivial = plaintext distinctive enough for the leak check",
        t_case,
        ctx.pick(20_000, 600_000),
        check_tamper,
    );
    rep.explore(
        "garbage_every_length",
        "each case: byte strings of EVERY length 0..=64 (random / zeros / 0xff / random with a small sequence number in the \
         last 8 bytes) presented to open, open_in_place(Vec) and open_in_place(FixedBuf); oracle: Err and no panic for each; \
         all 195 calls are made even after a failure and an unlisted failure is reported in preference to the listed one",
        g_short,
        ctx.pick(2_000, 40_000),
        check_gs,
    );
    rep.explore(
        "garbage_long",
        "arbitrary byte strings of length 0..3000 (half of them with a small sequence number in the last 8 bytes) through one \
         of the three interfaces; oracle: Err, no panic; non-trivial = at least header+tag long",
        g_long,
        ctx.pick(10_000, 300_000),
        check_gl,
    );
    rep.finish()
}
