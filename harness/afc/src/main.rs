mod c38;
mod c39;
mod util;

fn main() {
    let ctx = vcommon::Ctx::from_args();
    ctx.watchdog(ctx.pick(900, 7200));
    match ctx.prop.as_str() {
        "C38" => c38::run(&ctx),
        "C39" => c39::run(&ctx),
        p => {
            println!("INCONCLUSIVE vh-afc does not serve {p}");
            std::process::exit(2);
        }
    }
}
