//! Shared helpers for the AFC checks.
use std::{
    cell::Cell,
    sync::atomic::{AtomicU64, Ordering},
};

use aranya_crypto::Csprng;
use aranya_fast_channels::shm;
use serde::{Deserialize, Serialize};

/// Deterministic byte source (splitmix64) standing in for the CSPRNG: every key and id a case uses
/// is a pure function of the case's seed.
pub struct SeedRng(Cell<u64>);

impl SeedRng {
    pub fn new(seed: u64, salt: u64) -> Self {
        SeedRng(Cell::new(seed ^ salt.wrapping_mul(0xD6E8_FEB8_6659_FD93) ^ 0x5851_F42D_4C95_7F2D))
    }
    fn next(&self) -> u64 {
        let mut z = self.0.get().wrapping_add(0x9E37_79B9_7F4A_7C15);
        self.0.set(z);
        z = (z ^ (z >> 30)).wrapping_mul(0xBF58_476D_1CE4_E5B9);
        z = (z ^ (z >> 27)).wrapping_mul(0x94D0_49BB_1331_11EB);
        z ^ (z >> 31)
    }
    pub fn bytes32(&self) -> [u8; 32] {
        let mut b = [0u8; 32];
        self.fill_bytes(&mut b);
        b
    }
}

impl Csprng for SeedRng {
    fn fill_bytes(&self, dst: &mut [u8]) {
        for c in dst.chunks_mut(8) {
            let v = self.next().to_le_bytes();
            c.copy_from_slice(&v[..c.len()]);
        }
    }
}

/// A replacement value for a 32-byte id: one flipped bit, or other bytes.
#[derive(Clone, Debug, Serialize, Deserialize)]
pub enum Alt {
    Bit(u8),
    Bytes([u8; 32]),
}

impl Alt {
    pub fn apply(&self, orig: &[u8; 32]) -> [u8; 32] {
        match self {
            Alt::Bit(i) => {
                let mut b = *orig;
                b[usize::from(*i) / 8] ^= 1 << (*i % 8);
                b
            }
            Alt::Bytes(b) => *b,
        }
    }
}

/// Deterministic filler for long plaintexts (keeps replay files small).
pub fn gen_bytes(len: usize, seed: u8) -> Vec<u8> {
    let mut x = 0x1234_5678_9abc_def1u64 ^ (u64::from(seed) << 32) ^ len as u64;
    (0..len)
        .map(|_| {
            x ^= x << 13;
            x ^= x >> 7;
            x ^= x << 17;
            (x >> 24) as u8
        })
        .collect()
}

pub fn contains(hay: &[u8], needle: &[u8]) -> bool {
    !needle.is_empty() && hay.len() >= needle.len() && hay.windows(needle.len()).any(|w| w == needle)
}

static SHM_N: AtomicU64 = AtomicU64::new(0);

/// A unique POSIX shm name, unlinked on drop. The name never influences a check's outcome.
pub struct ShmPath(pub Box<shm::Path>);

impl ShmPath {
    pub fn new() -> Self {
        let n = SHM_N.fetch_add(1, Ordering::Relaxed);
        let s = format!("/vh-afc-{}-{}\0", std::process::id(), n);
        let p: Box<shm::Path> = s.as_str().try_into().expect("valid shm path");
        let _ = shm::unlink(&*p);
        ShmPath(p)
    }
}

impl Drop for ShmPath {
    fn drop(&mut self) {
        let _ = shm::unlink(&*self.0);
    }
}

/// `crates/...rs` part of a panic location (no line number, no checkout prefix).
pub fn panic_file(loc: &str) -> String {
    let l = match loc.find("crates/") {
        Some(i) => &loc[i..],
        None => loc,
    };
    match l.rfind(':') {
        Some(i) => l[..i].to_string(),
        None => l.to_string(),
    }
}
