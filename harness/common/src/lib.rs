//! vcommon: shared driver for the /verif harness binaries.
//!
//! A harness binary is invoked as `<bin> <Cxx> [--tier quick|thorough] [--replay FILE]`
//! with `VERIF_SEED` in the environment.  It builds a [`Report`], runs one or more
//! *parts* (each a generator + oracle), and calls [`Report::finish`], which writes
//! `/verif/evidence/<Cxx>.json`, prints `KNOWN-FINDING:` / `VIOLATION` lines and exits
//! 0 (held), 1 (unlisted violation) or 2 (inconclusive).

use std::{
    cell::RefCell,
    collections::{BTreeMap, HashSet},
    fmt::Debug,
    hash::{Hash, Hasher},
    panic::{AssertUnwindSafe, catch_unwind},
    path::{Path, PathBuf},
    sync::{
        Mutex, Once,
        atomic::{AtomicBool, Ordering},
    },
    time::Instant,
};

pub use proptest;
use proptest::{
    strategy::Strategy,
    test_runner::{Config, RngAlgorithm, RngSeed, TestCaseError, TestError, TestRng, TestRunner},
};
pub use serde;
use serde::{Deserialize, Serialize, de::DeserializeOwned};
pub use serde_json;
use serde_json::{Value, json};

#[derive(Clone, Copy, PartialEq, Eq, Debug)]
pub enum Tier {
    Quick,
    Thorough,
}

impl Tier {
    pub fn as_str(self) -> &'static str {
        match self {
            Tier::Quick => "quick",
            Tier::Thorough => "thorough",
        }
    }
}

/// Why a case failed. `signature` is a short stable string used to match known findings.
#[derive(Clone, Debug, Serialize, Deserialize)]
pub struct Failure {
    pub signature: String,
    pub detail: String,
}

impl Failure {
    pub fn new(signature: impl Into<String>, detail: impl Into<String>) -> Self {
        Self {
            signature: signature.into(),
            detail: detail.into(),
        }
    }
}

pub type CheckResult = Result<(), Failure>;

/// `fail!("sig", "fmt {}", x)` → `return Err(Failure)`.
#[macro_export]
macro_rules! fail {
    ($sig:expr, $($arg:tt)*) => {
        return Err($crate::Failure::new($sig, format!($($arg)*)))
    };
}

/// `ensure!(cond, "sig", "fmt {}", x)`.
#[macro_export]
macro_rules! ensure {
    ($cond:expr, $sig:expr, $($arg:tt)*) => {
        if !($cond) {
            return Err($crate::Failure::new($sig, format!($($arg)*)));
        }
    };
}

/// Per-case classification filled in by the oracle closure.
#[derive(Default)]
pub struct CaseInfo {
    pub nontrivial: bool,
    pub labels: Vec<String>,
}

impl CaseInfo {
    pub fn label(&mut self, l: impl Into<String>) {
        self.labels.push(l.into());
    }
    pub fn nontrivial(&mut self) {
        self.nontrivial = true;
    }
}

pub fn root() -> PathBuf {
    std::env::var_os("VERIF_ROOT")
        .map(PathBuf::from)
        .unwrap_or_else(|| PathBuf::from("/verif"))
}

pub struct Ctx {
    pub prop: String,
    pub tier: Tier,
    pub seed: u64,
    pub replay: Option<PathBuf>,
    pub start: Instant,
    pub workers: usize,
}

impl Ctx {
    /// Parses `<prop> [--tier T] [--replay F]` from argv (argv[1] is the property id).
    pub fn from_args() -> Ctx {
        let args: Vec<String> = std::env::args().collect();
        if args.len() < 2 {
            eprintln!("usage: {} <Cxx> [--tier quick|thorough] [--replay FILE]", args[0]);
            std::process::exit(2);
        }
        let prop = args[1].clone();
        let mut tier = match std::env::var("VERIF_TIER").ok().as_deref() {
            Some("thorough") => Tier::Thorough,
            _ => Tier::Quick,
        };
        let mut replay = None;
        let mut i = 2;
        while i < args.len() {
            match args[i].as_str() {
                "--tier" => {
                    i += 1;
                    tier = match args.get(i).map(String::as_str) {
                        Some("thorough") => Tier::Thorough,
                        Some("quick") => Tier::Quick,
                        other => {
                            eprintln!("bad tier {other:?}");
                            std::process::exit(2);
                        }
                    };
                }
                "--replay" => {
                    i += 1;
                    replay = args.get(i).map(PathBuf::from);
                }
                other => {
                    eprintln!("unknown argument {other}");
                    std::process::exit(2);
                }
            }
            i += 1;
        }
        let mut seed = std::env::var("VERIF_SEED")
            .ok()
            .and_then(|s| {
                let s = s.trim();
                if let Some(h) = s.strip_prefix("0x") {
                    u64::from_str_radix(h, 16).ok()
                } else {
                    s.parse::<u64>().ok().or_else(|| s.parse::<i64>().ok().map(|v| v as u64))
                }
            })
            .unwrap_or(0xA11CE);
        if seed == 0 {
            seed = 0x5EED_0001;
        }
        // evidence schema wants an integer; keep it within i64 so every JSON reader agrees
        seed &= 0x7fff_ffff_ffff_ffff;
        let workers = std::env::var("VERIF_WORKERS")
            .ok()
            .and_then(|s| s.parse().ok())
            .unwrap_or(16usize)
            .max(1);
        install_panic_hook();
        Ctx {
            prop,
            tier,
            seed,
            replay,
            start: Instant::now(),
            workers,
        }
    }

    pub fn pick<T>(&self, quick: T, thorough: T) -> T {
        match self.tier {
            Tier::Quick => quick,
            Tier::Thorough => thorough,
        }
    }

    pub fn is_replay(&self) -> bool {
        self.replay.is_some()
    }

    /// Starts a wall-clock watchdog: on expiry the process exits 2 (inconclusive), never 1.
    pub fn watchdog(&self, secs: u64) {
        let prop = self.prop.clone();
        std::thread::spawn(move || {
            std::thread::sleep(std::time::Duration::from_secs(secs));
            println!("INCONCLUSIVE property={prop} watchdog after {secs}s");
            std::process::exit(2);
        });
    }
}

// ---------------------------------------------------------------------------------------------
// panic capture

thread_local! {
    static LAST_PANIC: RefCell<Option<(String, String)>> = const { RefCell::new(None) };
    static CAPTURE: RefCell<bool> = const { RefCell::new(false) };
}

static HOOK: Once = Once::new();

pub fn install_panic_hook() {
    HOOK.call_once(|| {
        let prev = std::panic::take_hook();
        std::panic::set_hook(Box::new(move |info| {
            let capturing = CAPTURE.with(|c| *c.borrow());
            let msg = if let Some(s) = info.payload().downcast_ref::<&str>() {
                (*s).to_string()
            } else if let Some(s) = info.payload().downcast_ref::<String>() {
                s.clone()
            } else {
                "<non-string panic>".to_string()
            };
            let loc = info
                .location()
                .map(|l| format!("{}:{}", l.file(), l.line()))
                .unwrap_or_default();
            if capturing {
                LAST_PANIC.with(|p| *p.borrow_mut() = Some((msg, loc)));
            } else {
                prev(info);
            }
        }));
    });
}

/// Runs `f`, turning a panic into `Err((message, location))` without printing it.
pub fn catch<R>(f: impl FnOnce() -> R) -> Result<R, (String, String)> {
    install_panic_hook();
    let prev = CAPTURE.with(|c| std::mem::replace(&mut *c.borrow_mut(), true));
    LAST_PANIC.with(|p| *p.borrow_mut() = None);
    let r = catch_unwind(AssertUnwindSafe(f));
    CAPTURE.with(|c| *c.borrow_mut() = prev);
    match r {
        Ok(v) => Ok(v),
        Err(_) => Err(LAST_PANIC
            .with(|p| p.borrow_mut().take())
            .unwrap_or_else(|| ("<unknown panic>".into(), String::new()))),
    }
}

/// Strips the repository prefix and line number noise from a panic location for signatures.
pub fn short_loc(loc: &str) -> String {
    let l = loc.strip_prefix("/repo/").unwrap_or(loc);
    l.to_string()
}

// ---------------------------------------------------------------------------------------------
// known findings

#[derive(Clone, Debug, Serialize, Deserialize)]
pub struct KnownFinding {
    pub property: String,
    /// "known" suppresses a matching violation (prints KNOWN-FINDING); "fixed" suppresses nothing.
    pub status: String,
    /// Part of the check this finding belongs to.
    #[serde(default)]
    pub part: String,
    /// A failure is this finding iff its signature equals this string exactly.
    pub signature: String,
    pub what: String,
    /// Replay file (relative to /verif) holding the minimal failing case.
    #[serde(default)]
    pub replay: Option<String>,
    #[serde(default)]
    pub commit: Option<String>,
}

#[derive(Clone, Debug, Default, Serialize, Deserialize)]
pub struct KnownFindings {
    #[serde(default)]
    pub findings: Vec<KnownFinding>,
}

pub fn load_known() -> KnownFindings {
    // known_findings.json plus every known_findings.d/*.json (one file per property keeps edits apart)
    let mut files = vec![root().join("known_findings.json")];
    if let Ok(rd) = std::fs::read_dir(root().join("known_findings.d")) {
        let mut extra: Vec<PathBuf> = rd.filter_map(|e| e.ok().map(|e| e.path())).collect();
        extra.retain(|p| p.extension().is_some_and(|x| x == "json"));
        extra.sort();
        files.extend(extra);
    }
    let mut all = KnownFindings::default();
    for p in files {
        if let Ok(b) = std::fs::read(&p) {
            match serde_json::from_slice::<KnownFindings>(&b) {
                Ok(k) => all.findings.extend(k.findings),
                Err(e) => {
                    println!("INCONCLUSIVE cannot parse {}: {e}", p.display());
                    std::process::exit(2);
                }
            }
        }
    }
    all
}


// ---------------------------------------------------------------------------------------------
// crash guard (opt-in, for the memory-safety checks): a SIGSEGV / SIGBUS raised while a generated case is
// running is memory corruption in the code under test, not an inconclusive run.  The case in flight is on
// disk already; the handler prints the VIOLATION line for it and ends the process with exit 1.

pub mod crashguard {
    use std::{
        cell::Cell,
        sync::atomic::{AtomicBool, AtomicUsize, Ordering},
    };

    thread_local! {
        /// (pointer, length) of the preformatted lines for the case in flight on this thread; null = not armed
        static LINE: Cell<(*const u8, usize)> = const { Cell::new((std::ptr::null(), 0)) };
        static TID: Cell<usize> = const { Cell::new(usize::MAX) };
    }
    static INSTALLED: AtomicBool = AtomicBool::new(false);
    static NEXT_TID: AtomicUsize = AtomicUsize::new(0);

    extern "C" fn on_fault(sig: libc::c_int, _info: *mut libc::siginfo_t, _ctx: *mut libc::c_void) {
        let (p, n) = LINE.with(|l| l.get());
        // SAFETY: async-signal-safe calls only (write, signal, raise, _exit); the buffer is leaked, never freed
        unsafe {
            if p.is_null() {
                // not inside a generated case: default action (the driver reports exit 2)
                libc::signal(sig, libc::SIG_DFL);
                libc::raise(sig);
                return;
            }
            let _ = libc::write(1, p.cast(), n);
            libc::_exit(1);
        }
    }

    pub fn install() {
        if INSTALLED.swap(true, Ordering::SeqCst) {
            return;
        }
        // SAFETY: plain sigaction; SA_ONSTACK uses the alternate stack std registers for every thread
        unsafe {
            let mut sa: libc::sigaction = std::mem::zeroed();
            sa.sa_sigaction = on_fault as *const () as usize;
            sa.sa_flags = libc::SA_SIGINFO | libc::SA_ONSTACK;
            libc::sigemptyset(&mut sa.sa_mask);
            libc::sigaction(libc::SIGSEGV, &sa, std::ptr::null_mut());
            libc::sigaction(libc::SIGBUS, &sa, std::ptr::null_mut());
        }
    }

    /// A small per-thread number (file names of the in-flight cases).
    pub fn thread_no() -> usize {
        TID.with(|t| {
            if t.get() == usize::MAX {
                t.set(NEXT_TID.fetch_add(1, Ordering::SeqCst));
            }
            t.get()
        })
    }

    pub fn arm(lines: &'static [u8]) {
        LINE.with(|l| l.set((lines.as_ptr(), lines.len())));
    }

    pub fn disarm() {
        LINE.with(|l| l.set((std::ptr::null(), 0)));
    }
}

pub const CRASH_SIGNATURE: &str = "memory fault (SIGSEGV/SIGBUS) in the code under test";

// ---------------------------------------------------------------------------------------------
// replay files

#[derive(Clone, Debug, Serialize, Deserialize)]
pub struct ReplayFile {
    pub property: String,
    pub part: String,
    #[serde(default)]
    pub seed: u64,
    #[serde(default)]
    pub signature: String,
    #[serde(default)]
    pub detail: String,
    pub case: Value,
}

// ---------------------------------------------------------------------------------------------
// report

#[derive(Clone, Debug, Default, Serialize)]
pub struct PartResult {
    pub name: String,
    pub rule: String,
    pub evaluations: u64,
    pub distinct_nontrivial: u64,
    pub labels: BTreeMap<String, u64>,
    pub samples: Vec<Value>,
    pub known_excluded: u64,
    pub exhaustive: bool,
    #[serde(skip)]
    pub violation: Option<(Failure, Value)>,
    pub extra: BTreeMap<String, Value>,
}

pub struct Report<'a> {
    pub ctx: &'a Ctx,
    pub level: &'static str,
    pub assumptions: Vec<String>,
    pub parts: Vec<PartResult>,
    known: KnownFindings,
    known_printed: HashSet<String>,
    replay: Option<ReplayFile>,
    replay_ran: bool,
    /// see [`crashguard`]; switched on by the memory-safety checks
    pub crash_guard: bool,
}

#[derive(Default)]
struct WorkerStats {
    evaluations: u64,
    nontrivial: HashSet<u64>,
    labels: BTreeMap<String, u64>,
    samples: Vec<Value>,
    known_excluded: BTreeMap<String, u64>,
    frozen: bool,
}

fn hash_value<T: Serialize>(v: &T) -> u64 {
    let s = serde_json::to_string(v).unwrap_or_default();
    let mut h = std::collections::hash_map::DefaultHasher::new();
    s.hash(&mut h);
    h.finish()
}

fn mix(a: u64, b: u64) -> u64 {
    // splitmix64 step
    let mut z = a ^ b.wrapping_mul(0x9E37_79B9_7F4A_7C15).wrapping_add(0x632B_E59B_D9B4_E019);
    z = (z ^ (z >> 30)).wrapping_mul(0xBF58_476D_1CE4_E5B9);
    z = (z ^ (z >> 27)).wrapping_mul(0x94D0_49BB_1331_11EB);
    z ^ (z >> 31)
}

pub fn str_hash(s: &str) -> u64 {
    let mut h: u64 = 0xcbf2_9ce4_8422_2325;
    for b in s.bytes() {
        h ^= u64::from(b);
        h = h.wrapping_mul(0x1000_0000_01b3);
    }
    h
}

/// A proptest rng for ad-hoc deterministic generation (e.g. choosing which large world to build).
pub fn rng_for(seed: u64, salt: &str) -> TestRng {
    let s = mix(seed, str_hash(salt));
    let mut bytes = [0u8; 32];
    for (i, c) in bytes.chunks_mut(8).enumerate() {
        c.copy_from_slice(&mix(s, i as u64).to_le_bytes());
    }
    TestRng::from_seed(RngAlgorithm::ChaCha, &bytes)
}

impl<'a> Report<'a> {
    pub fn new(ctx: &'a Ctx, level: &'static str) -> Self {
        let replay = ctx.replay.as_ref().map(|p| {
            let b = std::fs::read(p).unwrap_or_else(|e| {
                println!("INCONCLUSIVE cannot read replay {}: {e}", p.display());
                std::process::exit(2);
            });
            serde_json::from_slice::<ReplayFile>(&b).unwrap_or_else(|e| {
                println!("INCONCLUSIVE cannot parse replay {}: {e}", p.display());
                std::process::exit(2);
            })
        });
        Report {
            ctx,
            level,
            assumptions: Vec::new(),
            parts: Vec::new(),
            known: load_known(),
            known_printed: HashSet::new(),
            replay,
            replay_ran: false,
            crash_guard: std::env::var_os("VERIF_INFLIGHT").is_some(),
        }
    }

    pub fn assume(&mut self, s: impl Into<String>) {
        self.assumptions.push(s.into());
    }

    fn known_for(&self, part: &str) -> Vec<KnownFinding> {
        self.known
            .findings
            .iter()
            .filter(|k| {
                k.property == self.ctx.prop && k.status == "known" && (k.part.is_empty() || k.part == part)
            })
            .cloned()
            .collect()
    }

    fn print_known(&mut self, k: &KnownFinding) {
        if self.known_printed.insert(k.signature.clone()) {
            println!("KNOWN-FINDING: property={} {} [{}]", k.property, k.what, k.signature);
        }
    }

    /// Runs one generated part. `f` is the oracle: `Ok` = held, `Err(Failure)` = violated;
    /// a panic inside `f` is a violation with signature `panic: …` (harnesses that expect
    /// panics use [`catch`] themselves).
    pub fn explore<T, S, M, F>(&mut self, name: &str, rule: &str, mk: M, cases: u32, f: F)
    where
        T: Debug + Clone + Serialize + DeserializeOwned + Send,
        S: Strategy<Value = T>,
        M: Fn() -> S + Sync,
        F: Fn(&T, &mut CaseInfo) -> CheckResult + Sync,
    {
        let guard = self.crash_guard;
        if guard {
            crashguard::install();
        }
        let g_prop = self.ctx.prop.clone();
        let g_seed = self.ctx.seed;
        let g_part = name.to_string();
        let g_replay: Option<PathBuf> = if self.replay.is_some() { self.ctx.replay.clone() } else { None };
        let g_dir = root().join("replays").join(&self.ctx.prop);
        // per thread and part: the file the case in flight is written to and the lines the handler prints
        thread_local! {
            static SLOT: RefCell<Option<(String, PathBuf, &'static [u8])>> = const { RefCell::new(None) };
        }
        let arm = |case: &T| {
            let (path, lines) = SLOT.with(|s| {
                let mut s = s.borrow_mut();
                if s.as_ref().is_none_or(|x| x.0 != g_part) {
                    let path = match &g_replay {
                        Some(p) => p.clone(),
                        None => g_dir.join(format!("crash-{}-t{}.json", g_part, crashguard::thread_no())),
                    };
                    let text = format!(
                        "failure: part={} signature={}\nVIOLATION property={} replay={}\n",
                        g_part,
                        CRASH_SIGNATURE,
                        g_prop,
                        path.display()
                    );
                    *s = Some((g_part.clone(), path, Box::leak(text.into_bytes().into_boxed_slice())));
                }
                let x = s.as_ref().unwrap();
                (x.1.clone(), x.2)
            });
            if g_replay.is_none() {
                let _ = std::fs::create_dir_all(&g_dir);
                let rf = ReplayFile {
                    property: g_prop.clone(),
                    part: g_part.clone(),
                    seed: g_seed,
                    signature: CRASH_SIGNATURE.into(),
                    detail: "the process received SIGSEGV or SIGBUS while this case was running".into(),
                    case: serde_json::to_value(case).unwrap_or(Value::Null),
                };
                let _ = std::fs::write(&path, serde_json::to_vec(&rf).unwrap_or_default());
            }
            crashguard::arm(lines);
        };
        let disarm_and_clean = || {
            crashguard::disarm();
        };
        let run_one = |case: &T, info: &mut CaseInfo| -> CheckResult {
            if guard {
                arm(case);
            }
            let r = catch(|| f(case, info));
            if guard {
                disarm_and_clean();
            }
            match r {
                Ok(r) => r,
                Err((msg, loc)) => {
                    let m: String = msg.chars().take(120).collect();
                    Err(Failure::new(
                        format!("panic: {} @ {}", m, short_loc(&loc)),
                        format!("panic `{msg}` at {loc}"),
                    ))
                }
            }
        };

        // ---- replay mode: run exactly the saved case for the matching part
        if let Some(rp) = self.replay.clone() {
            if rp.part != name {
                return;
            }
            self.replay_ran = true;
            let case: T = match serde_json::from_value(rp.case.clone()) {
                Ok(c) => c,
                Err(e) => {
                    println!("INCONCLUSIVE replay case does not decode for part {name}: {e}");
                    std::process::exit(2);
                }
            };
            let mut info = CaseInfo::default();
            let r = run_one(&case, &mut info);
            let mut part = PartResult {
                name: name.into(),
                rule: rule.into(),
                evaluations: 1,
                distinct_nontrivial: u64::from(info.nontrivial),
                samples: vec![rp.case.clone()],
                ..Default::default()
            };
            if let Err(fl) = r {
                println!("replay: part={name} FAILED signature={} detail={}", fl.signature, fl.detail);
                part.violation = Some((fl, rp.case));
            } else {
                println!("replay: part={name} passed");
            }
            self.parts.push(part);
            return;
        }

        // ---- known findings for this part: replay each listed input first
        let known = self.known_for(name);
        let mut known_seen: BTreeMap<String, u64> = BTreeMap::new();
        for k in &known {
            if let Some(rel) = &k.replay {
                let p = root().join(rel);
                if let Ok(b) = std::fs::read(&p) {
                    if let Ok(rp) = serde_json::from_slice::<ReplayFile>(&b) {
                        if rp.part == name {
                            if let Ok(case) = serde_json::from_value::<T>(rp.case) {
                                let mut info = CaseInfo::default();
                                if let Err(fl) = run_one(&case, &mut info) {
                                    if fl.signature == k.signature {
                                        self.print_known(k);
                                        *known_seen.entry(k.signature.clone()).or_default() += 1;
                                    }
                                }
                            }
                        }
                    }
                }
            }
        }
        let known_sigs: HashSet<String> = known.iter().map(|k| k.signature.clone()).collect();

        // ---- committed regression replays (replays/<prop>/regress-*.json for this part): plain
        // re-execution of saved shrunk cases, no generator involved
        let mut regress_run = 0u64;
        let mut regress_fail: Option<(Failure, Value)> = None;
        if let Ok(rd) = std::fs::read_dir(root().join("replays").join(&self.ctx.prop)) {
            let mut files: Vec<PathBuf> = rd.filter_map(|e| e.ok().map(|e| e.path())).collect();
            files.retain(|p| {
                p.file_name().and_then(|n| n.to_str()).is_some_and(|n| n.starts_with("regress-") && n.ends_with(".json"))
            });
            files.sort();
            for p in files {
                let Ok(b) = std::fs::read(&p) else { continue };
                let Ok(rp) = serde_json::from_slice::<ReplayFile>(&b) else { continue };
                if rp.part != name {
                    continue;
                }
                let Ok(case) = serde_json::from_value::<T>(rp.case.clone()) else {
                    println!("note: regression replay {} no longer decodes for part {name}; skipped", p.display());
                    continue;
                };
                regress_run += 1;
                let mut info = CaseInfo::default();
                if let Err(fl) = run_one(&case, &mut info) {
                    // a listed (unrepaired) finding met on the way is tolerated, except when it is the very
                    // failure this file was saved for: then the repaired defect is back
                    if known_sigs.contains(&fl.signature) && fl.signature != rp.signature {
                        continue;
                    }
                    println!("regression replay {} FAILED: {}", p.display(), fl.signature);
                    if regress_fail.is_none() {
                        regress_fail = Some((fl, rp.case));
                    }
                }
            }
        }

        // ---- generated search on `workers` threads, each a pure function of (seed, part, worker)
        let workers = self.ctx.workers.min(cases.max(1) as usize).max(1);
        let per = cases as usize / workers;
        let extra = cases as usize % workers;
        let stop = AtomicBool::new(false);
        let results: Mutex<Vec<(usize, WorkerStats, Option<(Failure, T)>)>> = Mutex::new(Vec::new());
        let base = mix(self.ctx.seed, str_hash(&format!("{}/{}", self.ctx.prop, name)));
        std::thread::scope(|sc| {
            for w in 0..workers {
                let n = per + usize::from(w < extra);
                if n == 0 {
                    continue;
                }
                let mk = &mk;
                let stop = &stop;
                let results = &results;
                let run_one = &run_one;
                let known_sigs = &known_sigs;
                let self_prop = self.ctx.prop.clone();
                let part_name = name.to_string();
                std::thread::Builder::new()
                    .stack_size(64 << 20)
                    .spawn_scoped(sc, move || {
                        let stats = RefCell::new(WorkerStats::default());
                        let first_fail: RefCell<Option<Failure>> = RefCell::new(None);
                        let cfg = Config {
                            cases: n as u32,
                            failure_persistence: None,
                            rng_seed: RngSeed::Fixed(mix(base, w as u64)),
                            max_shrink_iters: 4000,
                            max_shrink_time: 90_000,
                            max_global_rejects: 1_000_000,
                            verbose: 0,
                            ..Config::default()
                        };
                        let mut runner = TestRunner::new(cfg);
                        let strategy = mk();
                        let res = runner.run(&strategy, |case| {
                            if stop.load(Ordering::Relaxed) && first_fail.borrow().is_none() {
                                // another worker already found a failure: finish fast
                                return Ok(());
                            }
                            let mut info = CaseInfo::default();
                            let r = run_one(&case, &mut info);
                            let mut st = stats.borrow_mut();
                            if !st.frozen {
                                st.evaluations += 1;
                                for l in &info.labels {
                                    *st.labels.entry(l.clone()).or_default() += 1;
                                }
                                if info.nontrivial {
                                    let h = hash_value(&case);
                                    if st.nontrivial.insert(h) && st.samples.len() < 3 {
                                        if let Ok(v) = serde_json::to_value(&case) {
                                            st.samples.push(v);
                                        }
                                    }
                                }
                            }
                            match r {
                                Ok(()) => Ok(()),
                                Err(fl) => {
                                    if known_sigs.contains(&fl.signature) {
                                        if !st.frozen {
                                            *st.known_excluded.entry(fl.signature.clone()).or_default() += 1;
                                        }
                                        return Ok(());
                                    }
                                    st.frozen = true;
                                    stop.store(true, Ordering::Relaxed);
                                    let msg = fl.signature.clone();
                                    *first_fail.borrow_mut() = Some(fl);
                                    Err(TestCaseError::fail(msg))
                                }
                            }
                        });
                        let fail = match res {
                            Ok(()) => None,
                            Err(TestError::Fail(_, case)) => {
                                // re-run the shrunk case to get its own failure text
                                let mut info = CaseInfo::default();
                                let fl = match run_one(&case, &mut info) {
                                    Err(fl) => fl,
                                    Ok(()) => first_fail
                                        .borrow()
                                        .clone()
                                        .unwrap_or_else(|| Failure::new("flaky", "shrunk case passed on re-run")),
                                };
                                Some((fl, case))
                            }
                            Err(TestError::Abort(r)) => {
                                println!("INCONCLUSIVE generator aborted: {r}");
                                std::process::exit(2);
                            }
                        };
                        if guard {
                            let _ = std::fs::remove_file(
                                root().join("replays").join(&self_prop).join(format!("crash-{}-t{}.json", part_name, crashguard::thread_no())),
                            );
                        }
                        results.lock().unwrap().push((w, stats.into_inner(), fail));
                    })
                    .expect("spawn");
            }
        });

        let mut results = results.into_inner().unwrap();
        results.sort_by_key(|r| r.0);
        let mut part = PartResult {
            name: name.into(),
            rule: rule.into(),
            ..Default::default()
        };
        let mut nontriv: HashSet<u64> = HashSet::new();
        for (_, st, fail) in results {
            part.evaluations += st.evaluations;
            nontriv.extend(st.nontrivial);
            for (k, v) in st.labels {
                *part.labels.entry(k).or_default() += v;
            }
            for s in st.samples {
                if part.samples.len() < 3 {
                    part.samples.push(s);
                }
            }
            for (k, v) in st.known_excluded {
                *known_seen.entry(k).or_default() += v;
            }
            if part.violation.is_none() {
                if let Some((fl, case)) = fail {
                    let v = serde_json::to_value(&case).unwrap_or(Value::Null);
                    part.violation = Some((fl, v));
                }
            }
        }
        part.distinct_nontrivial = nontriv.len() as u64;
        part.extra.insert("regression_replays_run".into(), json!(regress_run));
        if let Some(rf) = regress_fail {
            part.violation = Some(rf);
        }
        for k in &known {
            if let Some(n) = known_seen.get(&k.signature) {
                part.known_excluded += n;
                let k = k.clone();
                self.print_known(&k);
            }
        }
        self.parts.push(part);
    }

    /// Adds a hand-built part (fault enumeration, schedule exploration, fuzz campaign …).
    pub fn add_part(&mut self, part: PartResult) {
        self.parts.push(part);
    }

    /// In replay mode: the saved file, if it targets `name` (for hand-built parts).
    pub fn replay_for(&mut self, name: &str) -> Option<ReplayFile> {
        match &self.replay {
            Some(r) if r.part == name => {
                self.replay_ran = true;
                Some(r.clone())
            }
            _ => None,
        }
    }

    /// True when running normally, or when replaying this very part.
    pub fn wants(&self, name: &str) -> bool {
        match &self.replay {
            None => true,
            Some(r) => r.part == name,
        }
    }

    /// For hand-built parts: decides whether a failure is a listed known finding (prints the
    /// KNOWN-FINDING line and returns true) or a violation (returns false).
    pub fn is_known(&mut self, part: &str, fl: &Failure) -> bool {
        if self.replay.is_some() {
            return false;
        }
        for k in self.known_for(part) {
            if k.signature == fl.signature {
                self.print_known(&k);
                return true;
            }
        }
        false
    }

    pub fn finish(self) -> ! {
        let ctx = self.ctx;
        let wall = ctx.start.elapsed().as_secs_f64();
        if ctx.is_replay() {
            if !self.replay_ran {
                println!("INCONCLUSIVE replay file names a part this check does not have");
                std::process::exit(2);
            }
            let failed = self.parts.iter().any(|p| p.violation.is_some());
            if failed {
                println!(
                    "VIOLATION property={} replay={}",
                    ctx.prop,
                    ctx.replay.as_ref().unwrap().display()
                );
                std::process::exit(1);
            }
            std::process::exit(0);
        }

        let mut violations = 0;
        let mut replay_paths = Vec::new();
        for p in &self.parts {
            if let Some((fl, case)) = &p.violation {
                violations += 1;
                let dir = root().join("replays").join(&ctx.prop);
                let _ = std::fs::create_dir_all(&dir);
                let path = dir.join(format!("{}-{}-{:x}.json", p.name, ctx.tier.as_str(), ctx.seed));
                let rf = ReplayFile {
                    property: ctx.prop.clone(),
                    part: p.name.clone(),
                    seed: ctx.seed,
                    signature: fl.signature.clone(),
                    detail: fl.detail.clone(),
                    case: case.clone(),
                };
                let _ = std::fs::write(&path, serde_json::to_vec_pretty(&rf).unwrap());
                println!("failure: part={} signature={}", p.name, fl.signature);
                let d: String = fl.detail.chars().take(2000).collect();
                println!("  detail: {d}");
                replay_paths.push(path);
            }
        }

        let evaluations: u64 = self.parts.iter().map(|p| p.evaluations).sum();
        let distinct: u64 = self.parts.iter().map(|p| p.distinct_nontrivial).sum();
        let rule = self
            .parts
            .iter()
            .map(|p| format!("[{}] {}", p.name, p.rule))
            .collect::<Vec<_>>()
            .join(" ;; ");
        let mut samples: Vec<Value> = Vec::new();
        for p in &self.parts {
            for s in p.samples.iter().take(2) {
                samples.push(json!({"part": p.name, "case": truncate_value(s)}));
            }
        }
        if samples.is_empty() {
            for p in &self.parts {
                if let Some((_, c)) = &p.violation {
                    samples.push(json!({"part": p.name, "failing_case": truncate_value(c)}));
                }
            }
        }
        let parts_json: Vec<Value> = self
            .parts
            .iter()
            .map(|p| {
                json!({
                    "name": p.name, "evaluations": p.evaluations,
                    "distinct_nontrivial": p.distinct_nontrivial,
                    "labels": p.labels, "known_excluded": p.known_excluded,
                    "exhaustive": p.exhaustive, "extra": p.extra,
                    "violated": p.violation.as_ref().map(|v| v.0.signature.clone()),
                })
            })
            .collect();
        let exhaustive = !self.parts.is_empty() && self.parts.iter().all(|p| p.exhaustive);
        let ev = json!({
            "property_id": ctx.prop,
            "tier": ctx.tier.as_str(),
            "seed": ctx.seed,
            "level": self.level,
            "coverage": {
                "evaluations": evaluations,
                "distinct_nontrivial": distinct,
                "rule": rule,
                "samples": samples,
                "exhaustive": exhaustive,
                "parts": parts_json,
                "workers": ctx.workers,
            },
            "assumptions": self.assumptions,
            "wall_s": wall,
            "violations": violations,
        });
        let dir = root().join("evidence");
        let _ = std::fs::create_dir_all(&dir);
        let path = dir.join(format!("{}.json", ctx.prop));
        if let Err(e) = std::fs::write(&path, serde_json::to_vec_pretty(&ev).unwrap()) {
            println!("INCONCLUSIVE cannot write evidence {}: {e}", path.display());
            std::process::exit(2);
        }
        println!(
            "{} tier={} seed={} evaluations={} distinct_nontrivial={} violations={} wall={:.1}s",
            ctx.prop,
            ctx.tier.as_str(),
            ctx.seed,
            evaluations,
            distinct,
            violations,
            wall
        );
        for p in &self.parts {
            println!(
                "  part {}: evals={} nontrivial={} known_excluded={} labels={:?}",
                p.name, p.evaluations, p.distinct_nontrivial, p.known_excluded, p.labels
            );
        }
        if violations > 0 {
            for p in replay_paths {
                println!("VIOLATION property={} replay={}", ctx.prop, p.display());
            }
            std::process::exit(1);
        }
        std::process::exit(0);
    }
}

fn truncate_value(v: &Value) -> Value {
    let s = serde_json::to_string(v).unwrap_or_default();
    if s.len() <= 6000 {
        v.clone()
    } else {
        let cut: String = s.chars().take(6000).collect();
        json!({"truncated_json": cut, "full_len": s.len()})
    }
}

/// Monotone index mapping (keeps proptest shrinking effective): `i` in 0..=65535 → 0..len.
pub fn idx(i: u16, len: usize) -> usize {
    if len == 0 {
        0
    } else {
        ((i as usize) * len) >> 16
    }
}

pub fn hex(b: &[u8]) -> String {
    let mut s = String::with_capacity(b.len() * 2);
    for x in b {
        s.push_str(&format!("{x:02x}"));
    }
    s
}

pub fn unhex(s: &str) -> Vec<u8> {
    (0..s.len() / 2)
        .map(|i| u8::from_str_radix(&s[2 * i..2 * i + 2], 16).unwrap_or(0))
        .collect()
}

pub fn write_replay(ctx: &Ctx, part: &str, fl: &Failure, case: Value) -> PathBuf {
    let dir = root().join("replays").join(&ctx.prop);
    let _ = std::fs::create_dir_all(&dir);
    let path = dir.join(format!("{}-{}-{:x}.json", part, ctx.tier.as_str(), ctx.seed));
    let rf = ReplayFile {
        property: ctx.prop.clone(),
        part: part.into(),
        seed: ctx.seed,
        signature: fl.signature.clone(),
        detail: fl.detail.clone(),
        case,
    };
    let _ = std::fs::write(&path, serde_json::to_vec_pretty(&rf).unwrap());
    path
}

pub fn path_exists(p: &Path) -> bool {
    p.exists()
}
