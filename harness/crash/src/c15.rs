//! C15: file-backed graph storage survives crashes.
//!
//! A multi-commit workload is executed on a real `LinearStorageProvider<FileManager>` while the
//! interposed syscalls (see `shim.rs`) are recorded.  For every crash point (= prefix of the
//! syscall log) and every kept/lost/torn combination of the not-yet-synced writes, the file image
//! that a POSIX file system may hold after the crash is materialised, reopened through the real
//! open path and walked completely; the observed state must be the state of the last returned
//! commit or of the commit in progress.

use std::{
    collections::{BTreeMap, BTreeSet},
    io::Write as _,
    path::Path,
    sync::{
        Arc, Mutex,
        atomic::{AtomicUsize, Ordering},
    },
};

use aranya_runtime::{
    Address, ClientError, ClientState, CmdId, Command, CommandExt as _, GraphId, Location, MemSpill, Prior,
    Priority, RuntimeBuffers, Segment as _, Storage, StorageProvider,
    storage::linear::{LinearStorageProvider, libc::FileManager, testing::MemStorageProvider},
    testing::protocol::{TestActions, TestPolicyStore, TestSink, WireProtocol},
};
use proptest::{
    prelude::*,
    strategy::ValueTree as _,
    test_runner::{Config, TestRunner},
};
use serde::{Deserialize, Serialize};
use vcommon::{
    CaseInfo, CheckResult, Ctx, Failure, PartResult, Report, ensure, fail, idx,
    serde_json::{self, json},
};

use crate::shim::{self, Ev};

// ---------------------------------------------------------------------------------------------
// workload

#[derive(Clone, Debug, Serialize, Deserialize, PartialEq, Eq)]
pub enum Cmd {
    /// set key `k` (in the acting peer's key space) to a value tagged with the op index, priority `p`
    Set(u8, u8, u8),
    /// delete key `k`
    Del(u8),
    /// no-op command with priority `p`
    Noop(u8),
}

#[derive(Clone, Debug, Serialize, Deserialize, PartialEq, Eq)]
pub enum Op {
    /// An action on peer `p` (0 = the file-backed client under test, 1/2 = in-memory peers).
    Act(u8, Cmd),
    /// Deliver every command of peer `from` to peer `to` in one transaction (or, with `split`, the
    /// causally first half and the rest in two transactions) and commit.
    Sync(u8, u8, bool),
    /// Drop the file-backed client and open the file again (clean restart).
    Reopen,
}

const PEERS: u8 = 3;
/// Key used by the commit that is made after recovery (outside every peer's key space).
const RECOVERY_KEY: u64 = 0xFFFF_0000;

fn key_of(peer: u8, k: u8) -> u64 {
    u64::from(peer) * 16 + u64::from(k % 4)
}

fn act_strategy() -> impl Strategy<Value = Cmd> {
    prop_oneof![
        5 => (0u8..4, any::<u8>(), 0u8..3).prop_map(|(k, v, p)| Cmd::Set(k, v, p)),
        2 => (0u8..4).prop_map(Cmd::Del),
        1 => (0u8..3).prop_map(Cmd::Noop),
    ]
}

fn op_strategy() -> impl Strategy<Value = Op> {
    prop_oneof![
        5 => act_strategy().prop_map(|a| Op::Act(0, a)),
        4 => (1u8..PEERS, act_strategy()).prop_map(|(p, a)| Op::Act(p, a)),
        4 => (1u8..PEERS, any::<bool>()).prop_map(|(p, s)| Op::Sync(p, 0, s)),
        1 => (1u8..PEERS).prop_map(|p| Op::Sync(0, p, false)),
        1 => prop_oneof![Just(Op::Sync(1, 2, false)), Just(Op::Sync(2, 1, false))],
        1 => Just(Op::Reopen),
    ]
}

fn ops_strategy(max: usize) -> impl Strategy<Value = Vec<Op>> {
    prop::collection::vec(op_strategy(), 2..=max)
}

fn crafted_workloads() -> Vec<Vec<Op>> {
    use Cmd::*;
    use Op::*;
    vec![
        // linear history with deletes, overwrites and a clean restart in the middle
        vec![
            Act(0, Set(0, 1, 0)),
            Act(0, Set(1, 2, 1)),
            Act(0, Del(0)),
            Act(0, Set(0, 3, 0)),
            Act(0, Noop(2)),
            Reopen,
            Act(0, Set(2, 4, 0)),
            Act(0, Del(1)),
        ],
        // two peers extend the graph concurrently; their branches arrive in separate transactions
        // (2 then 3 committed heads), then an action collapses the heads with merges
        vec![
            Act(0, Set(0, 1, 0)),
            Act(1, Set(0, 2, 1)),
            Act(1, Set(1, 3, 0)),
            Act(2, Set(0, 4, 2)),
            Sync(1, 0, false),
            Sync(2, 0, false),
            Act(0, Set(1, 5, 0)),
            Act(1, Del(0)),
            Sync(1, 0, false),
            Reopen,
            Sync(0, 1, false),
            Act(1, Set(2, 6, 0)),
            Sync(1, 0, false),
        ],
        // merges made by other peers are delivered (add_merge path), split deliveries, restart
        // while several heads are committed
        vec![
            Act(1, Set(0, 1, 0)),
            Act(2, Set(0, 2, 0)),
            Sync(1, 2, false),
            Act(2, Set(1, 3, 1)),
            Act(0, Set(3, 9, 0)),
            Sync(2, 0, true),
            Reopen,
            Act(1, Set(1, 4, 0)),
            Sync(1, 0, false),
            Act(0, Del(3)),
            Sync(0, 2, false),
            Act(2, Del(0)),
            Sync(2, 0, true),
        ],
    ]
}

// ---------------------------------------------------------------------------------------------
// observation of a storage (live, or reopened from a crash image)

type Facts = BTreeMap<Vec<Vec<u8>>, Vec<u8>>;

#[derive(Clone, Debug, PartialEq, Eq)]
struct CmdRec {
    parent: Prior<Address>,
    prio: Priority,
    policy: Option<Vec<u8>>,
    data: Vec<u8>,
    max_cut: u64,
    /// every fact visible at this command
    facts: Facts,
}

#[derive(Clone, Debug, PartialEq, Eq)]
struct Obs {
    heads: BTreeSet<(CmdId, u64)>,
    cmds: BTreeMap<CmdId, CmdRec>,
    /// full scan of the committed fact cache
    facts: Facts,
    segments: usize,
}

fn scan(q: &impl aranya_runtime::Query) -> Result<Facts, String> {
    let mut out = Facts::new();
    let it = q.query_prefix("payload", &[]).map_err(|e| format!("query_prefix: {e}"))?;
    for f in it {
        let f = f.map_err(|e| format!("fact iterator: {e}"))?;
        let k: Vec<Vec<u8>> = f.key.iter().map(|b| b.to_vec()).collect();
        out.insert(k, f.value.to_vec());
    }
    Ok(out)
}

/// Reads everything reachable from the committed heads; any read error is returned as text.
fn observe<S: Storage>(st: &S) -> Result<Obs, String> {
    let heads = st.get_heads().map_err(|e| format!("get_heads: {e}"))?.clone();
    if heads.is_empty() {
        return Err("head set is empty".into());
    }
    let mut obs = Obs {
        heads: BTreeSet::new(),
        cmds: BTreeMap::new(),
        facts: Facts::new(),
        segments: 0,
    };
    let mut stack: Vec<Location> = Vec::new();
    for la in heads.iter() {
        let loc = la.location();
        let seg = st.get_segment(loc).map_err(|e| format!("head segment {loc}: {e}"))?;
        let cmd = seg.get_command(loc).ok_or_else(|| format!("head {loc}: no command at that location"))?;
        if cmd.id() != la.id {
            return Err(format!("head {loc}: stored id {} differs from head set id {}", cmd.id(), la.id));
        }
        obs.heads.insert((la.id, la.max_cut.get()));
        stack.push(loc);
    }
    let mut seen: BTreeSet<u64> = BTreeSet::new();
    while let Some(loc) = stack.pop() {
        if seen.contains(&loc.segment.get()) {
            continue;
        }
        let seg = st.get_segment(loc).map_err(|e| format!("segment {loc}: {e}"))?;
        if seg.index() != loc.segment {
            return Err(format!("segment at {loc} says its index is {}", seg.index()));
        }
        seen.insert(loc.segment.get());
        obs.segments += 1;
        let first = seg.first_location();
        let last = seg.head_location().map_err(|e| format!("segment {loc} head_location: {e}"))?;
        if !(first.max_cut <= loc.max_cut && loc.max_cut <= last.max_cut) {
            return Err(format!("location {loc} outside its segment [{first}..{last}]"));
        }
        let mut mc = first.max_cut;
        loop {
            let l = Location::new(loc.segment, mc);
            let c = seg.get_command(l).ok_or_else(|| format!("no command at {l}"))?;
            let a = c.address().map_err(|e| format!("address of {l}: {e}"))?;
            if a.max_cut != mc {
                return Err(format!("command at {l} has max cut {}", a.max_cut));
            }
            let fp = st.get_fact_perspective(l).map_err(|e| format!("fact perspective at {l}: {e}"))?;
            let facts = scan(&fp).map_err(|e| format!("facts at {l}: {e}"))?;
            let rec = CmdRec {
                parent: c.parent(),
                prio: c.priority(),
                policy: c.policy().map(<[u8]>::to_vec),
                data: c.bytes().to_vec(),
                max_cut: mc.get(),
                facts,
            };
            if let Some(old) = obs.cmds.get(&a.id) {
                if *old != rec {
                    return Err(format!("command {} stored twice with different content", a.id));
                }
            }
            obs.cmds.insert(a.id, rec);
            if mc == last.max_cut {
                break;
            }
            mc = mc.checked_add(1).ok_or("max cut overflow")?;
        }
        let sf = seg.facts().map_err(|e| format!("segment {loc} facts: {e}"))?;
        scan(&sf).map_err(|e| format!("segment {loc} facts: {e}"))?;
        // the first command's parents must be the commands at the prior locations
        let firstc = seg.get_command(first).ok_or_else(|| format!("no command at {first}"))?;
        let check = |p: Location, want: Address| -> Result<(), String> {
            let ps = st.get_segment(p).map_err(|e| format!("prior segment {p}: {e}"))?;
            let pc = ps.get_command(p).ok_or_else(|| format!("prior {p}: no command"))?;
            if pc.id() != want.id {
                return Err(format!("prior {p} holds {} but the parent is {}", pc.id(), want.id));
            }
            Ok(())
        };
        match (seg.prior(), firstc.parent()) {
            (Prior::None, Prior::None) => {}
            (Prior::Single(p), Prior::Single(a)) => {
                check(p, a)?;
                stack.push(p);
            }
            (Prior::Merge(l, r), Prior::Merge(a, b)) => {
                check(l, a)?;
                check(r, b)?;
                stack.push(l);
                stack.push(r);
            }
            (p, a) => return Err(format!("segment {loc}: prior {p:?} does not match parents {a:?}")),
        }
        for s in seg.skip_list() {
            stack.push(*s);
        }
    }
    let fc = st.fact_cache().map_err(|e| format!("fact_cache: {e}"))?;
    obs.facts = scan(&fc).map_err(|e| format!("fact cache: {e}"))?;
    Ok(obs)
}

/// What a command does, decoded from its bytes (independent of the storage's fact indexes).
enum Effect {
    Set(u64, u64),
    Del(u64),
    None,
}

fn decode(rec: &CmdRec) -> Result<(Effect, Option<u64>), String> {
    let w: WireProtocol = postcard::from_bytes(&rec.data).map_err(|e| format!("command bytes do not decode: {e}"))?;
    Ok(match w {
        WireProtocol::Basic(b) => (Effect::Set(b.payload.0, b.payload.1), Some(b.payload.1 >> 16)),
        WireProtocol::Delete(d) => (Effect::Del(d.key), Some(u64::from(d.prority))),
        WireProtocol::NoOp(n) => (Effect::None, Some(n.nonce)),
        WireProtocol::Init(_) | WireProtocol::Merge(_) => (Effect::None, None),
        WireProtocol::Poison(_) => return Err("unexpected poison command".into()),
    })
}

fn fact_key(k: u64) -> Vec<Vec<u8>> {
    vec![k.to_be_bytes().to_vec()]
}

/// Model check of an observation, written from the command semantics only: the graph is closed
/// under parents, the heads are exactly the tips, and the facts at every command (and in the fact
/// cache) are what replaying the ancestors' commands gives.  Keys are partitioned by author and an
/// author's commands are causally ordered, so the result does not depend on the braid order.
fn check_model(obs: &Obs) -> Result<BTreeSet<u64>, String> {
    let mut children: BTreeSet<CmdId> = BTreeSet::new();
    let mut tags = BTreeSet::new();
    let mut effects: BTreeMap<CmdId, Effect> = BTreeMap::new();
    for (id, c) in &obs.cmds {
        let ps: Vec<Address> = match c.parent {
            Prior::None => vec![],
            Prior::Single(a) => vec![a],
            Prior::Merge(a, b) => vec![a, b],
        };
        for p in ps {
            let Some(pc) = obs.cmds.get(&p.id) else {
                return Err(format!("parent {} of {} is not reachable", p.id, id));
            };
            if pc.max_cut != p.max_cut.get() {
                return Err(format!("parent {} of {id} has max cut {} not {}", p.id, pc.max_cut, p.max_cut));
            }
            children.insert(p.id);
        }
        let (e, tag) = decode(c)?;
        if let Some(t) = tag {
            if !tags.insert(t) {
                return Err(format!("two commands carry tag {t}"));
            }
        }
        effects.insert(*id, e);
    }
    let tips: BTreeSet<CmdId> = obs.cmds.keys().filter(|i| !children.contains(i)).copied().collect();
    let heads: BTreeSet<CmdId> = obs.heads.iter().map(|h| h.0).collect();
    if tips != heads {
        return Err(format!("heads {heads:?} are not the tips {tips:?} of the reachable graph"));
    }
    // ancestors (inclusive) per command, in max-cut order so parents come first
    let mut order: Vec<(&CmdId, &CmdRec)> = obs.cmds.iter().collect();
    order.sort_by_key(|(id, c)| (c.max_cut, **id));
    let mut anc: BTreeMap<CmdId, BTreeSet<(u64, CmdId)>> = BTreeMap::new();
    let replay = |set: &BTreeSet<(u64, CmdId)>| -> Facts {
        let mut f = Facts::new();
        for (_, id) in set {
            match effects[id] {
                Effect::Set(k, v) => {
                    f.insert(fact_key(k), v.to_be_bytes().to_vec());
                }
                Effect::Del(k) => {
                    f.remove(&fact_key(k));
                }
                Effect::None => {}
            }
        }
        f
    };
    let mut all = BTreeSet::new();
    for (id, c) in order {
        let mut s = BTreeSet::new();
        match c.parent {
            Prior::None => {}
            Prior::Single(a) => s.extend(anc[&a.id].iter().copied()),
            Prior::Merge(a, b) => {
                s.extend(anc[&a.id].iter().copied());
                s.extend(anc[&b.id].iter().copied());
            }
        }
        s.insert((c.max_cut, *id));
        let want = replay(&s);
        if want != c.facts {
            return Err(format!("facts at {id} are {:?}, replaying its ancestors gives {:?}", c.facts, want));
        }
        all.extend(s.iter().copied());
        anc.insert(*id, s);
    }
    let want = replay(&all);
    if want != obs.facts {
        return Err(format!("fact cache is {:?}, replaying all commands gives {:?}", obs.facts, want));
    }
    Ok(tags)
}

// ---------------------------------------------------------------------------------------------
// clients

type FileSP = LinearStorageProvider<FileManager>;
type Bufs<SP> = Box<RuntimeBuffers<<SP as StorageProvider>::Segment>>;

struct OwnedCmd {
    id: CmdId,
    rec: CmdRec,
}

impl Command for OwnedCmd {
    fn priority(&self) -> Priority {
        self.rec.prio.clone()
    }
    fn id(&self) -> CmdId {
        self.id
    }
    fn parent(&self) -> Prior<Address> {
        self.rec.parent
    }
    fn policy(&self) -> Option<&[u8]> {
        self.rec.policy.as_deref()
    }
    fn bytes(&self) -> &[u8] {
        &self.rec.data
    }
}

fn sink() -> TestSink {
    let mut s = TestSink::new();
    s.ignore_expectations(true);
    s
}

fn export<SP: StorageProvider>(c: &mut ClientState<TestPolicyStore, SP>, g: GraphId) -> Result<Vec<OwnedCmd>, String> {
    let st = c.provider().get_storage(g).map_err(|e| format!("get_storage: {e}"))?;
    let obs = observe(&*st)?;
    let mut v: Vec<OwnedCmd> = obs.cmds.into_iter().map(|(id, rec)| OwnedCmd { id, rec }).collect();
    v.sort_by_key(|c| (c.rec.max_cut, c.id));
    Ok(v)
}

fn import<SP: StorageProvider>(
    c: &mut ClientState<TestPolicyStore, SP>,
    bufs: &mut Bufs<SP>,
    g: GraphId,
    cmds: &[OwnedCmd],
) -> Result<(), ClientError> {
    let mut trx = c.transaction(g);
    c.add_commands(&mut trx, &mut sink(), cmds, bufs, MemSpill::new)?;
    c.commit(trx, &mut sink(), bufs, MemSpill::new)?;
    Ok(())
}

fn to_action(peer: u8, tag: u64, a: &Cmd) -> TestActions {
    match *a {
        Cmd::Set(k, v, p) => TestActions::SetValuePriority(key_of(peer, k), (tag << 16) | u64::from(v), u32::from(p)),
        // the priority field carries the tag (it only orders concurrent commands)
        Cmd::Del(k) => TestActions::DeleteValue(key_of(peer, k), tag as u32),
        Cmd::Noop(p) => TestActions::NoOp(tag, u32::from(p)),
    }
}

fn open_file_client(dir: &Path) -> Result<ClientState<TestPolicyStore, FileSP>, String> {
    let fm = FileManager::new(dir).map_err(|e| format!("FileManager::new: {e}"))?;
    Ok(ClientState::new(TestPolicyStore::new(), LinearStorageProvider::new(fm)))
}

// ---------------------------------------------------------------------------------------------
// recording

struct Commit {
    /// syscall events `[start, end)` were issued by this commit
    start: usize,
    end: usize,
    /// state read from the live client after the commit returned (validated by `check_model`)
    snap: Obs,
    after_reopen: bool,
}

struct Rec {
    ops: Vec<Op>,
    evs: Vec<Ev>,
    commits: Vec<Commit>,
    graph: GraphId,
    file_name: String,
}

/// Runs the workload, recording the syscalls of the file-backed client.  `Err` = the harness could
/// not run the workload (never a property violation by itself unless it says so).
fn record(ops: &[Op]) -> Result<Rec, Failure> {
    let h = |what: &str, e: String| Failure::new(format!("workload failed on the live client: {what}"), e);
    let dir = tempdir().map_err(|e| h("tempdir", e))?;
    let dirs = dir.path().to_str().ok_or_else(|| h("tempdir", "non-utf8".into()))?.to_string();
    let mut a = open_file_client(dir.path()).map_err(|e| h("open", e))?;
    let mut abuf: Bufs<FileSP> = Box::new(RuntimeBuffers::new());
    let mut mems: Vec<(ClientState<TestPolicyStore, MemStorageProvider>, Bufs<MemStorageProvider>)> = (1..PEERS)
        .map(|_| {
            (
                ClientState::new(TestPolicyStore::new(), MemStorageProvider::default()),
                Box::new(RuntimeBuffers::new()),
            )
        })
        .collect();
    let mut known: Vec<BTreeSet<u64>> = vec![BTreeSet::new(); PEERS as usize];
    let mut commits: Vec<Commit> = Vec::new();
    let mut after_reopen = false;

    shim::start(&dirs);
    let res = (|| -> Result<GraphId, Failure> {
        // commit #1: graph creation
        let s0 = shim::len();
        let g = a
            .new_graph(&0u64.to_be_bytes(), TestActions::Init(0), &mut sink())
            .map_err(|e| h("new_graph", e.to_string()))?;
        let snap_a = |a: &mut ClientState<TestPolicyStore, FileSP>, known: &BTreeSet<u64>| -> Result<Obs, Failure> {
            let st = a.provider().get_storage(g).map_err(|e| h("get_storage", e.to_string()))?;
            let obs = observe(&*st).map_err(|e| Failure::new("live state not readable after a commit", e))?;
            let tags = check_model(&obs).map_err(|e| Failure::new("live state contradicts the command model", e))?;
            ensure!(
                tags == *known,
                "live state holds the wrong set of commands",
                "tags {tags:?} expected {known:?}"
            );
            Ok(obs)
        };
        let snap = snap_a(&mut a, &known[0])?;
        commits.push(Commit {
            start: s0,
            end: shim::len(),
            snap,
            after_reopen: false,
        });
        let init = export(&mut a, g).map_err(|e| h("export", e))?;
        for (c, b) in &mut mems {
            import(c, b, g, &init).map_err(|e| h("import init", e.to_string()))?;
        }
        for (i, op) in ops.iter().enumerate() {
            let tag = i as u64 + 1;
            match op {
                Op::Act(p, act) => {
                    let p = *p % PEERS;
                    let action = to_action(p, tag, act);
                    known[p as usize].insert(tag);
                    if p == 0 {
                        let s = shim::len();
                        a.action(g, &mut sink(), action, &mut abuf, MemSpill::new)
                            .map_err(|e| h("action", e.to_string()))?;
                        let snap = snap_a(&mut a, &known[0])?;
                        commits.push(Commit {
                            start: s,
                            end: shim::len(),
                            snap,
                            after_reopen: std::mem::take(&mut after_reopen),
                        });
                    } else {
                        let (c, b) = &mut mems[p as usize - 1];
                        c.action(g, &mut sink(), action, b, MemSpill::new)
                            .map_err(|e| h("peer action", e.to_string()))?;
                    }
                }
                Op::Sync(from, to, split) => {
                    let (from, to) = (*from % PEERS, *to % PEERS);
                    if from == to {
                        continue;
                    }
                    let cmds = if from == 0 {
                        export(&mut a, g)
                    } else {
                        export(&mut mems[from as usize - 1].0, g)
                    }
                    .map_err(|e| h("export", e))?;
                    if to == 0 {
                        // tags the target will know after each batch
                        let batches: Vec<&[OwnedCmd]> = if *split && cmds.len() >= 2 {
                            let m = cmds.len() / 2;
                            vec![&cmds[..m], &cmds[..]]
                        } else {
                            vec![&cmds[..]]
                        };
                        for batch in batches {
                            let mut k = known[0].clone();
                            for c in batch {
                                if let (_, Some(t)) = decode(&c.rec).map_err(|e| h("decode", e))? {
                                    k.insert(t);
                                }
                            }
                            let s = shim::len();
                            import(&mut a, &mut abuf, g, batch).map_err(|e| h("import", e.to_string()))?;
                            known[0] = k;
                            if shim::len() > s {
                                let snap = snap_a(&mut a, &known[0])?;
                                commits.push(Commit {
                                    start: s,
                                    end: shim::len(),
                                    snap,
                                    after_reopen: std::mem::take(&mut after_reopen),
                                });
                            }
                        }
                    } else {
                        let (c, b) = &mut mems[to as usize - 1];
                        import(c, b, g, &cmds).map_err(|e| h("peer import", e.to_string()))?;
                        let add = known[from as usize].clone();
                        known[to as usize].extend(add);
                    }
                }
                Op::Reopen => {
                    let s = shim::len();
                    // close the file first (the lock is exclusive)
                    // (assigning drops the old client, which closes the file and releases its lock,
                    // before the new one opens the file lazily in `snap_a`)
                    a = open_file_client(dir.path()).map_err(|e| h("reopen", e))?;
                    let snap = snap_a(&mut a, &known[0])?;
                    ensure!(
                        snap == commits.last().map(|c| c.snap.clone()).unwrap_or_else(|| snap.clone()),
                        "clean reopen changed the state",
                        "after op #{i}"
                    );
                    ensure!(shim::len() == s, "harness: reopen wrote to the file", "op #{i}");
                    after_reopen = true;
                }
            }
        }
        Ok(g)
    })();
    let evs = shim::stop();
    let graph = res?;
    let file_name = std::fs::read_dir(dir.path())
        .ok()
        .and_then(|mut d| d.next())
        .and_then(|e| e.ok())
        .map(|e| e.file_name().to_string_lossy().into_owned())
        .ok_or_else(|| h("graph file", "not found".into()))?;
    ensure!(
        commits.last().is_some_and(|c| c.end == evs.len()),
        "harness: syscalls outside a commit",
        "events {} last commit end {:?}",
        evs.len(),
        commits.last().map(|c| c.end)
    );
    Ok(Rec {
        ops: ops.to_vec(),
        evs,
        commits,
        graph,
        file_name,
    })
}

fn tempdir() -> Result<tempfile::TempDir, String> {
    let shm = Path::new("/dev/shm");
    let r = if shm.is_dir() {
        tempfile::Builder::new().prefix("vh-crash-").tempdir_in(shm)
    } else {
        tempfile::Builder::new().prefix("vh-crash-").tempdir()
    };
    r.map_err(|e| e.to_string())
}

// ---------------------------------------------------------------------------------------------
// crash images

/// Fate of one write that had not been followed by a completed fsync/fdatasync when the crash hit.
#[derive(Clone, Copy, Debug, Serialize, Deserialize, PartialEq, Eq, PartialOrd, Ord)]
pub enum Pat {
    Lost,
    Kept,
    /// only the first `n` bytes reached the disk
    Prefix(u32),
    /// only the bytes from `n` on reached the disk
    Suffix(u32),
}

#[derive(Clone, Default)]
struct Img {
    data: Vec<u8>,
    len: u64,
}

impl Img {
    fn write(&mut self, off: u64, bytes: &[u8]) {
        if bytes.is_empty() {
            return;
        }
        let (off, end) = (off as usize, off as usize + bytes.len());
        if self.data.len() < end {
            self.data.resize(end, 0);
        }
        self.data[off..end].copy_from_slice(bytes);
        self.len = self.len.max(end as u64);
    }
    fn apply(&mut self, ev: &Ev, pat: Pat) {
        match (ev, pat) {
            (_, Pat::Lost) | (Ev::Sync, _) => {}
            (Ev::Write { off, data }, Pat::Kept) => self.write(*off, data),
            (Ev::Write { off, data }, Pat::Prefix(n)) => {
                let n = (n as usize).min(data.len());
                self.write(*off, &data[..n]);
            }
            (Ev::Write { off, data }, Pat::Suffix(n)) => {
                let n = (n as usize).min(data.len());
                self.write(*off + n as u64, &data[n..]);
            }
            (Ev::Falloc { end }, _) => self.len = self.len.max(*end),
            (Ev::Trunc { len }, _) => {
                self.len = *len;
                if self.data.len() as u64 > *len {
                    self.data.truncate(*len as usize);
                }
            }
        }
    }
}

const ROOT_LO: u64 = 4096;
const ROOT_HI: u64 = 3 * 4096;

fn is_root_write(ev: &Ev) -> bool {
    matches!(ev, Ev::Write { off, .. } if (ROOT_LO..ROOT_HI).contains(off))
}

impl Rec {
    /// Indices of the events issued before crash point `i` that no completed sync covers.
    fn pending(&self, i: usize) -> (usize, Vec<usize>) {
        let durable = self.evs[..i].iter().rposition(|e| *e == Ev::Sync).map_or(0, |s| s + 1);
        (durable, (durable..i).collect())
    }

    fn image(&self, crash: usize, pat: &[Pat]) -> Img {
        let (durable, pend) = self.pending(crash);
        let mut img = Img::default();
        for e in &self.evs[..durable] {
            img.apply(e, Pat::Kept);
        }
        for (j, &e) in pend.iter().enumerate() {
            img.apply(&self.evs[e], pat.get(j).copied().unwrap_or(Pat::Lost));
        }
        img
    }
}

fn cuts(len: usize) -> Vec<u32> {
    let mut v: Vec<usize> = vec![1, 2, 3, 4, 8, 512, len / 2, len.saturating_sub(1)];
    v.retain(|c| *c >= 1 && *c < len);
    v.sort_unstable();
    v.dedup();
    v.into_iter().map(|c| c as u32).collect()
}

/// All patterns examined for crash point `i` by the enumeration part.
fn enumerate_patterns(rec: &Rec, i: usize, seed: u64, wl: usize, samples: usize) -> Vec<Vec<Pat>> {
    let (_, pend) = rec.pending(i);
    let n = pend.len();
    let mut set: BTreeSet<Vec<Pat>> = BTreeSet::new();
    set.insert(vec![Pat::Lost; n]);
    set.insert(vec![Pat::Kept; n]);
    if n <= 8 {
        for m in 0u32..(1 << n) {
            set.insert((0..n).map(|j| if m >> j & 1 == 1 { Pat::Kept } else { Pat::Lost }).collect());
        }
    } else {
        for j in 0..n {
            let mut p = vec![Pat::Lost; n];
            p[j] = Pat::Kept;
            set.insert(p);
            let mut p = vec![Pat::Kept; n];
            p[j] = Pat::Lost;
            set.insert(p);
        }
        let mut rng = vcommon::rng_for(seed, &format!("c15/enum/{wl}/{i}"));
        for _ in 0..samples {
            set.insert((0..n).map(|_| if rng.random::<bool>() { Pat::Kept } else { Pat::Lost }).collect());
        }
    }
    // torn variants on root-slot writes and on the last write
    let mut targets: Vec<usize> = (0..n).filter(|&j| is_root_write(&rec.evs[pend[j]])).collect();
    if n > 0 && !targets.contains(&(n - 1)) {
        targets.push(n - 1);
    }
    for t in targets {
        let Ev::Write { data, .. } = &rec.evs[pend[t]] else { continue };
        for c in cuts(data.len()) {
            for torn in [Pat::Prefix(c), Pat::Suffix(c)] {
                for base in 0..3 {
                    let mut p: Vec<Pat> = (0..n)
                        .map(|j| match base {
                            0 => Pat::Kept,
                            1 => Pat::Lost,
                            _ => {
                                if j < t {
                                    Pat::Kept
                                } else {
                                    Pat::Lost
                                }
                            }
                        })
                        .collect();
                    p[t] = torn;
                    set.insert(p);
                }
            }
        }
    }
    set.into_iter().collect()
}

// ---------------------------------------------------------------------------------------------
// the oracle

#[derive(Default)]
struct ImgInfo {
    nontrivial: bool,
    labels: Vec<&'static str>,
    outcome: &'static str,
    key: u64,
    returned: usize,
}

fn diff(a: &Obs, b: &Obs) -> String {
    let mut s = String::new();
    if a.heads != b.heads {
        s.push_str(&format!("heads {:?} vs {:?}; ", a.heads, b.heads));
    }
    let ka: BTreeSet<_> = a.cmds.keys().collect();
    let kb: BTreeSet<_> = b.cmds.keys().collect();
    if ka != kb {
        s.push_str(&format!(
            "commands only in observed {:?}, only in expected {:?}; ",
            ka.difference(&kb).collect::<Vec<_>>(),
            kb.difference(&ka).collect::<Vec<_>>()
        ));
    } else {
        for (k, v) in &a.cmds {
            if b.cmds[k] != *v {
                s.push_str(&format!("command {k} differs: {v:?} vs {:?}; ", b.cmds[k]));
                break;
            }
        }
    }
    if a.facts != b.facts {
        s.push_str(&format!("facts {:?} vs {:?}", a.facts, b.facts));
    }
    s.chars().take(1500).collect()
}

fn materialise(rec: &Rec, img: Option<&Img>) -> Result<tempfile::TempDir, Failure> {
    let h = |e: String| Failure::new("harness: cannot materialise the image", e);
    let dir = tempdir().map_err(h)?;
    if let Some(img) = img {
        let mut f = std::fs::File::create(dir.path().join(&rec.file_name)).map_err(|e| h(e.to_string()))?;
        f.write_all(&img.data).map_err(|e| h(e.to_string()))?;
        f.set_len(img.len).map_err(|e| h(e.to_string()))?;
    }
    Ok(dir)
}

/// Checks one crash image.  `pat[j]` is the fate of the j-th pending event at crash point `crash`.
fn check_image(rec: &Rec, crash: usize, pat: &[Pat], missing_file: bool, info: &mut ImgInfo) -> CheckResult {
    let (durable, pend) = rec.pending(crash);
    let returned = rec.commits.iter().filter(|c| c.end <= crash).count();
    // the commit in progress counts only if it has issued at least one syscall
    let inprog = rec.commits.get(returned).filter(|c| c.start < crash);
    info.returned = returned;
    let kept = pend.iter().enumerate().filter(|(j, _)| pat.get(*j).is_some_and(|p| *p != Pat::Lost)).count();
    let lost = pend.len() - pend.iter().enumerate().filter(|(j, _)| pat.get(*j) == Some(&Pat::Kept)).count();
    let torn = pat.iter().any(|p| matches!(p, Pat::Prefix(_) | Pat::Suffix(_)));
    if inprog.is_some() && kept >= 1 && lost >= 1 {
        info.nontrivial = true;
    }
    if torn {
        info.labels.push("torn_write");
    }
    if pend.iter().any(|&e| is_root_write(&rec.evs[e])) {
        info.labels.push("phase=root_write_unsynced");
    } else if !pend.is_empty() {
        info.labels.push("phase=data_unsynced");
    } else {
        info.labels.push("phase=all_synced");
    }
    if pend.iter().any(|&e| matches!(rec.evs[e], Ev::Falloc { .. })) {
        info.labels.push("fallocate_unsynced");
    }
    if pend.len() > 8 {
        info.labels.push("pending>8");
    }
    if let Some(c) = inprog {
        if c.snap.heads.len() >= 2 {
            info.labels.push("inprogress_commit_multihead");
        }
        if c.after_reopen {
            info.labels.push("inprogress_commit_after_restart");
        }
        if returned == 0 {
            info.labels.push("inprogress_commit_is_creation");
        }
    } else {
        info.labels.push("between_commits");
    }
    {
        use std::hash::{Hash, Hasher};
        let mut hs = std::collections::hash_map::DefaultHasher::new();
        durable.hash(&mut hs);
        missing_file.hash(&mut hs);
        for (j, &e) in pend.iter().enumerate() {
            match pat.get(j).copied().unwrap_or(Pat::Lost) {
                Pat::Lost => {}
                Pat::Kept => (e, 0u8, 0u32).hash(&mut hs),
                Pat::Prefix(n) => (e, 1u8, n).hash(&mut hs),
                Pat::Suffix(n) => (e, 2u8, n).hash(&mut hs),
            }
        }
        info.key = hs.finish();
    }

    let img = rec.image(crash, pat);
    let dir = materialise(rec, if missing_file { None } else { Some(&img) })?;
    let mut client = open_file_client(dir.path()).map_err(|e| Failure::new("harness: cannot open the image directory", e))?;
    let opened = client.provider().get_storage(rec.graph).map(|st| observe(&*st)).map_err(|e| e.to_string());
    let obs = match opened {
        Err(e) => {
            ensure!(
                returned == 0,
                "open failed although a commit had completed",
                "crash point {crash} ({returned} commits returned), pattern {pat:?}: {e}"
            );
            info.outcome = "error_before_first_commit";
            info.labels.push("outcome=error_before_first_commit");
            return Ok(());
        }
        Ok(Err(e)) => fail!(
            "reopened state is not fully readable",
            "crash point {crash} ({returned} commits returned), pattern {pat:?}: {e}"
        ),
        Ok(Ok(o)) => o,
    };
    let last = returned.checked_sub(1).map(|r| &rec.commits[r].snap);
    if last == Some(&obs) {
        info.outcome = "last_returned_commit";
        info.labels.push("outcome=last_returned_commit");
    } else if inprog.is_some_and(|c| c.snap == obs) {
        info.outcome = "commit_in_progress";
        info.labels.push("outcome=commit_in_progress");
    } else {
        let which = rec.commits.iter().position(|c| c.snap == obs);
        let exp = inprog.map(|c| &c.snap).or(last);
        let d = exp.map(|e| diff(&obs, e)).unwrap_or_default();
        match which {
            Some(j) if j < returned => fail!(
                "reopened state is older than the last returned commit",
                "crash point {crash}: {returned} commits had returned but the state is that of commit #{} ; pattern {pat:?}",
                j + 1
            ),
            Some(j) => fail!(
                "reopened state is a commit that was not yet started",
                "crash point {crash}: {returned} commits returned, state is that of commit #{} ; pattern {pat:?}",
                j + 1
            ),
            None => fail!(
                "reopened state is neither the last returned nor the in-progress commit",
                "crash point {crash} ({returned} commits returned, in progress: {}), pattern {pat:?}: {d}",
                inprog.is_some()
            ),
        }
    }

    // after recovery one more commit must work and a clean reopen must show exactly old + new
    let mut bufs: Bufs<FileSP> = Box::new(RuntimeBuffers::new());
    let val = 0xABCD_0000u64 + crash as u64;
    // tag u64::MAX >> 16 never collides with op tags
    let action = TestActions::SetValuePriority(RECOVERY_KEY, val | (0xFFFF_FFFF_FFFFu64 << 16), 1);
    if let Err(e) = client.action(rec.graph, &mut sink(), action, &mut bufs, MemSpill::new) {
        fail!("commit after recovery failed", "crash point {crash}, pattern {pat:?}: {e}");
    }
    drop(client);
    let mut client = open_file_client(dir.path()).map_err(|e| Failure::new("harness: cannot reopen the image directory", e))?;
    let obs2 = match client.provider().get_storage(rec.graph).map(|st| observe(&*st)) {
        Ok(Ok(o)) => o,
        Ok(Err(e)) => fail!("state after the post-recovery commit is not fully readable", "crash point {crash}, pattern {pat:?}: {e}"),
        Err(e) => fail!("reopen after the post-recovery commit failed", "crash point {crash}, pattern {pat:?}: {e}"),
    };
    if let Err(e) = check_model(&obs2) {
        fail!("state after the post-recovery commit contradicts the command model", "crash point {crash}, pattern {pat:?}: {e}");
    }
    for (id, c) in &obs.cmds {
        ensure!(
            obs2.cmds.get(id) == Some(c),
            "post-recovery commit changed or lost an older command",
            "crash point {crash}, pattern {pat:?}: {id}"
        );
    }
    let mut fresh = 0;
    for (id, c) in &obs2.cmds {
        if obs.cmds.contains_key(id) {
            continue;
        }
        match decode(c) {
            Ok((Effect::Set(RECOVERY_KEY, _), _)) => fresh += 1,
            Ok((_, None)) if c.prio == Priority::Merge => {}
            _ => fail!(
                "stale data visible after the post-recovery commit",
                "crash point {crash}, pattern {pat:?}: unexpected command {id} {c:?}"
            ),
        }
    }
    ensure!(fresh == 1, "post-recovery commit not visible exactly once", "crash point {crash}, pattern {pat:?}: {fresh}");
    let mut want = obs.facts.clone();
    want.insert(fact_key(RECOVERY_KEY), (val | (0xFFFF_FFFF_FFFFu64 << 16)).to_be_bytes().to_vec());
    ensure!(
        obs2.facts == want && obs2.heads.len() == 1,
        "stale data visible after the post-recovery commit",
        "crash point {crash}, pattern {pat:?}: facts {:?} expected {:?}, heads {:?}",
        obs2.facts,
        want,
        obs2.heads
    );
    Ok(())
}

/// Images whose check did not come back (the code under test looped); after `HANG_LIMIT` of them the
/// remaining images are skipped so that the failure can be reported at all.
static HANGS: AtomicUsize = AtomicUsize::new(0);
const HANG_LIMIT: usize = 3;
const HANG_SECS: u64 = 60;

fn panic_failure(m: &str, l: &str, ctx: &str) -> Failure {
    Failure::new(
        format!("panic: {} @ {}", m.chars().take(120).collect::<String>(), vcommon::short_loc(l)),
        format!("panic `{m}` at {l}; {ctx}"),
    )
}

type Job = (Arc<Rec>, usize, Vec<Pat>, bool);

/// A long-lived helper thread owned by one calling thread (spawning one per image is far too slow).
struct Helper {
    tx: std::sync::mpsc::Sender<Job>,
    rx: std::sync::mpsc::Receiver<(ImgInfo, CheckResult)>,
}

impl Helper {
    fn spawn() -> Option<Helper> {
        let (tx, jrx) = std::sync::mpsc::channel::<Job>();
        let (rtx, rx) = std::sync::mpsc::channel();
        std::thread::Builder::new()
            .stack_size(64 << 20)
            .spawn(move || {
                while let Ok((rec, crash, pat, missing)) = jrx.recv() {
                    let mut ii = ImgInfo::default();
                    let r = vcommon::catch(|| check_image(&rec, crash, &pat, missing, &mut ii));
                    let r = match r {
                        Ok(r) => r,
                        Err((m, l)) => Err(panic_failure(&m, &l, &format!("crash point {crash}, pattern {pat:?}"))),
                    };
                    if rtx.send((ii, r)).is_err() {
                        break;
                    }
                }
            })
            .ok()?;
        Some(Helper { tx, rx })
    }
}

thread_local! {
    static HELPER: std::cell::RefCell<Option<Helper>> = const { std::cell::RefCell::new(None) };
}

/// `check_image` on the calling thread's helper thread: a panic becomes a failure, and so does a
/// check that has not returned after `HANG_SECS` (a normal check takes about a millisecond; the
/// helper thread is abandoned in that case and a new one is started for the next image).
fn guarded(rec: &Arc<Rec>, crash: usize, pat: &[Pat], missing: bool) -> (ImgInfo, CheckResult) {
    if HANGS.load(Ordering::Relaxed) >= HANG_LIMIT {
        let mut ii = ImgInfo::default();
        ii.labels.push("skipped_after_hangs");
        return (ii, Ok(()));
    }
    HELPER.with(|h| {
        let mut h = h.borrow_mut();
        if h.is_none() {
            *h = Helper::spawn();
        }
        let Some(helper) = h.as_ref() else {
            return (ImgInfo::default(), Err(Failure::new("harness: cannot spawn a thread", "")));
        };
        if helper.tx.send((rec.clone(), crash, pat.to_vec(), missing)).is_err() {
            *h = None;
            return (ImgInfo::default(), Err(Failure::new("harness: helper thread died", "")));
        }
        match helper.rx.recv_timeout(std::time::Duration::from_secs(HANG_SECS)) {
            Ok(x) => x,
            Err(_) => {
                *h = None;
                HANGS.fetch_add(1, Ordering::Relaxed);
                (
                    ImgInfo::default(),
                    Err(Failure::new(
                        "reopening, walking or extending the recovered graph did not terminate",
                        format!("crash point {crash}, pattern {pat:?}: no result after {HANG_SECS}s"),
                    )),
                )
            }
        }
    })
}

// ---------------------------------------------------------------------------------------------
// explore part: (workload, image selectors) as a proptest case

#[derive(Clone, Debug, Serialize, Deserialize)]
struct Pick {
    /// crash point selector (monotone over the syscall log)
    crash: u16,
    /// bit j: pending write j kept
    keep: u64,
    /// selects the torn write (upper half of the range: none)
    torn_at: u16,
    cut: u16,
    suffix: bool,
}

#[derive(Clone, Debug, Serialize, Deserialize)]
struct Case {
    ops: Vec<Op>,
    picks: Vec<Pick>,
}

fn pick_strategy() -> impl Strategy<Value = Pick> {
    (any::<u16>(), any::<u64>(), any::<u16>(), any::<u16>(), any::<bool>()).prop_map(|(crash, keep, torn_at, cut, suffix)| Pick {
        crash,
        keep,
        torn_at,
        cut,
        suffix,
    })
}

fn pattern_of(rec: &Rec, crash: usize, p: &Pick) -> Vec<Pat> {
    let (_, pend) = rec.pending(crash);
    let n = pend.len();
    let mut pat: Vec<Pat> = (0..n).map(|j| if p.keep >> (j & 63) & 1 == 1 { Pat::Kept } else { Pat::Lost }).collect();
    let t = idx(p.torn_at, 2 * n);
    if t < n {
        if let Ev::Write { data, .. } = &rec.evs[pend[t]] {
            let cs = cuts(data.len());
            if !cs.is_empty() {
                let c = cs[idx(p.cut, cs.len())];
                pat[t] = if p.suffix { Pat::Suffix(c) } else { Pat::Prefix(c) };
            }
        }
    }
    pat
}

fn check_case(case: &Case, info: &mut CaseInfo) -> CheckResult {
    let rec = Arc::new(record(&case.ops)?);
    if rec.commits.len() >= 3 {
        info.label("commits>=3");
    } else {
        info.label("commits<3");
    }
    if rec.commits.iter().any(|c| c.snap.heads.len() >= 2) {
        info.label("workload_has_multihead_commit");
    }
    for p in &case.picks {
        let crash = idx(p.crash, rec.evs.len() + 1);
        let pat = pattern_of(&rec, crash, p);
        let (ii, r) = guarded(&rec, crash, &pat, false);
        r?;
        if ii.nontrivial && rec.commits.len() >= 3 {
            info.nontrivial();
        }
        for l in ii.labels {
            info.label(l);
        }
    }
    Ok(())
}

// ---------------------------------------------------------------------------------------------
// enumeration part

#[derive(Clone, Debug, Serialize, Deserialize)]
struct EnumCase {
    ops: Vec<Op>,
    crash: usize,
    pattern: Vec<Pat>,
    #[serde(default)]
    missing_file: bool,
}

fn sample_ops(seed: u64, salt: &str, max: usize) -> Vec<Op> {
    let mut runner = TestRunner::new_with_rng(Config::default(), vcommon::rng_for(seed, salt));
    // at least three commits: resample a few times if the draw has too few ops on the file client
    for _ in 0..50 {
        let ops = ops_strategy(max).new_tree(&mut runner).expect("strategy").current();
        let n = ops.iter().filter(|o| matches!(o, Op::Act(0, _) | Op::Sync(_, 0, _))).count();
        if n >= 3 {
            return ops;
        }
    }
    crafted_workloads().remove(0)
}

struct EnumStats {
    evaluations: u64,
    nontrivial: BTreeSet<u64>,
    labels: BTreeMap<String, u64>,
    samples: Vec<serde_json::Value>,
    failures: BTreeMap<String, (u64, (usize, usize, usize), Failure, EnumCase)>,
}

fn run_enum(ctx: &Ctx, rep: &mut Report<'_>, name: &str) {
    let rule = "every syscall index of every workload is a crash point; per crash point: all-lost, all-kept, all 2^n \
                kept/lost subsets of the n unsynced writes when n<=8 (else every single-kept, single-lost and seeded \
                sampled subsets), torn prefix/suffix variants (cuts 1,2,3,4,8,512,len/2,len-1) of every unsynced root-slot \
                write and of the last write; non-trivial = crash point strictly inside a commit with >=1 unsynced write \
                kept (or torn) and >=1 lost (or torn)";
    if let Some(rp) = rep.replay_for(name) {
        let mut part = PartResult {
            name: name.into(),
            rule: rule.into(),
            evaluations: 1,
            samples: vec![rp.case.clone()],
            ..Default::default()
        };
        let case: EnumCase = match serde_json::from_value(rp.case.clone()) {
            Ok(c) => c,
            Err(e) => {
                println!("INCONCLUSIVE replay case does not decode for part {name}: {e}");
                std::process::exit(2);
            }
        };
        let r = match vcommon::catch(|| record(&case.ops)) {
            Ok(Ok(rec)) if case.crash <= rec.evs.len() => guarded(&Arc::new(rec), case.crash, &case.pattern, case.missing_file).1,
            Ok(Ok(rec)) => Err(Failure::new("harness: replay crash point beyond the log", format!("{} > {}", case.crash, rec.evs.len()))),
            Ok(Err(fl)) => Err(fl),
            Err((m, l)) => Err(panic_failure(&m, &l, "while running the workload")),
        };
        match r {
            Ok(()) => println!("replay: part={name} passed"),
            Err(fl) => {
                println!("replay: part={name} FAILED signature={} detail={}", fl.signature, fl.detail);
                part.violation = Some((fl, rp.case));
            }
        }
        rep.add_part(part);
        return;
    }
    if !rep.wants(name) {
        return;
    }

    let n_random = ctx.pick(9, 150);
    let samples = ctx.pick(64, 256);
    let mut workloads = crafted_workloads();
    for j in 0..n_random {
        workloads.push(sample_ops(ctx.seed, &format!("c15/enum/workload/{j}"), 12));
    }
    let mut recs: Vec<Arc<Rec>> = Vec::new();
    let mut rec_fail: Option<(Failure, EnumCase)> = None;
    for ops in &workloads {
        let r = match vcommon::catch(|| record(ops)) {
            Ok(r) => r,
            Err((m, l)) => Err(panic_failure(&m, &l, "while running the workload")),
        };
        match r {
            Ok(r) => recs.push(Arc::new(r)),
            Err(fl) => {
                if rec_fail.is_none() {
                    rec_fail = Some((
                        fl,
                        EnumCase {
                            ops: ops.clone(),
                            crash: 0,
                            pattern: vec![],
                            missing_file: false,
                        },
                    ));
                }
            }
        }
    }
    let mut jobs: Vec<(usize, usize)> = Vec::new();
    for (w, r) in recs.iter().enumerate() {
        for i in 0..=r.evs.len() {
            jobs.push((w, i));
        }
    }
    let next = AtomicUsize::new(0);
    let stats = Mutex::new(EnumStats {
        evaluations: 0,
        nontrivial: BTreeSet::new(),
        labels: BTreeMap::new(),
        samples: Vec::new(),
        failures: BTreeMap::new(),
    });
    let seed = ctx.seed;
    std::thread::scope(|sc| {
        for _ in 0..ctx.workers.min(jobs.len().max(1)) {
            let (jobs, recs, next, stats) = (&jobs, &recs, &next, &stats);
            std::thread::Builder::new()
                .stack_size(64 << 20)
                .spawn_scoped(sc, move || {
                    loop {
                        let j = next.fetch_add(1, Ordering::Relaxed);
                        let Some(&(w, i)) = jobs.get(j) else { break };
                        let rec = &recs[w];
                        let mut pats: Vec<(Vec<Pat>, bool)> =
                            enumerate_patterns(rec, i, seed, w, samples).into_iter().map(|p| (p, false)).collect();
                        if i == 0 {
                            pats.push((vec![], true));
                        }
                        let mut local: Vec<(ImgInfo, Option<Failure>, usize)> = Vec::new();
                        for (pi, (pat, missing)) in pats.iter().enumerate() {
                            let (ii, r) = guarded(rec, i, pat, *missing);
                            local.push((ii, r.err(), pi));
                        }
                        let mut st = stats.lock().unwrap();
                        for (ii, fl, pi) in local {
                            st.evaluations += 1;
                            for l in &ii.labels {
                                *st.labels.entry((*l).to_string()).or_default() += 1;
                            }
                            let k = ii.key ^ (w as u64).wrapping_mul(0x9E37_79B9_7F4A_7C15);
                            if ii.nontrivial && st.nontrivial.insert(k) && st.samples.len() < 3 && fl.is_none() && ii.returned >= 2 && ii.outcome != "last_returned_commit" {
                                st.samples.push(json!({
                                    "workload": w, "ops": rec.ops, "crash_point": i, "syscalls": rec.evs.len(),
                                    "commits_returned": ii.returned, "pattern": pats[pi].0, "outcome": ii.outcome,
                                }));
                            }
                            if let Some(fl) = fl {
                                let case = EnumCase {
                                    ops: rec.ops.clone(),
                                    crash: i,
                                    pattern: pats[pi].0.clone(),
                                    missing_file: pats[pi].1,
                                };
                                let pos = (w, i, pi);
                                match st.failures.get_mut(&fl.signature) {
                                    Some(e) => {
                                        e.0 += 1;
                                        if pos < e.1 {
                                            *e = (e.0, pos, fl, case);
                                        }
                                    }
                                    None => {
                                        st.failures.insert(fl.signature.clone(), (1, pos, fl, case));
                                    }
                                }
                            }
                        }
                    }
                })
                .expect("spawn");
        }
    });
    let st = stats.into_inner().unwrap();
    let mut part = PartResult {
        name: name.into(),
        rule: rule.into(),
        evaluations: st.evaluations,
        distinct_nontrivial: st.nontrivial.len() as u64,
        labels: st.labels,
        samples: st.samples,
        ..Default::default()
    };
    part.extra.insert("workloads".into(), json!(recs.len()));
    part.extra.insert("crash_points".into(), json!(jobs.len()));
    part.extra.insert("commits".into(), json!(recs.iter().map(|r| r.commits.len()).sum::<usize>()));
    part.extra.insert("syscalls".into(), json!(recs.iter().map(|r| r.evs.len()).sum::<usize>()));
    let mut viol: Option<((usize, usize, usize), Failure, EnumCase)> = None;
    if let Some((fl, case)) = rec_fail {
        if rep.is_known(name, &fl) {
            part.known_excluded += 1;
        } else {
            viol = Some(((0, 0, 0), fl, case));
        }
    }
    for (_, (n, pos, fl, case)) in st.failures {
        if rep.is_known(name, &fl) {
            part.known_excluded += n;
        } else if viol.as_ref().is_none_or(|v| pos < v.0) {
            viol = Some((pos, fl, case));
        }
    }
    if let Some((_, fl, case)) = viol {
        part.violation = Some((fl, serde_json::to_value(&case).unwrap_or_default()));
    }
    rep.add_part(part);
}

// ---------------------------------------------------------------------------------------------

/// Start-up self test: the interposition must see the graph file's syscalls, and recording the same
/// workload twice must give the same log (the oracle has to be a pure function of the case).
fn self_test() {
    let wl = crafted_workloads().remove(1);
    let a = record(&wl);
    let b = record(&wl);
    match (a, b) {
        (Ok(a), Ok(b)) => {
            let writes = a.evs.iter().filter(|e| matches!(e, Ev::Write { .. })).count();
            let roots = a.evs.iter().filter(|e| is_root_write(e)).count();
            let syncs = a.evs.iter().filter(|e| **e == Ev::Sync).count();
            if writes == 0 || roots == 0 || syncs == 0 {
                println!(
                    "INCONCLUSIVE syscall interposition not effective: writes={writes} root_writes={roots} syncs={syncs} commits={} interposed_calls={}",
                    a.commits.len(),
                    shim::CALLS.load(Ordering::Relaxed)
                );
                std::process::exit(2);
            }
            if a.evs != b.evs || a.commits.len() != b.commits.len() {
                println!("INCONCLUSIVE recording the same workload twice gave different syscall logs");
                std::process::exit(2);
            }
        }
        (Err(e), _) | (_, Err(e)) => {
            // a failing crafted workload on the clean tree is reported by the enumeration part; if
            // nothing at all was recorded the interposition is the likelier culprit
            if shim::CALLS.load(Ordering::Relaxed) == 0 {
                println!("INCONCLUSIVE syscall interposition not effective (no interposed call seen): {}", e.detail);
                std::process::exit(2);
            }
        }
    }
}

pub fn run(ctx: &Ctx) -> ! {
    let mut rep = Report::new(ctx, "fault_enumeration");
    rep.assume(
        "POSIX durability model: a pwrite/fallocate on the graph file is durable once a later fsync/fdatasync on that file \
         has returned; until then it may be lost, kept or torn (byte prefix or suffix) independently of the others",
    );
    rep.assume("file size changes only through fallocate (kept or lost as a whole) and writes past EOF; no other size/data reordering");
    rep.assume("the directory entry of the graph file is assumed durable once the file was created (the code never fsyncs the directory; not modelled)");
    rep.assume("single crash: the recovered file is reopened, checked, extended by one commit and reopened cleanly; no second crash during recovery");
    rep.assume("commands come from the repository's TestPolicy (accept-all); peers write disjoint keys so the fact model needs no braid order");
    self_test();
    run_enum(ctx, &mut rep, "enumerate");
    rep.explore(
        "generated",
        "case = (2..=12 generated ops over the file-backed client and two in-memory peers: actions, deliveries (whole or split \
         in two transactions), clean restarts; 1..=6 image selectors = crash point x kept/lost bit mask x optional torn write); \
         non-trivial = workload with >=3 commits and an image whose crash point is strictly inside a commit with >=1 unsynced \
         write kept/torn and >=1 lost/torn",
        || (ops_strategy(12), prop::collection::vec(pick_strategy(), 1..=6)).prop_map(|(ops, picks)| Case { ops, picks }),
        ctx.pick(1500, 30_000),
        check_case,
    );
    rep.finish()
}
