mod c15;
mod shim;

fn main() {
    let ctx = vcommon::Ctx::from_args();
    ctx.watchdog(ctx.pick(900, 7200));
    // everything runs on a big-stack thread: the runtime's braid buffers are large
    std::thread::scope(|sc| {
        std::thread::Builder::new()
            .stack_size(256 << 20)
            .spawn_scoped(sc, || match ctx.prop.as_str() {
                "C15" => c15::run(&ctx),
                p => {
                    println!("INCONCLUSIVE vh-crash does not serve {p}");
                    std::process::exit(2);
                }
            })
            .expect("spawn");
    });
}
