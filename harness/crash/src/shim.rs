//! Link-time interposition of the libc entry points `aranya-libc` uses for the graph file
//! (`pwrite64`, `fdatasync`, `fsync`, `fallocate64`, plus a few defensive ones) and a per-thread
//! recorder.  The definitions below win over libc's at static link time; they forward with raw
//! `syscall(2)` and, while the calling thread has an active [`Recorder`], log every successful
//! call that targets a file under the recorder's directory.

use std::{
    cell::RefCell,
    sync::atomic::{AtomicU64, Ordering},
};

use libc::{c_int, c_long, c_void, off_t, size_t, ssize_t};

/// One durable-state-relevant syscall on the graph file, in program order.
#[derive(Clone, Debug, PartialEq, Eq)]
pub enum Ev {
    /// `pwrite(fd, data, off)` (only the bytes the kernel accepted).
    Write { off: u64, data: Vec<u8> },
    /// `fallocate(fd, 0, off, len)`: the file is at least `end = off+len` bytes long afterwards.
    Falloc { end: u64 },
    /// `ftruncate(fd, len)`.
    Trunc { len: u64 },
    /// `fsync` / `fdatasync` returned 0: everything issued before is durable.
    Sync,
}

pub struct Recorder {
    /// Absolute directory prefix; only fds whose `/proc/self/fd/N` link starts with it are logged.
    pub dir: String,
    pub evs: Vec<Ev>,
}

thread_local! {
    static REC: RefCell<Option<Recorder>> = const { RefCell::new(None) };
}

/// Number of interposed calls seen process-wide (proves the interposition is effective).
pub static CALLS: AtomicU64 = AtomicU64::new(0);

pub fn start(dir: &str) {
    REC.with(|r| {
        *r.borrow_mut() = Some(Recorder {
            dir: dir.to_string(),
            evs: Vec::new(),
        })
    });
}

pub fn stop() -> Vec<Ev> {
    REC.with(|r| r.borrow_mut().take().map(|r| r.evs).unwrap_or_default())
}

/// Number of events recorded so far on this thread.
pub fn len() -> usize {
    REC.with(|r| r.borrow().as_ref().map_or(0, |r| r.evs.len()))
}

fn fd_path(fd: c_int) -> Option<String> {
    let link = format!("/proc/self/fd/{fd}\0");
    let mut buf = [0u8; 512];
    // SAFETY: `link` is NUL terminated, `buf` is valid for `buf.len()` bytes.
    let n = unsafe { libc::readlink(link.as_ptr().cast(), buf.as_mut_ptr().cast(), buf.len()) };
    if n <= 0 {
        return None;
    }
    Some(String::from_utf8_lossy(&buf[..n as usize]).into_owned())
}

fn log(fd: c_int, mk: impl FnOnce() -> Ev) {
    CALLS.fetch_add(1, Ordering::Relaxed);
    let _ = REC.try_with(|r| {
        if let Ok(mut g) = r.try_borrow_mut() {
            if let Some(rec) = g.as_mut() {
                if fd_path(fd).is_some_and(|p| p.starts_with(&rec.dir)) {
                    rec.evs.push(mk());
                }
            }
        }
    });
}

unsafe fn do_pwrite(fd: c_int, buf: *const c_void, count: size_t, offset: i64) -> ssize_t {
    // SAFETY: forwarded verbatim; the caller upholds pwrite's contract.
    let r = unsafe { libc::syscall(libc::SYS_pwrite64, fd, buf, count, offset) } as ssize_t;
    if r > 0 && offset >= 0 {
        // SAFETY: the kernel just read `r <= count` bytes from `buf`.
        let data = unsafe { std::slice::from_raw_parts(buf.cast::<u8>(), r as usize) };
        log(fd, || Ev::Write {
            off: offset as u64,
            data: data.to_vec(),
        });
    }
    r
}

#[unsafe(no_mangle)]
pub unsafe extern "C" fn pwrite64(fd: c_int, buf: *const c_void, count: size_t, offset: i64) -> ssize_t {
    // SAFETY: see `do_pwrite`.
    unsafe { do_pwrite(fd, buf, count, offset) }
}

#[unsafe(no_mangle)]
pub unsafe extern "C" fn pwrite(fd: c_int, buf: *const c_void, count: size_t, offset: off_t) -> ssize_t {
    // SAFETY: see `do_pwrite`.
    unsafe { do_pwrite(fd, buf, count, offset) }
}

fn do_fallocate(fd: c_int, mode: c_int, offset: i64, len: i64) -> c_long {
    // SAFETY: plain integer arguments.
    let r = unsafe { libc::syscall(libc::SYS_fallocate, fd, mode, offset, len) };
    if r == 0 && offset >= 0 && len > 0 {
        if mode & libc::FALLOC_FL_KEEP_SIZE == 0 {
            log(fd, || Ev::Falloc {
                end: (offset as u64).saturating_add(len as u64),
            });
        }
    }
    r
}

#[unsafe(no_mangle)]
pub unsafe extern "C" fn fallocate64(fd: c_int, mode: c_int, offset: i64, len: i64) -> c_int {
    do_fallocate(fd, mode, offset, len) as c_int
}

#[unsafe(no_mangle)]
pub unsafe extern "C" fn fallocate(fd: c_int, mode: c_int, offset: off_t, len: off_t) -> c_int {
    do_fallocate(fd, mode, offset, len) as c_int
}

fn errno() -> c_int {
    // SAFETY: __errno_location always returns a valid thread-local pointer.
    unsafe { *libc::__errno_location() }
}

#[unsafe(no_mangle)]
pub unsafe extern "C" fn posix_fallocate(fd: c_int, offset: off_t, len: off_t) -> c_int {
    if do_fallocate(fd, 0, offset, len) == 0 { 0 } else { errno() }
}

#[unsafe(no_mangle)]
pub unsafe extern "C" fn posix_fallocate64(fd: c_int, offset: i64, len: i64) -> c_int {
    if do_fallocate(fd, 0, offset, len) == 0 { 0 } else { errno() }
}

fn do_ftruncate(fd: c_int, len: i64) -> c_int {
    // SAFETY: plain integer arguments.
    let r = unsafe { libc::syscall(libc::SYS_ftruncate, fd, len) } as c_int;
    if r == 0 && len >= 0 {
        log(fd, || Ev::Trunc { len: len as u64 });
    }
    r
}

#[unsafe(no_mangle)]
pub unsafe extern "C" fn ftruncate64(fd: c_int, len: i64) -> c_int {
    do_ftruncate(fd, len)
}

#[unsafe(no_mangle)]
pub unsafe extern "C" fn ftruncate(fd: c_int, len: off_t) -> c_int {
    do_ftruncate(fd, len)
}

#[unsafe(no_mangle)]
pub unsafe extern "C" fn fdatasync(fd: c_int) -> c_int {
    // SAFETY: plain integer argument.
    let r = unsafe { libc::syscall(libc::SYS_fdatasync, fd) } as c_int;
    if r == 0 {
        log(fd, || Ev::Sync);
    }
    r
}

#[unsafe(no_mangle)]
pub unsafe extern "C" fn fsync(fd: c_int) -> c_int {
    // SAFETY: plain integer argument.
    let r = unsafe { libc::syscall(libc::SYS_fsync, fd) } as c_int;
    if r == 0 {
        log(fd, || Ev::Sync);
    }
    r
}
