//! C34: command signatures bind command bytes, name, parent and author; sign and verify derive the same id.
//!
//! Two parts: `direct` drives `SigningKey::sign_cmd` / `VerifyingKey::verify_cmd`, `ffi` drives
//! `aranya_crypto_ffi::Ffi` through its generated FFI call table (`FfiModule::call`) the way the policy VM does.
use aranya_crypto::{
    Cmd, CmdId, KeyStoreExt as _, Signature, SigningKey, VerifyingKey, keystore::memstore::MemStore,
};
use aranya_crypto_ffi::Ffi;
use aranya_policy_vm::{
    CommandContext, Identifier, MachineStack, OpenContext, SealContext, Stack as _, Value, ffi::FfiModule,
};
use proptest::prelude::*;
use serde::{Deserialize, Serialize};
use vcommon::{CaseInfo, CheckResult, Ctx, Failure, Report, ensure, idx};

use crate::util::{CS, Eng, SeedRng, engine, flip};

#[derive(Clone, Debug, Serialize, Deserialize)]
enum Mut {
    DataFlip { pos: u16, xor: u8 },
    DataInsert { pos: u16, byte: u8 },
    DataRemove { pos: u16 },
    NameSet(String),
    NameChar { pos: u16, c: char },
    NameAppend(String),
    NameTruncate { n: u8 },
    ParentFlip { pos: u16, xor: u8 },
    ParentSet([u8; 32]),
    SigFlip { pos: u16, xor: u8 },
    /// a valid signature by the same key over a different command
    SigOtherCmd,
    /// a valid signature by another key over the same command
    SigOtherKey,
    SigTruncate { n: u8 },
    SigExtend { byte: u8 },
    /// verify under another key
    PkOther,
    /// keep name‖parent‖data byte-identical but move the name/parent and parent/data boundaries by k bytes
    Shift { k: i8 },
    /// keep name‖parent‖data byte-identical but move WHOLE fields across slots: the new name length is
    /// 0 (name slot empty, first 32 bytes become the parent), total-32 (data slot empty, last 32 bytes become the parent),
    /// old+32 (the old parent joins the name, 32 bytes of data become the parent) or old-32 (the tail of the name becomes
    /// the parent, the old parent joins the data)
    Resplit { mode: u8 },
    /// exchange the contents of two slots: 0 = name<->data (data valid UTF-8), 1 = parent<->data (data 32 bytes),
    /// 2 = name<->parent (name 32 bytes, parent valid UTF-8), 3 = rotate name->parent->data->name, 4 = the inverse rotation
    Swap { which: u8 },
    /// (ffi) claimed command id
    ClaimedFlip { pos: u16, xor: u8 },
    /// (ffi) claimed id replaced by the id of another validly signed command
    ClaimedOther,
    /// (ffi) serialized public key
    PkFlip { pos: u16, xor: u8 },
}

impl Mut {
    fn kind(&self) -> &'static str {
        match self {
            Mut::DataFlip { .. } | Mut::DataInsert { .. } | Mut::DataRemove { .. } => "data",
            Mut::NameSet(_) | Mut::NameChar { .. } | Mut::NameAppend(_) | Mut::NameTruncate { .. } => "name",
            Mut::ParentFlip { .. } | Mut::ParentSet(_) => "parent",
            Mut::SigFlip { .. } | Mut::SigTruncate { .. } | Mut::SigExtend { .. } => "sig_bytes",
            Mut::SigOtherCmd => "sig_other_cmd",
            Mut::SigOtherKey => "sig_other_key",
            Mut::PkOther => "other_signer",
            Mut::Shift { .. } => "boundary_shift",
            Mut::Resplit { .. } => "field_rotation",
            Mut::Swap { .. } => "field_swap",
            Mut::ClaimedFlip { .. } | Mut::ClaimedOther => "claimed_id",
            Mut::PkFlip { .. } => "pk_bytes",
        }
    }
}

#[derive(Clone, Debug, Serialize, Deserialize)]
struct Case {
    seed: u64,
    name: String,
    parent: [u8; 32],
    data: Vec<u8>,
    /// each inner vector is applied as one (single- or multi-point) modification
    variants: Vec<Vec<Mut>>,
}

#[derive(Clone, PartialEq, Debug)]
struct Inputs {
    name: String,
    parent: [u8; 32],
    data: Vec<u8>,
    sig: Vec<u8>,
    other_signer: bool,
    claimed: [u8; 32],
    pk_bytes: Vec<u8>,
}

struct Aux {
    sig_other_cmd: Vec<u8>,
    id_other_cmd: [u8; 32],
    sig_other_key: Vec<u8>,
    /// (ffi) serialized public keys of the signer and of the other key; empty for the direct part
    pk_own: Vec<u8>,
    pk_other: Vec<u8>,
}

/// Applies one mutation; false = not applicable to this state (nothing changed).
fn apply(m: &Mut, st: &mut Inputs, aux: &Aux) -> bool {
    match m {
        Mut::DataFlip { pos, xor } => flip(&mut st.data, *pos, *xor).is_some(),
        Mut::DataInsert { pos, byte } => {
            let i = idx(*pos, st.data.len() + 1);
            st.data.insert(i, *byte);
            true
        }
        Mut::DataRemove { pos } => {
            if st.data.is_empty() {
                return false;
            }
            let i = idx(*pos, st.data.len());
            st.data.remove(i);
            true
        }
        Mut::NameSet(s) => {
            if *s == st.name {
                return false;
            }
            st.name = s.clone();
            true
        }
        Mut::NameChar { pos, c } => {
            let mut cs: Vec<char> = st.name.chars().collect();
            if cs.is_empty() {
                return false;
            }
            let i = idx(*pos, cs.len());
            if cs[i] == *c {
                return false;
            }
            cs[i] = *c;
            st.name = cs.into_iter().collect();
            true
        }
        Mut::NameAppend(s) => {
            if s.is_empty() {
                return false;
            }
            st.name.push_str(s);
            true
        }
        Mut::NameTruncate { n } => {
            let cs: Vec<char> = st.name.chars().collect();
            let n = (*n as usize).max(1);
            if cs.len() < n {
                return false;
            }
            st.name = cs[..cs.len() - n].iter().collect();
            true
        }
        Mut::ParentFlip { pos, xor } => flip(&mut st.parent, *pos, *xor).is_some(),
        Mut::ParentSet(p) => {
            if *p == st.parent {
                return false;
            }
            st.parent = *p;
            true
        }
        Mut::SigFlip { pos, xor } => flip(&mut st.sig, *pos, *xor).is_some(),
        Mut::SigOtherCmd => {
            st.sig = aux.sig_other_cmd.clone();
            true
        }
        Mut::SigOtherKey => {
            st.sig = aux.sig_other_key.clone();
            true
        }
        Mut::SigTruncate { n } => {
            let n = (*n as usize).max(1).min(st.sig.len());
            if n == 0 {
                return false;
            }
            st.sig.truncate(st.sig.len() - n);
            true
        }
        Mut::SigExtend { byte } => {
            st.sig.push(*byte);
            true
        }
        Mut::PkOther => {
            st.other_signer = !st.other_signer;
            if !aux.pk_own.is_empty() {
                st.pk_bytes = if st.other_signer { aux.pk_other.clone() } else { aux.pk_own.clone() };
            }
            true
        }
        Mut::Shift { k } => {
            let k = *k as isize;
            if k == 0 {
                return false;
            }
            let b1 = st.name.len() as isize + k;
            resplit(st, b1)
        }
        Mut::Resplit { mode } => {
            let n = st.name.len() as isize;
            let total = n + 32 + st.data.len() as isize;
            let b1 = match mode % 4 {
                0 => 0,
                1 => total - 32,
                2 => n + 32,
                _ => n - 32,
            };
            resplit(st, b1)
        }
        Mut::Swap { which } => {
            let before = (st.name.clone(), st.parent, st.data.clone());
            let as_str = |b: &[u8]| std::str::from_utf8(b).ok().map(str::to_string);
            let as_id = |b: &[u8]| <[u8; 32]>::try_from(b).ok();
            match which % 5 {
                0 => {
                    let Some(n2) = as_str(&st.data) else { return false };
                    st.data = std::mem::replace(&mut st.name, n2).into_bytes();
                }
                1 => {
                    let Some(p2) = as_id(&st.data) else { return false };
                    st.data = std::mem::replace(&mut st.parent, p2).to_vec();
                }
                2 => {
                    let (Some(p2), Some(n2)) = (as_id(st.name.as_bytes()), as_str(&st.parent)) else { return false };
                    st.name = n2;
                    st.parent = p2;
                }
                3 => {
                    // name -> parent, parent -> data, data -> name
                    let (Some(p2), Some(n2)) = (as_id(st.name.as_bytes()), as_str(&st.data)) else { return false };
                    st.data = st.parent.to_vec();
                    st.parent = p2;
                    st.name = n2;
                }
                _ => {
                    // data -> parent, parent -> name, name -> data
                    let (Some(p2), Some(n2)) = (as_id(&st.data), as_str(&st.parent)) else { return false };
                    st.data = std::mem::replace(&mut st.name, n2).into_bytes();
                    st.parent = p2;
                }
            }
            before != (st.name.clone(), st.parent, st.data.clone())
        }
        Mut::ClaimedFlip { pos, xor } => flip(&mut st.claimed, *pos, *xor).is_some(),
        Mut::ClaimedOther => {
            st.claimed = aux.id_other_cmd;
            true
        }
        Mut::PkFlip { pos, xor } => flip(&mut st.pk_bytes, *pos, *xor).is_some(),
    }
}

/// Re-splits the byte stream name‖parent‖data so that the name is its first `b1` bytes, the parent the next 32 and
/// the data the rest; false when infeasible (out of range, name not UTF-8) or nothing changes.
fn resplit(st: &mut Inputs, b1: isize) -> bool {
    let mut stream = st.name.as_bytes().to_vec();
    stream.extend_from_slice(&st.parent);
    stream.extend_from_slice(&st.data);
    if b1 < 0 || (b1 as usize) + 32 > stream.len() || b1 as usize == st.name.len() {
        return false;
    }
    let b1 = b1 as usize;
    let Ok(name) = std::str::from_utf8(&stream[..b1]) else {
        return false;
    };
    st.name = name.to_string();
    st.parent.copy_from_slice(&stream[b1..b1 + 32]);
    st.data = stream[b1 + 32..].to_vec();
    true
}

fn cmd<'a>(name: &'a str, parent: &'a CmdId, data: &'a [u8]) -> Cmd<'a> {
    Cmd { data, name, parent_id: parent }
}

fn sig_bytes(s: &Signature<CS>) -> Vec<u8> {
    use std::borrow::Borrow as _;
    s.to_bytes().borrow().to_vec()
}

fn other_data(data: &[u8]) -> Vec<u8> {
    let mut d = data.to_vec();
    d.push(0x5a);
    d
}

// ------------------------------------------------------------------------------------------------
// direct API

fn check_direct(c: &Case, info: &mut CaseInfo) -> CheckResult {
    let rng = SeedRng::new(c.seed, 0x34);
    let sk = SigningKey::<CS>::new(&rng);
    let sk2 = SigningKey::<CS>::new(&rng);
    let pk = sk.public().map_err(|e| Failure::new("public() failed", e.to_string()))?;
    let pk2 = sk2.public().map_err(|e| Failure::new("public() failed", e.to_string()))?;
    let parent = CmdId::from_bytes(c.parent);
    let base_cmd = cmd(&c.name, &parent, &c.data);

    let (sig, id) = sk.sign_cmd(base_cmd).map_err(|e| Failure::new("sign_cmd failed", e.to_string()))?;
    let vid = pk.verify_cmd(base_cmd, &sig);
    ensure!(vid.is_ok(), "valid signature rejected", "verify_cmd: {vid:?}");
    ensure!(vid.as_ref().ok() == Some(&id), "sign and verify derive different ids", "sign={id} verify={vid:?}");
    // the signature's byte encoding round-trips and still verifies
    let sb = sig_bytes(&sig);
    let sig_rt = Signature::<CS>::from_bytes(&sb).map_err(|e| Failure::new("signature bytes do not import", e.to_string()))?;
    let vid2 = pk.verify_cmd(base_cmd, &sig_rt);
    ensure!(vid2.as_ref().ok() == Some(&id), "re-imported signature verifies differently", "{vid2:?}");

    let od = other_data(&c.data);
    let (sig_oc, id_oc) = sk.sign_cmd(cmd(&c.name, &parent, &od)).map_err(|e| Failure::new("sign_cmd failed", e.to_string()))?;
    ensure!(id_oc != id, "different commands share an id", "data and data+0x5a");
    let (sig_ok, id_ok) = sk2.sign_cmd(base_cmd).map_err(|e| Failure::new("sign_cmd failed", e.to_string()))?;
    ensure!(id_ok != id, "different signers derive the same id", "same command, two keys");
    let aux = Aux { sig_other_cmd: sig_bytes(&sig_oc), id_other_cmd: *id_oc.as_array(), sig_other_key: sig_bytes(&sig_ok), pk_own: Vec::new(), pk_other: Vec::new() };
    let base = Inputs {
        name: c.name.clone(),
        parent: c.parent,
        data: c.data.clone(),
        sig: sb.clone(),
        other_signer: false,
        claimed: *id.as_array(),
        pk_bytes: Vec::new(),
    };

    let mut rejected = 0;
    for (vi, v) in c.variants.iter().enumerate() {
        let mut st = base.clone();
        let mut kinds: Vec<&str> = Vec::new();
        for m in v {
            if matches!(m, Mut::ClaimedFlip { .. } | Mut::ClaimedOther | Mut::PkFlip { .. }) {
                continue; // ffi-only
            }
            if apply(m, &mut st, &aux) {
                kinds.push(m.kind());
            }
        }
        if st == base {
            info.label("variant_noop");
            continue;
        }
        kinds.sort_unstable();
        kinds.dedup();
        let multi = kinds.len() > 1 || v.len() > 1;
        // special case: both "other signer" and "signature by the other key over the same command" is a *valid* pair
        let p2 = CmdId::from_bytes(st.parent);
        let cmd2 = cmd(&st.name, &p2, &st.data);
        let cmd_changed = st.name != base.name || st.parent != base.parent || st.data != base.data;
        let valid_other = st.other_signer && st.sig == aux.sig_other_key && !cmd_changed;
        let vk: &VerifyingKey<CS> = if st.other_signer { &pk2 } else { &pk };
        match Signature::<CS>::from_bytes(&st.sig) {
            Err(_) => {
                info.label("sig_rejected_at_import");
                rejected += 1;
            }
            Ok(s2) => {
                let r = vk.verify_cmd(cmd2, &s2);
                if valid_other {
                    ensure!(r.as_ref().ok() == Some(&id_ok), "valid signature rejected", "other key's own signature: {r:?}");
                    info.label("variant_valid_other_pair");
                    continue;
                }
                // likewise the other command (data + 0x5a) together with its own signature is a valid pair
                if !st.other_signer && st.sig == aux.sig_other_cmd && st.name == base.name && st.parent == base.parent && st.data == od {
                    ensure!(r.as_ref().ok() == Some(&id_oc), "valid signature rejected", "other command with its own signature: {r:?}");
                    info.label("variant_valid_other_cmd_pair");
                    continue;
                }
                ensure!(
                    r.is_err(),
                    "verify_cmd accepted a modified input",
                    "variant#{vi} kinds={kinds:?} muts={v:?} -> {r:?}"
                );
                rejected += 1;
            }
        }
        for k in &kinds {
            info.label(format!("rej_{k}"));
        }
        if multi {
            info.label("rej_multi_point");
        }
        if cmd_changed {
            // the modified command is itself signable, verifies, and has another id (nothing collides)
            let (s3, id3) = sk.sign_cmd(cmd2).map_err(|e| Failure::new("sign_cmd failed", e.to_string()))?;
            ensure!(id3 != id, "modified command has the same id", "variant#{vi} muts={v:?}");
            let r3 = pk.verify_cmd(cmd2, &s3);
            ensure!(r3.as_ref().ok() == Some(&id3), "sign and verify derive different ids", "variant#{vi}: sign={id3} verify={r3:?}");
            // and the original signature does not carry over, nor the new one back
            let back = pk.verify_cmd(base_cmd, &s3);
            ensure!(back.is_err(), "verify_cmd accepted a modified input", "signature of the modified command verifies the original; muts={v:?}");
        }
    }
    if rejected >= 3 {
        info.nontrivial();
    }
    Ok(())
}

// ------------------------------------------------------------------------------------------------
// FFI

fn proc_index(name: &str) -> usize {
    <Ffi<MemStore> as FfiModule>::SCHEMA
        .functions
        .iter()
        .position(|f| f.name.as_str() == name)
        .unwrap_or_else(|| panic!("crypto ffi has no function {name}"))
}

fn ffi_sign(
    ffi: &Ffi<MemStore>,
    eng: &Eng,
    name: &Identifier,
    parent: [u8; 32],
    sk_id: aranya_crypto::BaseId,
    data: &[u8],
) -> Result<(Vec<u8>, [u8; 32]), String> {
    let mut st = MachineStack::new();
    st.push(Value::Option(Some(Box::new(Value::Id(sk_id))))).map_err(|e| e.to_string())?;
    st.push(Value::Bytes(data.to_vec())).map_err(|e| e.to_string())?;
    let ctx = CommandContext::Seal(SealContext { name: name.clone(), head_id: CmdId::from_bytes(parent) });
    ffi.call(proc_index("sign"), &mut st, &ctx, eng).map_err(|e| e.to_string())?;
    let v = st.pop_value().map_err(|e| e.to_string())?;
    let Value::Struct(s) = v else { return Err(format!("sign returned {v:?}")) };
    let mut sig = None;
    let mut id = None;
    for (k, v) in &s.fields {
        match (k.as_str(), v) {
            ("signature", Value::Bytes(b)) => sig = Some(b.clone()),
            ("command_id", Value::Id(i)) => id = Some(*i.as_array()),
            _ => {}
        }
    }
    match (sig, id) {
        (Some(s), Some(i)) => Ok((s, i)),
        _ => Err(format!("sign returned an unexpected struct {s:?}")),
    }
}

fn ffi_verify(ffi: &Ffi<MemStore>, eng: &Eng, name: &Identifier, st_in: &Inputs) -> Result<(), String> {
    let mut st = MachineStack::new();
    let push = |st: &mut MachineStack, v: Value| st.push(v).map_err(|e| e.to_string());
    push(&mut st, Value::Option(Some(Box::new(Value::Bytes(st_in.pk_bytes.clone())))))?;
    push(&mut st, Value::Id(aranya_crypto::BaseId::from_bytes(st_in.parent)))?;
    push(&mut st, Value::Bytes(st_in.data.clone()))?;
    push(&mut st, Value::Id(aranya_crypto::BaseId::from_bytes(st_in.claimed)))?;
    push(&mut st, Value::Bytes(st_in.sig.clone()))?;
    let ctx = CommandContext::Open(OpenContext { name: name.clone() });
    ffi.call(proc_index("verify"), &mut st, &ctx, eng).map_err(|e| e.to_string())?;
    match st.pop_value() {
        Ok(Value::Unit) => Ok(()),
        other => Err(format!("verify left {other:?} on the stack")),
    }
}

fn check_ffi(c: &Case, info: &mut CaseInfo) -> CheckResult {
    let eng = engine(c.seed, 0x3434);
    let mut store = MemStore::new();
    let sk = SigningKey::<CS>::new(&eng);
    let sk2 = SigningKey::<CS>::new(&eng);
    let pk = sk.public().map_err(|e| Failure::new("public() failed", e.to_string()))?;
    let pk2 = sk2.public().map_err(|e| Failure::new("public() failed", e.to_string()))?;
    let pkb = postcard::to_allocvec(&pk).map_err(|e| Failure::new("pk does not serialize", e.to_string()))?;
    let pkb2 = postcard::to_allocvec(&pk2).map_err(|e| Failure::new("pk does not serialize", e.to_string()))?;
    let sk_id = store.insert_key(&eng, sk.clone()).map_err(|e| Failure::new("insert_key failed", e.to_string()))?;
    let sk2_id = store.insert_key(&eng, sk2.clone()).map_err(|e| Failure::new("insert_key failed", e.to_string()))?;
    let ffi = Ffi::new(store);
    let Ok(name) = c.name.parse::<Identifier>() else {
        info.label("case_name_not_identifier");
        return Ok(());
    };

    let (sig, id) = ffi_sign(&ffi, &eng, &name, c.parent, sk_id.as_base(), &c.data)
        .map_err(|e| Failure::new("crypto::sign failed", e))?;
    let base = Inputs {
        name: c.name.clone(),
        parent: c.parent,
        data: c.data.clone(),
        sig: sig.clone(),
        other_signer: false,
        claimed: id,
        pk_bytes: pkb.clone(),
    };
    let r = ffi_verify(&ffi, &eng, &name, &base);
    ensure!(r.is_ok(), "valid signature rejected", "crypto::verify on crypto::sign output: {r:?}");

    // cross-layer: the ffi output is exactly what the direct API derives, and vice versa
    let parent = CmdId::from_bytes(c.parent);
    let base_cmd = cmd(&c.name, &parent, &c.data);
    let s = Signature::<CS>::from_bytes(&sig).map_err(|e| Failure::new("ffi signature does not import", e.to_string()))?;
    let vid = pk.verify_cmd(base_cmd, &s);
    ensure!(
        vid.as_ref().ok().map(|i| *i.as_array()) == Some(id),
        "sign and verify derive different ids",
        "crypto::sign id={} verify_cmd={vid:?}",
        CmdId::from_bytes(id)
    );
    let (dsig, did) = sk.sign_cmd(base_cmd).map_err(|e| Failure::new("sign_cmd failed", e.to_string()))?;
    let mut st = base.clone();
    st.sig = sig_bytes(&dsig);
    st.claimed = *did.as_array();
    let r = ffi_verify(&ffi, &eng, &name, &st);
    ensure!(r.is_ok(), "valid signature rejected", "crypto::verify on sign_cmd output: {r:?}");

    let od = other_data(&c.data);
    let (sig_oc, id_oc) = ffi_sign(&ffi, &eng, &name, c.parent, sk_id.as_base(), &od).map_err(|e| Failure::new("crypto::sign failed", e))?;
    let (sig_ok, id_ok) = ffi_sign(&ffi, &eng, &name, c.parent, sk2_id.as_base(), &c.data).map_err(|e| Failure::new("crypto::sign failed", e))?;
    ensure!(id_oc != id && id_ok != id, "different commands share an id", "id_oc/id_ok vs id");
    let aux = Aux { sig_other_cmd: sig_oc, id_other_cmd: id_oc, sig_other_key: sig_ok.clone(), pk_own: pkb.clone(), pk_other: pkb2.clone() };

    let mut rejected = 0;
    for (vi, v) in c.variants.iter().enumerate() {
        let mut st = base.clone();
        let mut kinds: Vec<&str> = Vec::new();
        for m in v {
            if apply(m, &mut st, &aux) {
                kinds.push(m.kind());
            }
        }
        if st == base {
            info.label("variant_noop");
            continue;
        }
        kinds.sort_unstable();
        kinds.dedup();
        let Ok(name2) = st.name.parse::<Identifier>() else {
            info.label("variant_name_not_identifier");
            continue;
        };
        // which key do the presented bytes denote? (a flipped encoding may fail to decode, denote another
        // key, or - in principle - denote the same key non-canonically, which is not a change of signer)
        let eff = postcard::from_bytes::<VerifyingKey<CS>>(&st.pk_bytes).ok();
        if eff.as_ref() == Some(&pk) && st.pk_bytes != pkb {
            let mut same = st.clone();
            same.pk_bytes = pkb.clone();
            same.other_signer = false;
            if same == base {
                info.label("variant_pk_noncanonical_same_key");
                continue;
            }
        }
        let cmd_changed = st.name != base.name || st.parent != base.parent || st.data != base.data;
        let valid_other = eff.as_ref() == Some(&pk2) && st.sig == sig_ok && !cmd_changed;
        if valid_other {
            let mut ok = st.clone();
            ok.claimed = id_ok;
            let r = ffi_verify(&ffi, &eng, &name2, &ok);
            ensure!(r.is_ok(), "valid signature rejected", "other key's own signature with its own id: {r:?}");
            if st.claimed == id_ok {
                info.label("variant_valid_other_pair");
                continue;
            }
        }
        // likewise the other command (data + 0x5a) with its own signature and its own id is a valid triple
        if eff.as_ref() == Some(&pk) && st.sig == aux.sig_other_cmd && st.claimed == id_oc && st.name == base.name && st.parent == base.parent && st.data == od {
            let r = ffi_verify(&ffi, &eng, &name2, &st);
            ensure!(r.is_ok(), "valid signature rejected", "other command with its own signature and id: {r:?}");
            info.label("variant_valid_other_cmd_pair");
            continue;
        }
        let r = ffi_verify(&ffi, &eng, &name2, &st);
        ensure!(
            r.is_err(),
            "crypto::verify accepted a modified input",
            "variant#{vi} kinds={kinds:?} muts={v:?}"
        );
        rejected += 1;
        for k in &kinds {
            info.label(format!("rej_{k}"));
        }
        if kinds.len() > 1 || v.len() > 1 {
            info.label("rej_multi_point");
        }
        if cmd_changed {
            let (s3, id3) = ffi_sign(&ffi, &eng, &name2, st.parent, sk_id.as_base(), &st.data)
                .map_err(|e| Failure::new("crypto::sign failed", e))?;
            ensure!(id3 != id, "modified command has the same id", "variant#{vi} muts={v:?}");
            let mut ok = base.clone();
            ok.name = st.name.clone();
            ok.parent = st.parent;
            ok.data = st.data.clone();
            ok.sig = s3;
            ok.claimed = id3;
            let r3 = ffi_verify(&ffi, &eng, &name2, &ok);
            ensure!(r3.is_ok(), "valid signature rejected", "variant#{vi}: re-signed modified command: {r3:?}");
            // right signature, stale claimed id
            ok.claimed = id;
            let r4 = ffi_verify(&ffi, &eng, &name2, &ok);
            ensure!(r4.is_err(), "crypto::verify accepted a modified input", "variant#{vi}: new command, new signature, old id");
        }
    }
    if rejected >= 3 {
        info.nontrivial();
    }
    Ok(())
}

// ------------------------------------------------------------------------------------------------
// generators

fn ident_name() -> impl Strategy<Value = String> {
    prop_oneof![
        4 => "[A-Za-z][A-Za-z0-9_]{0,20}",
        1 => "[A-Za-z]",
        1 => "[A-Za-z][A-Za-z0-9_]{40,80}",
        1 => "[A-Za-z][A-Za-z0-9_]{30,32}",
    ]
}

fn any_name() -> impl Strategy<Value = String> {
    prop_oneof![
        3 => ident_name(),
        2 => ".{0,24}",
        1 => Just(String::new()),
        1 => "\\PC{0,8}",
    ]
}

const PRINTABLE: &[u8] = b"ABCDEFGHIJKLMNOPQRSTUVWXYZabcdefghijklmnopqrstuvwxyz0123456789_";

/// Names whose byte length sits on the width of a command id (and twice that), or empty.
fn edge_name() -> impl Strategy<Value = String> {
    prop_oneof![
        3 => Just(String::new()),
        4 => "[A-Za-z][A-Za-z0-9_]{31}",
        1 => "[A-Za-z][A-Za-z0-9_]{30}",
        1 => "[A-Za-z][A-Za-z0-9_]{32}",
        1 => "[A-Za-z][A-Za-z0-9_]{63}",
        // 32 bytes, not all ASCII
        1 => prop::collection::vec(prop::sample::select("abcxyz \u{e9}\u{4e16}\u{1f600}".chars().collect::<Vec<_>>()), 32).prop_map(|cs| {
            let mut s = String::new();
            for c in cs {
                if s.len() + c.len_utf8() <= 32 {
                    s.push(c);
                }
            }
            while s.len() < 32 {
                s.push('a');
            }
            s
        }),
        1 => any_name(),
    ]
}

/// Payloads that are empty or as wide as a command id (and one off, and twice that), mostly valid UTF-8.
fn edge_data() -> impl Strategy<Value = Vec<u8>> {
    let printable = |n: usize| prop::collection::vec(prop::sample::select(PRINTABLE.to_vec()), n);
    prop_oneof![
        3 => Just(Vec::new()),
        3 => printable(32),
        1 => printable(31),
        1 => printable(33),
        1 => printable(64),
        1 => prop::collection::vec(any::<u8>(), 32),
        1 => data(),
    ]
}

fn edge_parent() -> impl Strategy<Value = [u8; 32]> {
    prop_oneof![
        4 => prop::collection::vec(prop::sample::select(PRINTABLE.to_vec()), 32)
            .prop_map(|v| { let mut a = [0u8; 32]; a.copy_from_slice(&v); a }),
        1 => parent(),
    ]
}

fn rotation() -> impl Strategy<Value = Mut> {
    prop_oneof![
        4 => (0u8..4).prop_map(|mode| Mut::Resplit { mode }),
        3 => (0u8..5).prop_map(|which| Mut::Swap { which }),
        2 => prop::sample::select(vec![-33i8, -32, -31, 31, 32, 33, -64, 64, -1, 1]).prop_map(|k| Mut::Shift { k }),
    ]
}

fn edge_case(nvar: usize) -> impl Strategy<Value = Case> {
    let m = || prop_oneof![3 => rotation(), 1 => mutation(false)];
    let variant = prop_oneof![
        4 => prop::collection::vec(m(), 1..=1),
        1 => prop::collection::vec(m(), 2..=3),
    ];
    (any::<u64>(), edge_name(), edge_parent(), edge_data(), prop::collection::vec(variant, 2..=nvar))
        .prop_map(|(seed, name, parent, data, variants)| Case { seed, name, parent, data, variants })
}

fn parent() -> impl Strategy<Value = [u8; 32]> {
    prop_oneof![
        3 => any::<[u8; 32]>(),
        3 => prop::collection::vec(prop::sample::select(b"ABCDEFGHIJKLMNOPQRSTUVWXYZabcdefghijklmnopqrstuvwxyz0123456789_".to_vec()), 32)
            .prop_map(|v| { let mut a = [0u8; 32]; a.copy_from_slice(&v); a }),
        1 => Just([0u8; 32]),
    ]
}

fn data() -> impl Strategy<Value = Vec<u8>> {
    prop_oneof![
        4 => prop::collection::vec(any::<u8>(), 0..200),
        3 => prop::collection::vec(prop::sample::select(b"abcdefghijklmnopqrstuvwxyz0123456789_".to_vec()), 0..80),
        1 => Just(Vec::new()),
        1 => prop::collection::vec(any::<u8>(), 1000..3000),
        1 => prop::collection::vec(prop::sample::select(PRINTABLE.to_vec()), 31..=33),
    ]
}

fn mutation(ffi: bool) -> BoxedStrategy<Mut> {
    let name = if ffi { ident_name().boxed() } else { any_name().boxed() };
    let ch = if ffi {
        prop::sample::select("abcXYZ019_".chars().collect::<Vec<_>>()).boxed()
    } else {
        prop_oneof![prop::sample::select("abcXYZ019_ \u{e9}\u{4e16}".chars().collect::<Vec<_>>()), any::<char>()].boxed()
    };
    let app = if ffi { "[A-Za-z0-9_]{1,4}".boxed() } else { ".{1,4}".boxed() };
    let common = prop_oneof![
        4 => (any::<u16>(), any::<u8>()).prop_map(|(pos, xor)| Mut::DataFlip { pos, xor }),
        2 => (any::<u16>(), any::<u8>()).prop_map(|(pos, byte)| Mut::DataInsert { pos, byte }),
        2 => any::<u16>().prop_map(|pos| Mut::DataRemove { pos }),
        2 => name.prop_map(Mut::NameSet),
        3 => (any::<u16>(), ch).prop_map(|(pos, c)| Mut::NameChar { pos, c }),
        2 => app.prop_map(Mut::NameAppend),
        2 => (1u8..4).prop_map(|n| Mut::NameTruncate { n }),
        4 => (any::<u16>(), any::<u8>()).prop_map(|(pos, xor)| Mut::ParentFlip { pos, xor }),
        1 => any::<[u8; 32]>().prop_map(Mut::ParentSet),
        6 => (any::<u16>(), any::<u8>()).prop_map(|(pos, xor)| Mut::SigFlip { pos, xor }),
        1 => Just(Mut::SigOtherCmd),
        1 => Just(Mut::SigOtherKey),
        1 => (1u8..4).prop_map(|n| Mut::SigTruncate { n }),
        1 => any::<u8>().prop_map(|byte| Mut::SigExtend { byte }),
        2 => Just(Mut::PkOther),
        6 => prop_oneof![(-40i8..=40), (-3i8..=3)].prop_map(|k| Mut::Shift { k }),
        2 => (0u8..4).prop_map(|mode| Mut::Resplit { mode }),
        1 => (0u8..5).prop_map(|which| Mut::Swap { which }),
    ];
    if ffi {
        prop_oneof![
            8 => common,
            1 => (any::<u16>(), any::<u8>()).prop_map(|(pos, xor)| Mut::ClaimedFlip { pos, xor }),
            1 => Just(Mut::ClaimedOther),
            1 => (any::<u16>(), any::<u8>()).prop_map(|(pos, xor)| Mut::PkFlip { pos, xor }),
        ]
        .boxed()
    } else {
        common.boxed()
    }
}

fn case(ffi: bool, nvar: usize) -> impl Strategy<Value = Case> {
    let name = if ffi { ident_name().boxed() } else { any_name().boxed() };
    let variant = prop_oneof![
        3 => prop::collection::vec(mutation(ffi), 1..=1),
        1 => prop::collection::vec(mutation(ffi), 2..=3),
    ];
    (any::<u64>(), name, parent(), data(), prop::collection::vec(variant, 1..=nvar))
        .prop_map(|(seed, name, parent, data, variants)| Case { seed, name, parent, data, variants })
}

pub fn run(ctx: &Ctx) -> ! {
    let mut rep = Report::new(ctx, "exploration");
    rep.assume("keys, and the engine's wrapping key, are derived from the case seed through a deterministic splitmix64 byte stream (Ed25519 signing itself is deterministic); the oracle never depends on the random values");
    rep.assume("cipher suite = DefaultCipherSuite (Ed25519, SHA-256 tuple hash); the hash and Ed25519 primitives themselves are trusted");
    rep.assume("through the FFI the command name is a policy Identifier ([A-Za-z][A-Za-z0-9_]*), as the VM guarantees; the direct API is exercised with arbitrary UTF-8 names including the empty string");
    rep.explore(
        "direct",
        "per case: fresh key pair, command (name: identifiers / arbitrary unicode / empty; parent: random / all-printable / zero; \
         data 0..3000 B) signed with sign_cmd, then up to 16 single- or 2..3-point modifications of {data flip/insert/remove, \
         name set/char/append/truncate, parent flip/set, signature byte flip/truncate/extend, signature of another command, \
         signature by another key, other verifying key, boundary shift of name|parent|data by -40..40 bytes keeping the \
         concatenation identical, whole-field re-splits and slot swaps (see direct_field_rotation)}. Oracle: pristine verifies with the id sign_cmd returned (also after a to_bytes/from_bytes \
         round trip); every modification is rejected (import error or verify_cmd Err); every modified command re-signs to a \
         different id and its signature does not verify the original. non-trivial = >=3 modifications rejected",
        || case(false, 16),
        ctx.pick(30_000, 600_000),
        check_direct,
    );
    rep.explore(
        "direct_field_rotation",
        "direct API on width edges: name in {empty, 31/32/33/64-byte identifiers, 32 bytes with multi-byte characters, arbitrary}, \
         data in {empty, 31/32/33/64 printable bytes, 32 random bytes, arbitrary}, parent mostly printable (so it can become a name); \
         2..10 modifications drawn 3:1 from whole-field moves {re-split of the unchanged concatenation name|parent|data with the new \
         name length 0 / total-32 / old+32 / old-32 (a field becomes empty and a whole field slides into the neighbouring slot), \
         slot swaps name<->data, parent<->data, name<->parent, both 3-cycles, shifts by +-31/32/33/64/1} and the modifications of \
         part `direct`. Oracle as in `direct`. non-trivial = >=3 modifications rejected",
        || edge_case(10),
        ctx.pick(6_000, 120_000),
        check_direct,
    );
    rep.explore(
        "ffi",
        "same modifications plus {claimed command id flip / other command's id, serialized public key byte flip} driven through \
         aranya_crypto_ffi::Ffi<MemStore>::call (functions `sign` and `verify` looked up in the module schema, arguments on a \
         MachineStack, Seal/Open contexts); additionally crypto::sign output must verify under verify_cmd with the same id and \
         sign_cmd output must pass crypto::verify; a re-signed modified command with the stale id must fail. \
         non-trivial = >=3 modifications rejected",
        || case(true, 12),
        ctx.pick(12_000, 240_000),
        check_ffi,
    );
    rep.finish()
}
