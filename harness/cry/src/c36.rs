//! C36: wrapped keys are authenticated and bound to their algorithm kind.
use aranya_crypto::{
    BaseId, CipherSuite, DeviceId, EncryptionKey, Engine, GroupKey, Identified, IdentityKey, SigningKey,
    afc::{UniAuthorSecret, UniChannel, UniSecrets},
    apq::{ReceiverSecretKey, SenderSecretKey, SenderSigningKey, Topic, TopicKey, Version},
    custom_id,
    dangerous::spideroak_crypto::{
        aead::Aead,
        keys::SecretKey,
        mac::Mac,
    },
    default::WrappedKey,
    engine::UnwrappedKey,
    id::IdExt as _,
    policy::{CmdId, GroupId, LabelId, PolicyId},
    tls::{CipherSuiteId, PskSeed},
    unwrapped, Context, Random,
};
use proptest::prelude::*;
use serde::{Deserialize, Serialize};
use vcommon::{CaseInfo, CheckResult, Ctx, Failure, Report, ensure, idx};

use crate::util::{CS, Eng, engine, nz};

// ------------------------------------------------------------------------------------------------
// harness-local key types for the two algorithm kinds no key type of the crate uses (AEAD, MAC)

custom_id! {
    /// Id of a probe AEAD key.
    pub struct ProbeAeadId;
}
custom_id! {
    /// Id of a probe MAC key.
    pub struct ProbeMacId;
}

pub struct ProbeAead<CS: CipherSuite> {
    key: <CS::Aead as Aead>::Key,
}
impl<CS: CipherSuite> Clone for ProbeAead<CS> {
    fn clone(&self) -> Self {
        Self { key: self.key.clone() }
    }
}
impl<CS: CipherSuite> Identified for ProbeAead<CS> {
    type Id = ProbeAeadId;
    fn id(&self) -> Result<Self::Id, aranya_crypto::id::IdError> {
        let b = self.key.try_export_secret().expect("software AEAD keys export");
        Ok(ProbeAeadId::new::<CS>(b"ProbeAead", [b.as_bytes()]))
    }
}
unwrapped! {
    name: ProbeAead;
    type: Aead;
    into: |k: Self| { k.key };
    from: |key| { Self { key } };
}

pub struct ProbeMac<CS: CipherSuite> {
    key: <CS::Mac as Mac>::Key,
}
impl<CS: CipherSuite> Clone for ProbeMac<CS> {
    fn clone(&self) -> Self {
        Self { key: self.key.clone() }
    }
}
impl<CS: CipherSuite> Identified for ProbeMac<CS> {
    type Id = ProbeMacId;
    fn id(&self) -> Result<Self::Id, aranya_crypto::id::IdError> {
        let b = self.key.try_export_secret().expect("software MAC keys export");
        Ok(ProbeMacId::new::<CS>(b"ProbeMac", [b.as_bytes()]))
    }
}
unwrapped! {
    name: ProbeMac;
    type: Mac;
    into: |k: Self| { k.key };
    from: |key| { Self { key } };
}

// ------------------------------------------------------------------------------------------------

#[derive(Clone, Copy, PartialEq, Eq, Debug)]
enum Kind {
    Aead,
    Decap,
    Mac,
    Prk,
    Seed,
    Signing,
}

trait Probe: UnwrappedKey<CS> + Clone {
    const NAME: &'static str;
    const KIND: Kind;
    fn generate(eng: &Eng) -> Self;
    /// Ok if `self` and `other` are interchangeable in use.
    fn behaves_like(&self, other: &Self, eng: &Eng) -> Result<(), String>;
    fn base_id(&self) -> BaseId {
        *Identified::id(self).expect("key id").as_ref()
    }
}

fn es<E: std::fmt::Display>(what: &'static str) -> impl Fn(E) -> String {
    move |e| format!("{what}: {e}")
}

const MSG: &[u8] = b"behaviour probe message";
const VERSION: Version = Version::new(7);

impl Probe for IdentityKey<CS> {
    const NAME: &'static str = "IdentityKey";
    const KIND: Kind = Kind::Signing;
    fn generate(eng: &Eng) -> Self {
        Self::new(eng)
    }
    fn behaves_like(&self, o: &Self, _: &Eng) -> Result<(), String> {
        let s1 = self.sign(MSG, b"ctx").map_err(es("sign"))?;
        let s2 = o.sign(MSG, b"ctx").map_err(es("sign"))?;
        o.public().map_err(es("public"))?.verify(MSG, b"ctx", &s1).map_err(es("verify a->b"))?;
        self.public().map_err(es("public"))?.verify(MSG, b"ctx", &s2).map_err(es("verify b->a"))
    }
}

impl Probe for SigningKey<CS> {
    const NAME: &'static str = "SigningKey";
    const KIND: Kind = Kind::Signing;
    fn generate(eng: &Eng) -> Self {
        Self::new(eng)
    }
    fn behaves_like(&self, o: &Self, _: &Eng) -> Result<(), String> {
        let s1 = self.sign(MSG, b"ctx").map_err(es("sign"))?;
        let s2 = o.sign(MSG, b"ctx").map_err(es("sign"))?;
        o.public().map_err(es("public"))?.verify(MSG, b"ctx", &s1).map_err(es("verify a->b"))?;
        self.public().map_err(es("public"))?.verify(MSG, b"ctx", &s2).map_err(es("verify b->a"))
    }
}

impl Probe for SenderSigningKey<CS> {
    const NAME: &'static str = "SenderSigningKey";
    const KIND: Kind = Kind::Signing;
    fn generate(eng: &Eng) -> Self {
        Self::new(eng)
    }
    fn behaves_like(&self, o: &Self, _: &Eng) -> Result<(), String> {
        let t = Topic::new("t");
        let s1 = self.sign(VERSION, &t, MSG).map_err(es("sign"))?;
        let s2 = o.sign(VERSION, &t, MSG).map_err(es("sign"))?;
        o.public().map_err(es("public"))?.verify(VERSION, &t, MSG, &s1).map_err(es("verify a->b"))?;
        self.public().map_err(es("public"))?.verify(VERSION, &t, MSG, &s2).map_err(es("verify b->a"))
    }
}

impl Probe for EncryptionKey<CS> {
    const NAME: &'static str = "EncryptionKey";
    const KIND: Kind = Kind::Decap;
    fn generate(eng: &Eng) -> Self {
        Self::new(eng)
    }
    fn behaves_like(&self, o: &Self, eng: &Eng) -> Result<(), String> {
        let gk = GroupKey::<CS>::new(eng);
        let group = GroupId::from_bytes([9; 32]);
        let (enc, ct) = self.public().map_err(es("public"))?.seal_group_key(eng, &gk, group).map_err(es("seal"))?;
        let got = o.open_group_key(&enc, ct, group).map_err(es("open with the unwrapped key"))?;
        if got.id().map_err(es("id"))? != gk.id().map_err(es("id"))? {
            return Err("opened group key differs".into());
        }
        Ok(())
    }
}

impl Probe for SenderSecretKey<CS> {
    const NAME: &'static str = "SenderSecretKey";
    const KIND: Kind = Kind::Decap;
    fn generate(eng: &Eng) -> Self {
        Self::new(eng)
    }
    fn behaves_like(&self, o: &Self, eng: &Eng) -> Result<(), String> {
        let t = Topic::new("t");
        let recv = ReceiverSecretKey::<CS>::new(eng);
        let tk = TopicKey::<CS>::new(eng, VERSION, &t).map_err(es("topic key"))?;
        let (enc, ct) = recv.public().map_err(es("public"))?.seal_topic_key(eng, VERSION, &t, self, &tk).map_err(es("seal"))?;
        let got = recv
            .open_topic_key(VERSION, &t, &o.public().map_err(es("public"))?, &enc, &ct)
            .map_err(es("open under the unwrapped sender key's public half"))?;
        if got.id().map_err(es("id"))? != tk.id().map_err(es("id"))? {
            return Err("opened topic key differs".into());
        }
        Ok(())
    }
}

impl Probe for ReceiverSecretKey<CS> {
    const NAME: &'static str = "ReceiverSecretKey";
    const KIND: Kind = Kind::Decap;
    fn generate(eng: &Eng) -> Self {
        Self::new(eng)
    }
    fn behaves_like(&self, o: &Self, eng: &Eng) -> Result<(), String> {
        let t = Topic::new("t");
        let snd = SenderSecretKey::<CS>::new(eng);
        let tk = TopicKey::<CS>::new(eng, VERSION, &t).map_err(es("topic key"))?;
        let (enc, ct) = self.public().map_err(es("public"))?.seal_topic_key(eng, VERSION, &t, &snd, &tk).map_err(es("seal"))?;
        let got = o
            .open_topic_key(VERSION, &t, &snd.public().map_err(es("public"))?, &enc, &ct)
            .map_err(es("open with the unwrapped receiver key"))?;
        if got.id().map_err(es("id"))? != tk.id().map_err(es("id"))? {
            return Err("opened topic key differs".into());
        }
        Ok(())
    }
}

impl Probe for UniAuthorSecret<CS> {
    const NAME: &'static str = "UniAuthorSecret";
    const KIND: Kind = Kind::Decap;
    fn generate(eng: &Eng) -> Self {
        let our = EncryptionKey::<CS>::new(eng);
        let their = EncryptionKey::<CS>::new(eng).public().expect("public");
        let ch = UniChannel {
            parent_cmd_id: CmdId::from_bytes([1; 32]),
            our_sk: &our,
            their_pk: &their,
            seal_id: DeviceId::from_bytes([2; 32]),
            open_id: DeviceId::from_bytes([3; 32]),
            label_id: LabelId::from_bytes([4; 32]),
        };
        UniSecrets::new(eng, &ch).expect("UniSecrets::new").author
    }
    fn behaves_like(&self, _: &Self, _: &Eng) -> Result<(), String> {
        // the id is a hash of the secret's public half; id equality (checked by the caller) is the behaviour
        Ok(())
    }
}

fn ctx<'a>(pk: &'a aranya_crypto::VerifyingKey<CS>) -> Context<'a, CS> {
    Context { label: "probe", parent: CmdId::from_bytes([5; 32]), author_sign_pk: pk }
}

impl Probe for GroupKey<CS> {
    const NAME: &'static str = "GroupKey";
    const KIND: Kind = Kind::Seed;
    fn generate(eng: &Eng) -> Self {
        Self::new(eng)
    }
    fn behaves_like(&self, o: &Self, eng: &Eng) -> Result<(), String> {
        let author = SigningKey::<CS>::new(eng).public().map_err(es("public"))?;
        for (a, b) in [(self, o), (o, self)] {
            let mut ct = vec![0u8; MSG.len() + a.overhead()];
            a.seal(eng, &mut ct, MSG, ctx(&author)).map_err(es("seal"))?;
            let mut pt = vec![0u8; MSG.len()];
            b.open(&mut pt, &ct, ctx(&author)).map_err(es("open with the other copy"))?;
            if pt != MSG {
                return Err("plaintext differs".into());
            }
        }
        Ok(())
    }
}

impl Probe for PskSeed<CS> {
    const NAME: &'static str = "PskSeed";
    const KIND: Kind = Kind::Prk;
    fn generate(eng: &Eng) -> Self {
        Self::new(eng, &GroupId::from_bytes([6; 32]))
    }
    fn behaves_like(&self, o: &Self, _: &Eng) -> Result<(), String> {
        let g = GroupId::from_bytes([6; 32]);
        let p = PolicyId::from_bytes([7; 32]);
        let a: Vec<_> = self.clone().generate_psks(b"probe", g, p, CipherSuiteId::all().iter().copied()).collect();
        let b: Vec<_> = o.clone().generate_psks(b"probe", g, p, CipherSuiteId::all().iter().copied()).collect();
        if a.len() != b.len() || a.is_empty() {
            return Err("psk counts differ".into());
        }
        for (x, y) in a.into_iter().zip(b) {
            let x = x.map_err(es("psk"))?;
            let y = y.map_err(es("psk"))?;
            if x.raw_secret_bytes() != y.raw_secret_bytes() || x.identity().as_bytes() != y.identity().as_bytes() {
                return Err("derived PSKs differ".into());
            }
        }
        Ok(())
    }
}

impl Probe for ProbeAead<CS> {
    const NAME: &'static str = "ProbeAead";
    const KIND: Kind = Kind::Aead;
    fn generate(eng: &Eng) -> Self {
        Self { key: Random::random(eng) }
    }
    fn behaves_like(&self, o: &Self, _: &Eng) -> Result<(), String> {
        type A = <CS as CipherSuite>::Aead;
        let nonce = vec![3u8; A::NONCE_SIZE];
        let mut ct = vec![0u8; MSG.len() + A::OVERHEAD];
        A::new(&self.key).seal(&mut ct, &nonce, MSG, b"ad").map_err(es("seal"))?;
        let mut pt = vec![0u8; MSG.len()];
        A::new(&o.key).open(&mut pt, &nonce, &ct, b"ad").map_err(es("open with the other copy"))?;
        if pt != MSG {
            return Err("plaintext differs".into());
        }
        Ok(())
    }
}

impl Probe for ProbeMac<CS> {
    const NAME: &'static str = "ProbeMac";
    const KIND: Kind = Kind::Mac;
    fn generate(eng: &Eng) -> Self {
        Self { key: Random::random(eng) }
    }
    fn behaves_like(&self, o: &Self, _: &Eng) -> Result<(), String> {
        type M = <CS as CipherSuite>::Mac;
        let mut a = M::new(&self.key);
        a.update(MSG);
        let tag = a.tag();
        let mut b = M::new(&o.key);
        b.update(MSG);
        b.verify(&tag).map_err(es("mac verify with the other copy"))
    }
}

macro_rules! types {
    ($m:ident) => {
        $m! {
            0 => IdentityKey<CS>, 1 => SigningKey<CS>, 2 => SenderSigningKey<CS>,
            3 => EncryptionKey<CS>, 4 => SenderSecretKey<CS>, 5 => ReceiverSecretKey<CS>, 6 => UniAuthorSecret<CS>,
            7 => GroupKey<CS>, 8 => PskSeed<CS>, 9 => ProbeAead<CS>, 10 => ProbeMac<CS>
        }
    };
}
const NTYPES: usize = 11;

macro_rules! def_tables {
    ($($i:literal => $t:ty),*) => {
        fn type_name(i: usize) -> &'static str { match i { $($i => <$t as Probe>::NAME,)* _ => "?" } }
        fn type_kind(i: usize) -> Kind { match i { $($i => <$t as Probe>::KIND,)* _ => unreachable!() } }
        /// Unwraps `w` as type #i; Ok(base id of the unwrapped key) or the error text.
        fn unwrap_as(i: usize, eng: &Eng, w: &WrappedKey<CS>) -> Result<BaseId, String> {
            match i {
                $($i => eng.unwrap::<$t>(w).map(|k| k.base_id()).map_err(|e| e.to_string()),)*
                _ => unreachable!(),
            }
        }
        /// Wraps a fresh key of type #i with `eng`.
        fn fresh_wrapped(i: usize, eng: &Eng) -> WrappedKey<CS> {
            match i {
                $($i => eng.wrap(<$t as Probe>::generate(eng)).expect("wrap"),)*
                _ => unreachable!(),
            }
        }
        fn check_case(c: &Case, info: &mut CaseInfo) -> CheckResult {
            match idx(c.ty, NTYPES) {
                $($i => check_type::<$t>($i, c, info),)*
                _ => unreachable!(),
            }
        }
    };
}
types!(def_tables);

#[derive(Clone, Debug, Serialize, Deserialize)]
enum WMut {
    /// flip bytes of the postcard form
    Flip(Vec<(u16, u8)>),
    /// set the enum variant index of the ciphertext to `to` (postcard form)
    Retag { to: u8 },
    /// rename the ciphertext variant in the JSON form to kind #to (keeps the bytes)
    RetagJson { to: u8 },
    /// copy the fields selected by `mask` (1=id, 2=nonce, 4=ciphertext, 8=tag) from another wrapped key
    Splice { mask: u8, from: Donor },
    /// drop trailing bytes of the postcard form
    Truncate { n: u8 },
    /// flip one byte of one JSON field: 0=id (decoded), 1=nonce, 2=ciphertext, 3=tag
    Field { field: u8, pos: u16, xor: u8 },
}

#[derive(Clone, Debug, Serialize, Deserialize)]
enum Donor {
    /// the same key wrapped a second time (fresh nonce)
    Rewrap,
    /// another key of the same type
    SameType,
    /// a key of another type
    OtherType(u16),
}

#[derive(Clone, Debug, Serialize, Deserialize)]
struct Case {
    seed: u64,
    ty: u16,
    muts: Vec<WMut>,
}

const KIND_NAMES: [&str; 6] = ["Aead", "Decap", "Mac", "Prk", "Seed", "Signing"];

fn to_pc(w: &WrappedKey<CS>) -> Vec<u8> {
    postcard::to_allocvec(w).expect("wrapped key serializes")
}

fn json_bytes(v: &serde_json::Value) -> Option<Vec<u8>> {
    v.as_array()?.iter().map(|x| x.as_u64().map(|b| b as u8)).collect()
}

fn bytes_json(b: &[u8]) -> serde_json::Value {
    serde_json::Value::Array(b.iter().map(|x| serde_json::Value::from(*x)).collect())
}

/// Every type must refuse `w`.
fn all_refuse(eng: &Eng, w: &WrappedKey<CS>, what: &str, detail: &dyn Fn() -> String) -> CheckResult {
    for u in 0..NTYPES {
        if let Ok(id) = unwrap_as(u, eng, w) {
            return Err(Failure::new(
                format!("{what} unwrapped"),
                format!("as {} -> key id {id}; {}", type_name(u), detail()),
            ));
        }
    }
    Ok(())
}

fn check_type<T: Probe>(ti: usize, c: &Case, info: &mut CaseInfo) -> CheckResult {
    let eng = engine(c.seed, 0x36);
    let eng2 = engine(c.seed, 0x3636);
    let key = T::generate(&eng);
    let key_id = key.base_id();
    let w = eng.wrap(key.clone()).map_err(|e| Failure::new("wrap failed", e.to_string()))?;
    let wid = w.id().map_err(|e| Failure::new("wrapped id failed", e.to_string()))?;
    ensure!(wid == key_id, "wrapped key reports another id", "{} key={key_id} wrapped={wid}", T::NAME);
    info.label(format!("type_{}", T::NAME));

    // ---- pristine: through both serial forms, same id and behaviour
    let pc = to_pc(&w);
    let js = serde_json::to_value(&w).map_err(|e| Failure::new("wrapped key does not serialize", e.to_string()))?;
    let mut cb = Vec::new();
    ciborium::into_writer(&w, &mut cb).map_err(|e| Failure::new("wrapped key does not serialize", e.to_string()))?;
    let w_pc: WrappedKey<CS> = postcard::from_bytes(&pc).map_err(|e| Failure::new("pristine wrapped key does not deserialize", format!("postcard: {e}")))?;
    let w_js: WrappedKey<CS> = serde_json::from_value(js.clone()).map_err(|e| Failure::new("pristine wrapped key does not deserialize", format!("json: {e}")))?;
    let w_cb: WrappedKey<CS> = ciborium::from_reader(&cb[..]).map_err(|e| Failure::new("pristine wrapped key does not deserialize", format!("cbor: {e}")))?;
    for (form, wf) in [("direct", &w), ("postcard", &w_pc), ("json", &w_js), ("cbor", &w_cb)] {
        ensure!(to_pc(wf) == pc, "serialization round trip changed the wrapped key", "{form}");
        let k: T = eng.unwrap(wf).map_err(|e| Failure::new("pristine wrapped key does not unwrap", format!("{} via {form}: {e}", T::NAME)))?;
        ensure!(k.base_id() == key_id, "unwrapped key has another id", "{} via {form}: {} vs {key_id}", T::NAME, k.base_id());
        if form == "direct" || form == "postcard" {
            if let Err(e) = key.behaves_like(&k, &eng) {
                return Err(Failure::new("unwrapped key behaves differently", format!("{} via {form}: {e}", T::NAME)));
            }
        }
    }

    // ---- pristine as every other type; with another engine
    for u in 0..NTYPES {
        let r = unwrap_as(u, &eng, &w);
        if u == ti {
            ensure!(r.is_ok(), "pristine wrapped key does not unwrap", "{}: {r:?}", T::NAME);
        } else if type_kind(u) != T::KIND {
            ensure!(
                r.is_err(),
                "unwrapped as a different algorithm kind",
                "{} ({:?}) unwrapped as {} ({:?})",
                T::NAME,
                T::KIND,
                type_name(u),
                type_kind(u)
            );
        } else {
            // same kind, other type: the statement makes no claim; record what happens
            info.label(if r.is_ok() { "same_kind_other_type_unwraps" } else { "same_kind_other_type_refused" });
        }
    }
    all_refuse(&eng2, &w, "key wrapped by another engine", &|| T::NAME.to_string())?;

    // ---- layout of the postcard form (labels only)
    let ct_len = pc.len().saturating_sub(33 + 12 + 1 + 16);
    let region = |i: usize| -> &'static str {
        if i < 33 {
            "id"
        } else if i < 45 {
            "nonce"
        } else if i == 45 {
            "variant"
        } else if i < 46 + ct_len {
            "ciphertext"
        } else {
            "tag"
        }
    };

    // donors (lazily built)
    let mut donors: [Option<WrappedKey<CS>>; 2] = [None, None];

    let mut tested = 0;
    for (mi, m) in c.muts.iter().enumerate() {
        let mutated: Option<WrappedKey<CS>> = match m {
            WMut::Flip(fl) => {
                let mut b = pc.clone();
                for (pos, xor) in fl {
                    let i = idx(*pos, b.len());
                    b[i] ^= nz(*xor);
                    if fl.len() == 1 {
                        info.label(format!("flip_{}", region(i)));
                    }
                }
                if fl.len() > 1 {
                    info.label("flip_multi");
                }
                postcard::from_bytes(&b).ok()
            }
            WMut::Retag { to } => {
                let mut b = pc.clone();
                if b.len() > 45 {
                    b[45] = *to % 8;
                }
                info.label("retag_postcard");
                postcard::from_bytes(&b).ok()
            }
            WMut::RetagJson { to } => {
                let mut j = js.clone();
                let Some(obj) = j.get_mut("ciphertext").and_then(|c| c.as_object_mut()) else {
                    return Err(Failure::new("unexpected JSON shape of a wrapped key", js.to_string()));
                };
                let (k, v) = obj.iter().next().map(|(k, v)| (k.clone(), v.clone())).unwrap();
                let to = KIND_NAMES[idx(*to as u16 * 256, 6)];
                obj.remove(&k);
                obj.insert(to.to_string(), v);
                info.label("retag_json");
                serde_json::from_value(j).ok()
            }
            WMut::Splice { mask, from } => {
                let d = match from {
                    Donor::Rewrap => {
                        if donors[0].is_none() {
                            donors[0] = Some(eng.wrap(key.clone()).map_err(|e| Failure::new("wrap failed", e.to_string()))?);
                        }
                        info.label("splice_rewrap");
                        donors[0].clone().unwrap()
                    }
                    Donor::SameType => {
                        if donors[1].is_none() {
                            donors[1] = Some(eng.wrap(T::generate(&eng)).map_err(|e| Failure::new("wrap failed", e.to_string()))?);
                        }
                        info.label("splice_same_type");
                        donors[1].clone().unwrap()
                    }
                    Donor::OtherType(t) => {
                        info.label("splice_other_type");
                        fresh_wrapped(idx(*t, NTYPES), &eng)
                    }
                };
                let dj = serde_json::to_value(&d).unwrap();
                let mut j = js.clone();
                for (bit, f) in [(1u8, "id"), (2, "nonce"), (4, "ciphertext"), (8, "tag")] {
                    if mask & bit != 0 {
                        j[f] = dj[f].clone();
                    }
                }
                let r: Option<WrappedKey<CS>> = serde_json::from_value(j).ok();
                // taking everything that matters from the donor yields the donor itself: a valid key, not a forgery
                match r {
                    Some(r) if to_pc(&r) == to_pc(&d) => {
                        info.label("splice_is_donor");
                        continue;
                    }
                    r => r,
                }
            }
            WMut::Truncate { n } => {
                let n = (*n as usize).max(1).min(pc.len());
                info.label("truncate");
                postcard::from_bytes(&pc[..pc.len() - n]).ok()
            }
            WMut::Field { field, pos, xor } => {
                let mut j = js.clone();
                match field % 4 {
                    0 => {
                        let mut id = *key_id.as_array();
                        let i = idx(*pos, 32);
                        id[i] ^= nz(*xor);
                        j["id"] = serde_json::to_value(BaseId::from_bytes(id)).unwrap();
                        info.label("field_id");
                    }
                    f => {
                        let name = ["", "nonce", "ciphertext", "tag"][f as usize];
                        let slot = if f == 2 {
                            let Some(obj) = j.get_mut("ciphertext").and_then(|c| c.as_object_mut()) else {
                                return Err(Failure::new("unexpected JSON shape of a wrapped key", js.to_string()));
                            };
                            obj.values_mut().next().unwrap()
                        } else {
                            &mut j[name]
                        };
                        let Some(mut b) = json_bytes(slot) else {
                            return Err(Failure::new("unexpected JSON shape of a wrapped key", js.to_string()));
                        };
                        let i = idx(*pos, b.len());
                        b[i] ^= nz(*xor);
                        *slot = bytes_json(&b);
                        info.label(format!("field_{name}"));
                    }
                }
                match serde_json::from_value(j) {
                    Ok(w) => Some(w),
                    Err(e) => {
                        return Err(Failure::new("field-level modification does not deserialize", format!("{m:?}: {e}")));
                    }
                }
            }
        };
        let Some(mw) = mutated else {
            info.label("rejected_at_deserialization");
            continue;
        };
        if to_pc(&mw) == pc {
            info.label("same_wrapped_key_after_decode");
            continue;
        }
        tested += 1;
        all_refuse(&eng, &mw, "modified wrapped key", &|| format!("{} mutation#{mi} {m:?}", T::NAME))?;
        all_refuse(&eng2, &mw, "modified wrapped key", &|| format!("{} mutation#{mi} {m:?} (second engine)", T::NAME))?;
    }
    if tested >= 3 {
        info.nontrivial();
    }
    Ok(())
}

fn wmut() -> impl Strategy<Value = WMut> {
    prop_oneof![
        6 => (any::<u16>(), any::<u8>()).prop_map(|f| WMut::Flip(vec![f])),
        2 => prop::collection::vec((any::<u16>(), any::<u8>()), 2..5).prop_map(WMut::Flip),
        2 => (0u8..8).prop_map(|to| WMut::Retag { to }),
        3 => (0u8..6).prop_map(|to| WMut::RetagJson { to }),
        4 => (1u8..15, prop_oneof![
                2 => Just(Donor::Rewrap),
                2 => Just(Donor::SameType),
                2 => any::<u16>().prop_map(Donor::OtherType)
             ]).prop_map(|(mask, from)| WMut::Splice { mask, from }),
        1 => (1u8..20).prop_map(|n| WMut::Truncate { n }),
        4 => (0u8..4, any::<u16>(), any::<u8>()).prop_map(|(field, pos, xor)| WMut::Field { field, pos, xor }),
    ]
}

fn case() -> impl Strategy<Value = Case> {
    (any::<u64>(), any::<u16>(), prop::collection::vec(wmut(), 4..14)).prop_map(|(seed, ty, muts)| Case { seed, ty, muts })
}

pub fn run(ctx: &Ctx) -> ! {
    let mut rep = Report::new(ctx, "exploration");
    rep.assume("engine = DefaultEngine<_, DefaultCipherSuite> whose wrapping key, nonces and all generated keys come from a deterministic byte stream seeded by the case; the oracle does not depend on the values");
    rep.assume("AES-256-GCM, the KEM/signature primitives and serde are trusted; the check is about what is bound into the wrapping, not about the cipher");
    rep.assume("AEAD and MAC kinds are exercised with harness-defined key types made with the crate's public `unwrapped!` macro, because no key type in the crate uses them");
    rep.assume("unwrapping as a different key type of the SAME algorithm kind (e.g. SigningKey as IdentityKey) is outside the statement; its outcome is only recorded as a label");
    rep.explore(
        "wrap_unwrap",
        "per case: one of 11 key types (IdentityKey, SigningKey, apq SenderSigningKey | EncryptionKey, apq Sender/ReceiverSecretKey, \
         afc UniAuthorSecret | GroupKey | tls PskSeed | probe AEAD key | probe MAC key) wrapped by a seeded DefaultEngine; pristine form \
         must unwrap (directly and after postcard/JSON/CBOR round trips) to a key with the same id and interchangeable behaviour \
         (cross sign/verify, seal/open, derived PSKs, MAC), must be refused as every type of another algorithm kind and by a second \
         engine; then 4..13 modifications of the serialized form {1..4 byte flips anywhere in the postcard bytes, variant index \
         rewrite, JSON variant rename keeping the bytes, splice of any subset of id/nonce/ciphertext/tag from a re-wrap of the same \
         key / another key of the type / a key of another type, truncation, field-targeted byte flips}; every modified form that \
         still deserializes to a different wrapped key must be refused by BOTH engines as ALL 11 types. \
         non-trivial = >=3 deserializable modified forms tested",
        case,
        ctx.pick(12_000, 250_000),
        check_case,
    );
    rep.finish()
}
