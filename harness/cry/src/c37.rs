//! C37: encryption round-trips and is bound to its context (group keys, sealed group keys, sealed PSK seeds,
//! APQ topic keys and topic messages).
use aranya_crypto::{
    Context, Encap, EncryptedGroupKey, EncryptionKey, GroupKey, SigningKey,
    apq::{
        EncryptedTopicKey, ReceiverSecretKey, Sender, SenderSecretKey, SenderSigningKey, Topic, TopicKey, Version,
    },
    policy::{CmdId, GroupId, PolicyId},
    tls::{CipherSuiteId, EncryptedPskSeed, PskSeed},
};
use proptest::prelude::*;
use serde::{Deserialize, Serialize};
use vcommon::{CaseInfo, CheckResult, Ctx, Failure, Report, ensure, idx};

use crate::util::{CS, SeedRng, fill, flip};

fn f<E: std::fmt::Display>(sig: &'static str) -> impl Fn(E) -> Failure {
    move |e| Failure::new(sig, e.to_string())
}

#[derive(Clone, Debug, Serialize, Deserialize)]
enum Pt {
    Bytes(Vec<u8>),
    Fill { seed: u64, len: u16 },
}

impl Pt {
    fn bytes(&self) -> Vec<u8> {
        match self {
            Pt::Bytes(b) => b.clone(),
            Pt::Fill { seed, len } => fill(*seed, *len as usize),
        }
    }
}

fn pt() -> impl Strategy<Value = Pt> {
    prop_oneof![
        3 => prop::collection::vec(any::<u8>(), 0..48).prop_map(Pt::Bytes),
        1 => Just(Pt::Bytes(Vec::new())),
        3 => (any::<u64>(), 0u16..=4096).prop_map(|(seed, len)| Pt::Fill { seed, len }),
        1 => (any::<u64>(), prop::sample::select(vec![1u16, 15, 16, 17, 31, 32, 33, 4095, 4096])).prop_map(|(seed, len)| Pt::Fill { seed, len }),
    ]
}

fn flips() -> impl Strategy<Value = Vec<(u16, u8)>> {
    prop_oneof![
        4 => (any::<u16>(), any::<u8>()).prop_map(|x| vec![x]),
        1 => prop::collection::vec((any::<u16>(), any::<u8>()), 2..4),
    ]
}

fn apply_flips(v: &mut [u8], fl: &[(u16, u8)]) -> bool {
    let mut any = false;
    for (p, x) in fl {
        any |= flip(v, *p, *x).is_some();
    }
    any
}

// ------------------------------------------------------------------------------------------------
// symmetric: GroupKey::seal/open and TopicKey::seal_message/open_message

#[derive(Clone, Debug, Serialize, Deserialize)]
enum SMut {
    CtFlip(Vec<(u16, u8)>),
    CtTruncate { n: u16 },
    CtDropFront { n: u8 },
    CtExtend(Vec<u8>),
    /// ciphertext of another plaintext under the same key and context
    CtOther,
    LabelSet(String),
    LabelChar { pos: u16, c: char },
    LabelAppend(String),
    ParentFlip { pos: u16, xor: u8 },
    /// author verifying key (group) / sender signing key (topic)
    SignKeyOther,
    /// sender encryption key (topic only)
    EncKeyOther,
    /// open with another secret key
    KeyOther,
    VersionSet(u32),
    TopicFlip { pos: u16, xor: u8 },
}

impl SMut {
    fn kind(&self) -> &'static str {
        match self {
            SMut::CtFlip(_) => "ct_flip",
            SMut::CtTruncate { .. } | SMut::CtDropFront { .. } | SMut::CtExtend(_) => "ct_length",
            SMut::CtOther => "ct_other",
            SMut::LabelSet(_) | SMut::LabelChar { .. } | SMut::LabelAppend(_) => "label",
            SMut::ParentFlip { .. } => "parent",
            SMut::SignKeyOther => "author_or_sender_sign_key",
            SMut::EncKeyOther => "sender_enc_key",
            SMut::KeyOther => "secret_key",
            SMut::VersionSet(_) => "version",
            SMut::TopicFlip { .. } => "topic",
        }
    }
}

#[derive(Clone, Debug, Serialize, Deserialize)]
struct SCase {
    seed: u64,
    label: String,
    parent: [u8; 32],
    version: u32,
    topic: [u8; 16],
    pt: Pt,
    variants: Vec<Vec<SMut>>,
}

#[derive(Clone, PartialEq)]
struct SState {
    ct: Vec<u8>,
    label: String,
    parent: [u8; 32],
    version: u32,
    topic: [u8; 16],
    sign_other: bool,
    enc_other: bool,
    key_other: bool,
}

fn s_apply(m: &SMut, st: &mut SState, ct_other: &[u8], group: bool) -> bool {
    match m {
        SMut::CtFlip(fl) => apply_flips(&mut st.ct, fl),
        SMut::CtTruncate { n } => {
            let n = (*n as usize).max(1);
            if st.ct.is_empty() {
                return false;
            }
            let keep = st.ct.len().saturating_sub(n);
            st.ct.truncate(keep);
            true
        }
        SMut::CtDropFront { n } => {
            let n = (*n as usize).max(1).min(st.ct.len());
            if n == 0 {
                return false;
            }
            st.ct.drain(..n);
            true
        }
        SMut::CtExtend(b) => {
            if b.is_empty() {
                return false;
            }
            st.ct.extend_from_slice(b);
            true
        }
        SMut::CtOther => {
            st.ct = ct_other.to_vec();
            true
        }
        SMut::LabelSet(s) if group => {
            if *s == st.label {
                return false;
            }
            st.label = s.clone();
            true
        }
        SMut::LabelChar { pos, c } if group => {
            let mut cs: Vec<char> = st.label.chars().collect();
            if cs.is_empty() {
                return false;
            }
            let i = idx(*pos, cs.len());
            if cs[i] == *c {
                return false;
            }
            cs[i] = *c;
            st.label = cs.into_iter().collect();
            true
        }
        SMut::LabelAppend(s) if group => {
            if s.is_empty() {
                return false;
            }
            st.label.push_str(s);
            true
        }
        SMut::ParentFlip { pos, xor } if group => flip(&mut st.parent, *pos, *xor).is_some(),
        SMut::SignKeyOther => {
            st.sign_other = !st.sign_other;
            true
        }
        SMut::EncKeyOther if !group => {
            st.enc_other = !st.enc_other;
            true
        }
        SMut::KeyOther => {
            st.key_other = !st.key_other;
            true
        }
        SMut::VersionSet(v) if !group => {
            if *v == st.version {
                return false;
            }
            st.version = *v;
            true
        }
        SMut::TopicFlip { pos, xor } if !group => flip(&mut st.topic, *pos, *xor).is_some(),
        _ => false,
    }
}

fn check_sym(c: &SCase, info: &mut CaseInfo, group: bool) -> CheckResult {
    let rng = SeedRng::new(c.seed, 0x37);
    let plain = c.pt.bytes();
    let mut other_plain = plain.clone();
    other_plain.push(0x42);
    // keys
    // only the keys of the primitive under test are generated (P-256 key generation dominates the cost)
    let sign_a = SigningKey::<CS>::new(&rng).public().map_err(f("public() failed"))?;
    let sign_b = SigningKey::<CS>::new(&rng).public().map_err(f("public() failed"))?;
    let gk = [GroupKey::<CS>::new(&rng), GroupKey::<CS>::new(&rng)];
    let topic0 = Topic::from(c.topic);
    let mut ssk = Vec::new();
    let mut sek = Vec::new();
    let mut tk = Vec::new();
    if !group {
        for _ in 0..2 {
            ssk.push(SenderSigningKey::<CS>::new(&rng).public().map_err(f("public() failed"))?);
            sek.push(SenderSecretKey::<CS>::new(&rng).public().map_err(f("public() failed"))?);
            tk.push(TopicKey::<CS>::new(&rng, Version::new(c.version), &topic0).map_err(f("TopicKey::new failed"))?);
        }
    }
    let overhead = if group { gk[0].overhead() } else { tk[0].overhead() };

    let seal = |p: &[u8]| -> Result<Vec<u8>, Failure> {
        let mut dst = vec![0u8; p.len() + overhead];
        if group {
            gk[0]
                .seal(&rng, &mut dst, p, Context { label: &c.label, parent: CmdId::from_bytes(c.parent), author_sign_pk: &sign_a })
                .map_err(f("seal failed"))?;
        } else {
            tk[0]
                .seal_message(&rng, &mut dst, p, Version::new(c.version), &topic0, &Sender { enc_key: &sek[0], sign_key: &ssk[0] })
                .map_err(f("seal failed"))?;
        }
        Ok(dst)
    };
    let open = |st: &SState| -> Result<Vec<u8>, String> {
        let mut dst = vec![0u8; st.ct.len().saturating_sub(overhead)];
        let k = usize::from(st.key_other);
        if group {
            let author = if st.sign_other { &sign_b } else { &sign_a };
            gk[k]
                .open(&mut dst, &st.ct, Context { label: &st.label, parent: CmdId::from_bytes(st.parent), author_sign_pk: author })
                .map_err(|e| e.to_string())?;
        } else {
            let ident = Sender { enc_key: &sek[usize::from(st.enc_other)], sign_key: &ssk[usize::from(st.sign_other)] };
            tk[k]
                .open_message(&mut dst, &st.ct, Version::new(st.version), &Topic::from(st.topic), &ident)
                .map_err(|e| e.to_string())?;
        }
        Ok(dst)
    };

    let ct = seal(&plain)?;
    ensure!(ct.len() == plain.len() + overhead, "ciphertext length is not plaintext + overhead", "{} vs {}", ct.len(), plain.len());
    let base = SState {
        ct: ct.clone(),
        label: c.label.clone(),
        parent: c.parent,
        version: c.version,
        topic: c.topic,
        sign_other: false,
        enc_other: false,
        key_other: false,
    };
    let got = open(&base);
    ensure!(got.is_ok(), "round trip failed", "open of an untouched ciphertext: {got:?}");
    ensure!(got.as_ref().ok() == Some(&plain), "round trip changed the plaintext", "len {}", plain.len());
    info.label(match plain.len() {
        0 => "pt_empty",
        1..=64 => "pt_small",
        _ => "pt_large",
    });
    let ct_other = seal(&other_plain)?;

    let mut rejected = 0;
    for (vi, v) in c.variants.iter().enumerate() {
        let mut st = base.clone();
        let mut kinds = Vec::new();
        for m in v {
            if s_apply(m, &mut st, &ct_other, group) {
                kinds.push(m.kind());
            }
        }
        if st == base {
            info.label("variant_noop");
            continue;
        }
        kinds.sort_unstable();
        kinds.dedup();
        let r = open(&st);
        // the one valid combination: untouched context and the other message's own ciphertext
        let mut same_ctx = st.clone();
        same_ctx.ct = base.ct.clone();
        if same_ctx == base && st.ct == ct_other {
            ensure!(r.as_ref().ok() == Some(&other_plain), "round trip failed", "second message under the same context: {:?}", r.as_ref().err());
            info.label("variant_valid_other_message");
            continue;
        }
        ensure!(
            r.is_err(),
            "open accepted a modified ciphertext or context",
            "variant#{vi} kinds={kinds:?} muts={v:?} -> {} plaintext bytes",
            r.as_ref().map(|p| p.len()).unwrap_or(0)
        );
        rejected += 1;
        for k in &kinds {
            info.label(format!("rej_{k}"));
        }
        if kinds.len() > 1 || v.len() > 1 {
            info.label("rej_multi_point");
        }
    }
    if rejected >= 3 {
        info.nontrivial();
    }
    Ok(())
}

fn smut(group: bool) -> BoxedStrategy<SMut> {
    let ct = prop_oneof![
        8 => flips().prop_map(SMut::CtFlip),
        1 => (1u16..40).prop_map(|n| SMut::CtTruncate { n }),
        1 => (1u8..14).prop_map(|n| SMut::CtDropFront { n }),
        1 => prop::collection::vec(any::<u8>(), 1..4).prop_map(SMut::CtExtend),
        1 => Just(SMut::CtOther),
        2 => Just(SMut::KeyOther),
        2 => Just(SMut::SignKeyOther),
    ];
    if group {
        prop_oneof![
            5 => ct,
            1 => ".{0,12}".prop_map(SMut::LabelSet),
            2 => (any::<u16>(), any::<char>()).prop_map(|(pos, c)| SMut::LabelChar { pos, c }),
            1 => ".{1,3}".prop_map(SMut::LabelAppend),
            3 => (any::<u16>(), any::<u8>()).prop_map(|(pos, xor)| SMut::ParentFlip { pos, xor }),
        ]
        .boxed()
    } else {
        prop_oneof![
            5 => ct,
            2 => Just(SMut::EncKeyOther),
            2 => prop_oneof![any::<u32>(), 0u32..4].prop_map(SMut::VersionSet),
            3 => (any::<u16>(), any::<u8>()).prop_map(|(pos, xor)| SMut::TopicFlip { pos, xor }),
        ]
        .boxed()
    }
}

fn scase(group: bool) -> impl Strategy<Value = SCase> {
    let variant = prop_oneof![
        3 => prop::collection::vec(smut(group), 1..=1),
        1 => prop::collection::vec(smut(group), 2..=3),
    ];
    (
        any::<u64>(),
        prop_oneof![3 => ".{0,16}", 1 => Just(String::new()), 1 => "[a-zA-Z]{1,40}"],
        prop_oneof![3 => any::<[u8; 32]>(), 1 => Just([0u8; 32])],
        prop_oneof![2 => 0u32..4, 1 => any::<u32>()],
        any::<[u8; 16]>(),
        pt(),
        prop::collection::vec(variant, 2..12),
    )
        .prop_map(|(seed, label, parent, version, topic, pt, variants)| SCase { seed, label, parent, version, topic, pt, variants })
}

// ------------------------------------------------------------------------------------------------
// HPKE-sealed secrets: group key, PSK seed, topic key

#[derive(Clone, Copy, PartialEq, Debug)]
enum Prim {
    GroupKey,
    PskSeed,
    TopicKey,
}

#[derive(Clone, Debug, Serialize, Deserialize)]
enum HMut {
    EncFlip(Vec<(u16, u8)>),
    EncTruncate { n: u8 },
    /// the encapsulation of a second sealing to the same recipient
    EncOther,
    CtFlip(Vec<(u16, u8)>),
    CtTruncate { n: u8 },
    /// ciphertext of a second sealing (of another secret) to the same recipient
    CtOther,
    GroupFlip { pos: u16, xor: u8 },
    VersionSet(u32),
    TopicFlip { pos: u16, xor: u8 },
    /// open with another recipient secret key
    RecipientOther,
    /// (authenticated modes) claim another sender public key
    SenderOther,
}

impl HMut {
    fn kind(&self) -> &'static str {
        match self {
            HMut::EncFlip(_) | HMut::EncTruncate { .. } => "encap_bytes",
            HMut::EncOther => "encap_other",
            HMut::CtFlip(_) | HMut::CtTruncate { .. } => "ct_bytes",
            HMut::CtOther => "ct_other",
            HMut::GroupFlip { .. } => "group",
            HMut::VersionSet(_) => "version",
            HMut::TopicFlip { .. } => "topic",
            HMut::RecipientOther => "recipient_key",
            HMut::SenderOther => "sender_key",
        }
    }
}

#[derive(Clone, Debug, Serialize, Deserialize)]
struct HCase {
    seed: u64,
    group: [u8; 32],
    version: u32,
    topic: [u8; 16],
    variants: Vec<Vec<HMut>>,
}

#[derive(Clone, PartialEq)]
struct HState {
    enc: Vec<u8>,
    ct: Vec<u8>,
    group: [u8; 32],
    version: u32,
    topic: [u8; 16],
    recipient_other: bool,
    sender_other: bool,
}

fn h_apply(m: &HMut, st: &mut HState, other: &(Vec<u8>, Vec<u8>), prim: Prim) -> bool {
    match m {
        HMut::EncFlip(fl) => apply_flips(&mut st.enc, fl),
        HMut::EncTruncate { n } => {
            let n = (*n as usize).max(1).min(st.enc.len());
            if n == 0 {
                return false;
            }
            st.enc.truncate(st.enc.len() - n);
            true
        }
        HMut::EncOther => {
            st.enc = other.0.clone();
            true
        }
        HMut::CtFlip(fl) => apply_flips(&mut st.ct, fl),
        HMut::CtTruncate { n } => {
            let n = (*n as usize).max(1).min(st.ct.len());
            if n == 0 {
                return false;
            }
            st.ct.truncate(st.ct.len() - n);
            true
        }
        HMut::CtOther => {
            st.ct = other.1.clone();
            true
        }
        HMut::GroupFlip { pos, xor } if prim != Prim::TopicKey => flip(&mut st.group, *pos, *xor).is_some(),
        HMut::VersionSet(v) if prim == Prim::TopicKey => {
            if *v == st.version {
                return false;
            }
            st.version = *v;
            true
        }
        HMut::TopicFlip { pos, xor } if prim == Prim::TopicKey => flip(&mut st.topic, *pos, *xor).is_some(),
        HMut::RecipientOther => {
            st.recipient_other = !st.recipient_other;
            true
        }
        HMut::SenderOther if prim != Prim::GroupKey => {
            st.sender_other = !st.sender_other;
            true
        }
        _ => false,
    }
}

/// What `open` produced: an identifier of the recovered secret.
type Opened = Result<[u8; 32], String>;

fn check_hpke(c: &HCase, info: &mut CaseInfo, prim: Prim) -> CheckResult {
    let rng = SeedRng::new(c.seed, 0x3737);
    let group0 = GroupId::from_bytes(c.group);
    let topic0 = Topic::from(c.topic);
    let v0 = Version::new(c.version);
    // recipients / senders; only the keys of the primitive under test are generated
    let n_ek = match prim { Prim::GroupKey => 2, Prim::PskSeed => 3, Prim::TopicKey => 0 };
    let mut ek = Vec::new();
    let mut ekp = Vec::new();
    for _ in 0..n_ek {
        let k = EncryptionKey::<CS>::new(&rng);
        ekp.push(k.public().map_err(f("public() failed"))?);
        ek.push(k);
    }
    let (mut rk, mut sk, mut skp) = (Vec::new(), Vec::new(), Vec::new());
    let (mut gks, mut seeds, mut tks) = (Vec::new(), Vec::new(), Vec::new());
    for _ in 0..2 {
        match prim {
            Prim::GroupKey => gks.push(GroupKey::<CS>::new(&rng)),
            Prim::PskSeed => seeds.push(PskSeed::<CS>::new(&rng, &group0)),
            Prim::TopicKey => {
                rk.push(ReceiverSecretKey::<CS>::new(&rng));
                let s = SenderSecretKey::<CS>::new(&rng);
                skp.push(s.public().map_err(f("public() failed"))?);
                sk.push(s);
                tks.push(TopicKey::<CS>::new(&rng, v0, &topic0).map_err(f("TopicKey::new failed"))?);
            }
        }
    }
    use aranya_crypto::Identified as _;
    let secret_id = |i: usize| -> Result<[u8; 32], Failure> {
        Ok(match prim {
            Prim::GroupKey => *gks[i].id().map_err(f("id failed"))?.as_array(),
            Prim::PskSeed => *seeds[i].id().map_err(f("id failed"))?.as_array(),
            Prim::TopicKey => *tks[i].id().map_err(f("id failed"))?.as_array(),
        })
    };

    // seal secret #i for recipient 0 (sender 0 / ek[2] in the authenticated modes)
    let seal = |i: usize| -> Result<(Vec<u8>, Vec<u8>), Failure> {
        Ok(match prim {
            Prim::GroupKey => {
                let (enc, ct) = ekp[0].seal_group_key(&rng, &gks[i], group0).map_err(f("seal failed"))?;
                (enc.as_bytes().to_vec(), postcard::to_allocvec(&ct).map_err(f("ciphertext does not serialize"))?)
            }
            Prim::PskSeed => {
                let (enc, ct) = ek[2].seal_psk_seed(&rng, &seeds[i], &ekp[0], &group0).map_err(f("seal failed"))?;
                (enc.as_bytes().to_vec(), postcard::to_allocvec(&ct).map_err(f("ciphertext does not serialize"))?)
            }
            Prim::TopicKey => {
                let (enc, ct) = rk[0]
                    .public()
                    .map_err(f("public() failed"))?
                    .seal_topic_key(&rng, v0, &topic0, &sk[0], &tks[i])
                    .map_err(f("seal failed"))?;
                (enc.as_bytes().to_vec(), ct.as_bytes().to_vec())
            }
        })
    };
    let open = |st: &HState| -> Opened {
        let enc = Encap::<CS>::from_bytes(&st.enc).map_err(|e| format!("encap import: {e}"))?;
        let r = usize::from(st.recipient_other);
        match prim {
            Prim::GroupKey => {
                let ct: EncryptedGroupKey<CS> = postcard::from_bytes(&st.ct).map_err(|e| format!("ciphertext decode: {e}"))?;
                let k = ek[r].open_group_key(&enc, ct, GroupId::from_bytes(st.group)).map_err(|e| e.to_string())?;
                Ok(*k.id().map_err(|e| e.to_string())?.as_array())
            }
            Prim::PskSeed => {
                let ct: EncryptedPskSeed<CS> = postcard::from_bytes(&st.ct).map_err(|e| format!("ciphertext decode: {e}"))?;
                let peer = if st.sender_other { &ekp[1] } else { &ekp[2] };
                let s = ek[r].open_psk_seed(&enc, ct, peer, &GroupId::from_bytes(st.group)).map_err(|e| e.to_string())?;
                Ok(*s.id().map_err(|e| e.to_string())?.as_array())
            }
            Prim::TopicKey => {
                let ct = EncryptedTopicKey::<CS>::from_bytes(&st.ct).map_err(|e| format!("ciphertext decode: {e}"))?;
                let k = rk[r]
                    .open_topic_key(Version::new(st.version), &Topic::from(st.topic), &skp[usize::from(st.sender_other)], &enc, &ct)
                    .map_err(|e| e.to_string())?;
                Ok(*k.id().map_err(|e| e.to_string())?.as_array())
            }
        }
    };

    let (enc, ct) = seal(0)?;
    let base = HState {
        enc: enc.clone(),
        ct: ct.clone(),
        group: c.group,
        version: c.version,
        topic: c.topic,
        recipient_other: false,
        sender_other: false,
    };
    let id0 = secret_id(0)?;
    let got = open(&base);
    ensure!(got.is_ok(), "round trip failed", "{prim:?}: {got:?}");
    ensure!(got == Ok(id0), "round trip returned another secret", "{prim:?}");

    // the recovered secret is usable in place of the original
    match prim {
        Prim::GroupKey => {
            let e = Encap::<CS>::from_bytes(&enc).map_err(f("encap import failed"))?;
            let ctv: EncryptedGroupKey<CS> = postcard::from_bytes(&ct).map_err(f("ciphertext decode failed"))?;
            let k = ek[0].open_group_key(&e, ctv, group0).map_err(f("round trip failed"))?;
            let author = SigningKey::<CS>::new(&rng).public().map_err(f("public() failed"))?;
            let cx = || Context { label: "x", parent: CmdId::from_bytes(c.group), author_sign_pk: &author };
            let mut sealed = vec![0u8; 5 + k.overhead()];
            gks[0].seal(&rng, &mut sealed, b"hello", cx()).map_err(f("seal failed"))?;
            let mut out = vec![0u8; 5];
            k.open(&mut out, &sealed, cx()).map_err(f("recovered group key cannot open the original's ciphertext"))?;
            ensure!(out == b"hello", "round trip changed the plaintext", "group key");
        }
        Prim::PskSeed => {
            let e = Encap::<CS>::from_bytes(&enc).map_err(f("encap import failed"))?;
            let ctv: EncryptedPskSeed<CS> = postcard::from_bytes(&ct).map_err(f("ciphertext decode failed"))?;
            let s = ek[0].open_psk_seed(&e, ctv, &ekp[2], &group0).map_err(f("round trip failed"))?;
            let p = PolicyId::from_bytes(c.group);
            let a: Vec<_> = s.generate_psks(b"ctx", group0, p, CipherSuiteId::all().iter().copied()).collect();
            let b: Vec<_> = seeds[0].clone().generate_psks(b"ctx", group0, p, CipherSuiteId::all().iter().copied()).collect();
            for (x, y) in a.into_iter().zip(b) {
                let (x, y) = (x.map_err(f("psk failed"))?, y.map_err(f("psk failed"))?);
                ensure!(x.raw_secret_bytes() == y.raw_secret_bytes(), "recovered PSK seed derives other PSKs", "");
            }
        }
        Prim::TopicKey => {
            let e = Encap::<CS>::from_bytes(&enc).map_err(f("encap import failed"))?;
            let ctv = EncryptedTopicKey::<CS>::from_bytes(&ct).map_err(f("ciphertext decode failed"))?;
            let k = rk[0].open_topic_key(v0, &topic0, &skp[0], &e, &ctv).map_err(f("round trip failed"))?;
            let ssk = SenderSigningKey::<CS>::new(&rng).public().map_err(f("public() failed"))?;
            let ident = Sender { enc_key: &skp[0], sign_key: &ssk };
            let mut sealed = vec![0u8; 5 + k.overhead()];
            tks[0].seal_message(&rng, &mut sealed, b"hello", v0, &topic0, &ident).map_err(f("seal failed"))?;
            let mut out = vec![0u8; 5];
            k.open_message(&mut out, &sealed, v0, &topic0, &ident).map_err(f("recovered topic key cannot open the original's message"))?;
            ensure!(out == b"hello", "round trip changed the plaintext", "topic key");
        }
    }

    let other = seal(1)?;
    let id1 = secret_id(1)?;

    let mut rejected = 0;
    for (vi, v) in c.variants.iter().enumerate() {
        let mut st = base.clone();
        let mut kinds = Vec::new();
        for m in v {
            if h_apply(m, &mut st, &other, prim) {
                kinds.push(m.kind());
            }
        }
        if st == base {
            info.label("variant_noop");
            continue;
        }
        kinds.sort_unstable();
        kinds.dedup();
        let r = open(&st);
        // taking BOTH halves of the second sealing is that sealing: valid, yields the second secret
        let mut rest = st.clone();
        rest.enc = base.enc.clone();
        rest.ct = base.ct.clone();
        if rest == base && st.enc == other.0 && st.ct == other.1 {
            ensure!(r == Ok(id1), "round trip failed", "second sealing: {r:?}");
            info.label("variant_valid_second_sealing");
            continue;
        }
        if let Err(e) = &r {
            if e.starts_with("encap import") {
                info.label("encap_rejected_at_import");
            } else if e.starts_with("ciphertext decode") {
                info.label("ct_rejected_at_decode");
            }
        }
        ensure!(
            r.is_err(),
            "open accepted a modified ciphertext or context",
            "{prim:?} variant#{vi} kinds={kinds:?} muts={v:?} -> secret {}",
            match &r {
                Ok(i) if *i == id0 => "== original",
                Ok(i) if *i == id1 => "== second secret",
                _ => "other",
            }
        );
        rejected += 1;
        for k in &kinds {
            info.label(format!("rej_{k}"));
        }
        if kinds.len() > 1 || v.len() > 1 {
            info.label("rej_multi_point");
        }
    }
    if rejected >= 3 {
        info.nontrivial();
    }
    Ok(())
}

fn hmut(prim: Prim) -> BoxedStrategy<HMut> {
    let common = prop_oneof![
        4 => flips().prop_map(HMut::EncFlip),
        1 => (1u8..8).prop_map(|n| HMut::EncTruncate { n }),
        2 => Just(HMut::EncOther),
        5 => flips().prop_map(HMut::CtFlip),
        1 => (1u8..8).prop_map(|n| HMut::CtTruncate { n }),
        2 => Just(HMut::CtOther),
        2 => Just(HMut::RecipientOther),
    ];
    match prim {
        Prim::GroupKey => prop_oneof![
            4 => common,
            2 => (any::<u16>(), any::<u8>()).prop_map(|(pos, xor)| HMut::GroupFlip { pos, xor }),
        ]
        .boxed(),
        Prim::PskSeed => prop_oneof![
            4 => common,
            2 => (any::<u16>(), any::<u8>()).prop_map(|(pos, xor)| HMut::GroupFlip { pos, xor }),
            1 => Just(HMut::SenderOther),
        ]
        .boxed(),
        Prim::TopicKey => prop_oneof![
            4 => common,
            1 => prop_oneof![any::<u32>(), 0u32..4].prop_map(HMut::VersionSet),
            2 => (any::<u16>(), any::<u8>()).prop_map(|(pos, xor)| HMut::TopicFlip { pos, xor }),
            1 => Just(HMut::SenderOther),
        ]
        .boxed(),
    }
}

fn hcase(prim: Prim) -> impl Strategy<Value = HCase> {
    let variant = prop_oneof![
        3 => prop::collection::vec(hmut(prim), 1..=1),
        1 => prop::collection::vec(hmut(prim), 2..=3),
    ];
    (
        any::<u64>(),
        prop_oneof![3 => any::<[u8; 32]>(), 1 => Just([0u8; 32])],
        prop_oneof![2 => 0u32..4, 1 => any::<u32>()],
        any::<[u8; 16]>(),
        prop::collection::vec(variant, 2..10),
    )
        .prop_map(|(seed, group, version, topic, variants)| HCase { seed, group, version, topic, variants })
}

pub fn run(ctx: &Ctx) -> ! {
    let mut rep = Report::new(ctx, "exploration");
    rep.assume("all keys, nonces and HPKE ephemeral keys come from a deterministic byte stream seeded by the case; the oracle does not depend on the values");
    rep.assume("cipher suite = DefaultCipherSuite (AES-256-GCM, HKDF-SHA-512, DHKEM-P256); the primitives themselves are trusted, the check is about what is bound into each operation");
    rep.assume("GroupKey Context has no boundary-shift modification: parent and author id are fixed-width, so no two distinct contexts share a concatenation");
    let n_sym = ctx.pick(12_000, 250_000);
    let n_h = ctx.pick(1_500, 30_000);
    rep.explore(
        "group_key_seal_open",
        "GroupKey::seal/open: plaintext 0..4096 B (incl. 0, block-size edges), label (unicode/empty), parent, author key; 2..11 single \
         or 2..3-point modifications of {ciphertext byte flips (nonce, body, tag), truncation, dropped prefix, extension, ciphertext of \
         another message, label set/char/append, parent byte, other author key, other group key}. Oracle: untouched opens to the exact \
         plaintext with len = pt+overhead; every modification is Err. non-trivial = >=3 modifications rejected",
        || scase(true),
        n_sym,
        |c, i| check_sym(c, i, true),
    );
    rep.explore(
        "topic_message_seal_open",
        "TopicKey::seal_message/open_message: same ciphertext modifications plus {version, topic byte, other sender encryption key, \
         other sender signing key, other topic key}",
        || scase(false),
        n_sym,
        |c, i| check_sym(c, i, false),
    );
    rep.explore(
        "sealed_group_key",
        "EncryptionPublicKey::seal_group_key / EncryptionKey::open_group_key: modifications of {encapsulation bytes / truncation / \
         encapsulation of a second sealing, serialized ciphertext+tag bytes / truncation / ciphertext of a second sealing, group id byte, \
         other recipient key}. Oracle: untouched recovers a key with the same id that opens the original's ciphertext; both halves of \
         the second sealing recover the second key; everything else Err",
        || hcase(Prim::GroupKey),
        n_h,
        |c, i| check_hpke(c, i, Prim::GroupKey),
    );
    rep.explore(
        "sealed_psk_seed",
        "EncryptionKey::seal_psk_seed/open_psk_seed (authenticated HPKE): as above plus {other claimed sender key}; recovered seed \
         derives identical PSKs",
        || hcase(Prim::PskSeed),
        n_h,
        |c, i| check_hpke(c, i, Prim::PskSeed),
    );
    rep.explore(
        "sealed_topic_key",
        "apq ReceiverPublicKey::seal_topic_key / ReceiverSecretKey::open_topic_key: as above with {version, topic byte, other sender \
         key, other receiver key}; recovered topic key opens the original's message",
        || hcase(Prim::TopicKey),
        n_h,
        |c, i| check_hpke(c, i, Prim::TopicKey),
    );
    rep.finish()
}
