//! C37: encryption round-trips and is bound to its context (group keys, sealed group keys, sealed PSK seeds,
//! APQ topic keys and topic messages).
use aranya_crypto::{
    Context, Encap, EncryptedGroupKey, EncryptionKey, EncryptionPublicKey, Engine as _, GroupKey, SigningKey, VerifyingKey,
    apq::{
        EncryptedTopicKey, ReceiverPublicKey, ReceiverSecretKey, Sender, SenderPublicKey, SenderSecretKey, SenderSigningKey,
        SenderVerifyingKey, Topic, TopicKey, Version,
    },
    policy::{CmdId, GroupId, PolicyId},
    tls::{CipherSuiteId, EncryptedPskSeed, PskSeed},
};
use proptest::prelude::*;
use serde::{Deserialize, Serialize};
use vcommon::{CaseInfo, CheckResult, Ctx, Failure, Report, ensure, idx};

use crate::util::{CS, Eng, SeedRng, engine, fill, flip};

fn f<E: std::fmt::Display>(sig: &'static str) -> impl Fn(E) -> Failure {
    move |e| Failure::new(sig, e.to_string())
}

#[derive(Clone, Debug, Serialize, Deserialize)]
enum Pt {
    Bytes(Vec<u8>),
    Fill { seed: u64, len: u16 },
}

impl Pt {
    fn bytes(&self) -> Vec<u8> {
        match self {
            Pt::Bytes(b) => b.clone(),
            Pt::Fill { seed, len } => fill(*seed, *len as usize),
        }
    }
}

fn pt() -> impl Strategy<Value = Pt> {
    prop_oneof![
        3 => prop::collection::vec(any::<u8>(), 0..48).prop_map(Pt::Bytes),
        1 => Just(Pt::Bytes(Vec::new())),
        3 => (any::<u64>(), 0u16..=4096).prop_map(|(seed, len)| Pt::Fill { seed, len }),
        1 => (any::<u64>(), prop::sample::select(vec![1u16, 15, 16, 17, 31, 32, 33, 4095, 4096])).prop_map(|(seed, len)| Pt::Fill { seed, len }),
    ]
}

fn flips() -> impl Strategy<Value = Vec<(u16, u8)>> {
    prop_oneof![
        4 => (any::<u16>(), any::<u8>()).prop_map(|x| vec![x]),
        1 => prop::collection::vec((any::<u16>(), any::<u8>()), 2..4),
    ]
}

fn apply_flips(v: &mut [u8], fl: &[(u16, u8)]) -> bool {
    let mut any = false;
    for (p, x) in fl {
        any |= flip(v, *p, *x).is_some();
    }
    any
}

// ------------------------------------------------------------------------------------------------
// symmetric: GroupKey::seal/open and TopicKey::seal_message/open_message

#[derive(Clone, Debug, Serialize, Deserialize)]
enum SMut {
    CtFlip(Vec<(u16, u8)>),
    CtTruncate { n: u16 },
    CtDropFront { n: u8 },
    CtExtend(Vec<u8>),
    /// ciphertext of another plaintext under the same key and context
    CtOther,
    LabelSet(String),
    LabelChar { pos: u16, c: char },
    LabelAppend(String),
    ParentFlip { pos: u16, xor: u8 },
    /// author verifying key (group) / sender signing key (topic)
    SignKeyOther,
    /// sender encryption key (topic only)
    EncKeyOther,
    /// open with another secret key
    KeyOther,
    VersionSet(u32),
    TopicFlip { pos: u16, xor: u8 },
}

impl SMut {
    fn kind(&self) -> &'static str {
        match self {
            SMut::CtFlip(_) => "ct_flip",
            SMut::CtTruncate { .. } | SMut::CtDropFront { .. } | SMut::CtExtend(_) => "ct_length",
            SMut::CtOther => "ct_other",
            SMut::LabelSet(_) | SMut::LabelChar { .. } | SMut::LabelAppend(_) => "label",
            SMut::ParentFlip { .. } => "parent",
            SMut::SignKeyOther => "author_or_sender_sign_key",
            SMut::EncKeyOther => "sender_enc_key",
            SMut::KeyOther => "secret_key",
            SMut::VersionSet(_) => "version",
            SMut::TopicFlip { .. } => "topic",
        }
    }
}

#[derive(Clone, Debug, Serialize, Deserialize)]
struct SCase {
    seed: u64,
    label: String,
    parent: [u8; 32],
    version: u32,
    topic: [u8; 16],
    pt: Pt,
    variants: Vec<Vec<SMut>>,
}

#[derive(Clone, PartialEq)]
struct SState {
    ct: Vec<u8>,
    label: String,
    parent: [u8; 32],
    version: u32,
    topic: [u8; 16],
    sign_other: bool,
    enc_other: bool,
    key_other: bool,
}

fn s_apply(m: &SMut, st: &mut SState, ct_other: &[u8], group: bool) -> bool {
    match m {
        SMut::CtFlip(fl) => apply_flips(&mut st.ct, fl),
        SMut::CtTruncate { n } => {
            let n = (*n as usize).max(1);
            if st.ct.is_empty() {
                return false;
            }
            let keep = st.ct.len().saturating_sub(n);
            st.ct.truncate(keep);
            true
        }
        SMut::CtDropFront { n } => {
            let n = (*n as usize).max(1).min(st.ct.len());
            if n == 0 {
                return false;
            }
            st.ct.drain(..n);
            true
        }
        SMut::CtExtend(b) => {
            if b.is_empty() {
                return false;
            }
            st.ct.extend_from_slice(b);
            true
        }
        SMut::CtOther => {
            st.ct = ct_other.to_vec();
            true
        }
        SMut::LabelSet(s) if group => {
            if *s == st.label {
                return false;
            }
            st.label = s.clone();
            true
        }
        SMut::LabelChar { pos, c } if group => {
            let mut cs: Vec<char> = st.label.chars().collect();
            if cs.is_empty() {
                return false;
            }
            let i = idx(*pos, cs.len());
            if cs[i] == *c {
                return false;
            }
            cs[i] = *c;
            st.label = cs.into_iter().collect();
            true
        }
        SMut::LabelAppend(s) if group => {
            if s.is_empty() {
                return false;
            }
            st.label.push_str(s);
            true
        }
        SMut::ParentFlip { pos, xor } if group => flip(&mut st.parent, *pos, *xor).is_some(),
        SMut::SignKeyOther => {
            st.sign_other = !st.sign_other;
            true
        }
        SMut::EncKeyOther if !group => {
            st.enc_other = !st.enc_other;
            true
        }
        SMut::KeyOther => {
            st.key_other = !st.key_other;
            true
        }
        SMut::VersionSet(v) if !group => {
            if *v == st.version {
                return false;
            }
            st.version = *v;
            true
        }
        SMut::TopicFlip { pos, xor } if !group => flip(&mut st.topic, *pos, *xor).is_some(),
        _ => false,
    }
}

fn check_sym(c: &SCase, info: &mut CaseInfo, group: bool) -> CheckResult {
    let rng = SeedRng::new(c.seed, 0x37);
    let plain = c.pt.bytes();
    let mut other_plain = plain.clone();
    other_plain.push(0x42);
    // keys
    // only the keys of the primitive under test are generated (P-256 key generation dominates the cost)
    let sign_a = SigningKey::<CS>::new(&rng).public().map_err(f("public() failed"))?;
    let sign_b = SigningKey::<CS>::new(&rng).public().map_err(f("public() failed"))?;
    let gk = [GroupKey::<CS>::new(&rng), GroupKey::<CS>::new(&rng)];
    let topic0 = Topic::from(c.topic);
    let mut ssk = Vec::new();
    let mut sek = Vec::new();
    let mut tk = Vec::new();
    if !group {
        for _ in 0..2 {
            ssk.push(SenderSigningKey::<CS>::new(&rng).public().map_err(f("public() failed"))?);
            sek.push(SenderSecretKey::<CS>::new(&rng).public().map_err(f("public() failed"))?);
            tk.push(TopicKey::<CS>::new(&rng, Version::new(c.version), &topic0).map_err(f("TopicKey::new failed"))?);
        }
    }
    let overhead = if group { gk[0].overhead() } else { tk[0].overhead() };

    let seal = |p: &[u8]| -> Result<Vec<u8>, Failure> {
        let mut dst = vec![0u8; p.len() + overhead];
        if group {
            gk[0]
                .seal(&rng, &mut dst, p, Context { label: &c.label, parent: CmdId::from_bytes(c.parent), author_sign_pk: &sign_a })
                .map_err(f("seal failed"))?;
        } else {
            tk[0]
                .seal_message(&rng, &mut dst, p, Version::new(c.version), &topic0, &Sender { enc_key: &sek[0], sign_key: &ssk[0] })
                .map_err(f("seal failed"))?;
        }
        Ok(dst)
    };
    let open = |st: &SState| -> Result<Vec<u8>, String> {
        let mut dst = vec![0u8; st.ct.len().saturating_sub(overhead)];
        let k = usize::from(st.key_other);
        if group {
            let author = if st.sign_other { &sign_b } else { &sign_a };
            gk[k]
                .open(&mut dst, &st.ct, Context { label: &st.label, parent: CmdId::from_bytes(st.parent), author_sign_pk: author })
                .map_err(|e| e.to_string())?;
        } else {
            let ident = Sender { enc_key: &sek[usize::from(st.enc_other)], sign_key: &ssk[usize::from(st.sign_other)] };
            tk[k]
                .open_message(&mut dst, &st.ct, Version::new(st.version), &Topic::from(st.topic), &ident)
                .map_err(|e| e.to_string())?;
        }
        Ok(dst)
    };

    let ct = seal(&plain)?;
    ensure!(ct.len() == plain.len() + overhead, "ciphertext length is not plaintext + overhead", "{} vs {}", ct.len(), plain.len());
    let base = SState {
        ct: ct.clone(),
        label: c.label.clone(),
        parent: c.parent,
        version: c.version,
        topic: c.topic,
        sign_other: false,
        enc_other: false,
        key_other: false,
    };
    let got = open(&base);
    ensure!(got.is_ok(), "round trip failed", "open of an untouched ciphertext: {got:?}");
    ensure!(got.as_ref().ok() == Some(&plain), "round trip changed the plaintext", "len {}", plain.len());
    info.label(match plain.len() {
        0 => "pt_empty",
        1..=64 => "pt_small",
        _ => "pt_large",
    });
    let ct_other = seal(&other_plain)?;

    let mut rejected = 0;
    for (vi, v) in c.variants.iter().enumerate() {
        let mut st = base.clone();
        let mut kinds = Vec::new();
        for m in v {
            if s_apply(m, &mut st, &ct_other, group) {
                kinds.push(m.kind());
            }
        }
        if st == base {
            info.label("variant_noop");
            continue;
        }
        kinds.sort_unstable();
        kinds.dedup();
        let r = open(&st);
        // the one valid combination: untouched context and the other message's own ciphertext
        let mut same_ctx = st.clone();
        same_ctx.ct = base.ct.clone();
        if same_ctx == base && st.ct == ct_other {
            ensure!(r.as_ref().ok() == Some(&other_plain), "round trip failed", "second message under the same context: {:?}", r.as_ref().err());
            info.label("variant_valid_other_message");
            continue;
        }
        ensure!(
            r.is_err(),
            "open accepted a modified ciphertext or context",
            "variant#{vi} kinds={kinds:?} muts={v:?} -> {} plaintext bytes",
            r.as_ref().map(|p| p.len()).unwrap_or(0)
        );
        rejected += 1;
        for k in &kinds {
            info.label(format!("rej_{k}"));
        }
        if kinds.len() > 1 || v.len() > 1 {
            info.label("rej_multi_point");
        }
    }
    if rejected >= 3 {
        info.nontrivial();
    }
    Ok(())
}

fn smut(group: bool) -> BoxedStrategy<SMut> {
    let ct = prop_oneof![
        8 => flips().prop_map(SMut::CtFlip),
        1 => (1u16..40).prop_map(|n| SMut::CtTruncate { n }),
        1 => (1u8..14).prop_map(|n| SMut::CtDropFront { n }),
        1 => prop::collection::vec(any::<u8>(), 1..4).prop_map(SMut::CtExtend),
        1 => Just(SMut::CtOther),
        2 => Just(SMut::KeyOther),
        2 => Just(SMut::SignKeyOther),
    ];
    if group {
        prop_oneof![
            5 => ct,
            1 => ".{0,12}".prop_map(SMut::LabelSet),
            2 => (any::<u16>(), any::<char>()).prop_map(|(pos, c)| SMut::LabelChar { pos, c }),
            1 => ".{1,3}".prop_map(SMut::LabelAppend),
            3 => (any::<u16>(), any::<u8>()).prop_map(|(pos, xor)| SMut::ParentFlip { pos, xor }),
        ]
        .boxed()
    } else {
        prop_oneof![
            5 => ct,
            2 => Just(SMut::EncKeyOther),
            2 => prop_oneof![any::<u32>(), 0u32..4].prop_map(SMut::VersionSet),
            3 => (any::<u16>(), any::<u8>()).prop_map(|(pos, xor)| SMut::TopicFlip { pos, xor }),
        ]
        .boxed()
    }
}

fn scase(group: bool) -> impl Strategy<Value = SCase> {
    let variant = prop_oneof![
        3 => prop::collection::vec(smut(group), 1..=1),
        1 => prop::collection::vec(smut(group), 2..=3),
    ];
    (
        any::<u64>(),
        prop_oneof![3 => ".{0,16}", 1 => Just(String::new()), 1 => "[a-zA-Z]{1,40}"],
        prop_oneof![3 => any::<[u8; 32]>(), 1 => Just([0u8; 32])],
        prop_oneof![2 => 0u32..4, 1 => any::<u32>()],
        any::<[u8; 16]>(),
        pt(),
        prop::collection::vec(variant, 2..12),
    )
        .prop_map(|(seed, label, parent, version, topic, pt, variants)| SCase { seed, label, parent, version, topic, pt, variants })
}

// ------------------------------------------------------------------------------------------------
// HPKE-sealed secrets: group key, PSK seed, topic key

#[derive(Clone, Copy, PartialEq, Debug)]
enum Prim {
    GroupKey,
    PskSeed,
    TopicKey,
}

#[derive(Clone, Debug, Serialize, Deserialize)]
enum HMut {
    EncFlip(Vec<(u16, u8)>),
    EncTruncate { n: u8 },
    /// the encapsulation of a second sealing to the same recipient
    EncOther,
    CtFlip(Vec<(u16, u8)>),
    CtTruncate { n: u8 },
    /// ciphertext of a second sealing (of another secret) to the same recipient
    CtOther,
    GroupFlip { pos: u16, xor: u8 },
    VersionSet(u32),
    TopicFlip { pos: u16, xor: u8 },
    /// open with another recipient secret key
    RecipientOther,
    /// (authenticated modes) claim another sender public key
    SenderOther,
}

impl HMut {
    fn kind(&self) -> &'static str {
        match self {
            HMut::EncFlip(_) | HMut::EncTruncate { .. } => "encap_bytes",
            HMut::EncOther => "encap_other",
            HMut::CtFlip(_) | HMut::CtTruncate { .. } => "ct_bytes",
            HMut::CtOther => "ct_other",
            HMut::GroupFlip { .. } => "group",
            HMut::VersionSet(_) => "version",
            HMut::TopicFlip { .. } => "topic",
            HMut::RecipientOther => "recipient_key",
            HMut::SenderOther => "sender_key",
        }
    }
}

#[derive(Clone, Debug, Serialize, Deserialize)]
struct HCase {
    seed: u64,
    group: [u8; 32],
    version: u32,
    topic: [u8; 16],
    variants: Vec<Vec<HMut>>,
}

#[derive(Clone, PartialEq)]
struct HState {
    enc: Vec<u8>,
    ct: Vec<u8>,
    group: [u8; 32],
    version: u32,
    topic: [u8; 16],
    recipient_other: bool,
    sender_other: bool,
}

fn h_apply(m: &HMut, st: &mut HState, other: &(Vec<u8>, Vec<u8>), prim: Prim) -> bool {
    match m {
        HMut::EncFlip(fl) => apply_flips(&mut st.enc, fl),
        HMut::EncTruncate { n } => {
            let n = (*n as usize).max(1).min(st.enc.len());
            if n == 0 {
                return false;
            }
            st.enc.truncate(st.enc.len() - n);
            true
        }
        HMut::EncOther => {
            st.enc = other.0.clone();
            true
        }
        HMut::CtFlip(fl) => apply_flips(&mut st.ct, fl),
        HMut::CtTruncate { n } => {
            let n = (*n as usize).max(1).min(st.ct.len());
            if n == 0 {
                return false;
            }
            st.ct.truncate(st.ct.len() - n);
            true
        }
        HMut::CtOther => {
            st.ct = other.1.clone();
            true
        }
        HMut::GroupFlip { pos, xor } if prim != Prim::TopicKey => flip(&mut st.group, *pos, *xor).is_some(),
        HMut::VersionSet(v) if prim == Prim::TopicKey => {
            if *v == st.version {
                return false;
            }
            st.version = *v;
            true
        }
        HMut::TopicFlip { pos, xor } if prim == Prim::TopicKey => flip(&mut st.topic, *pos, *xor).is_some(),
        HMut::RecipientOther => {
            st.recipient_other = !st.recipient_other;
            true
        }
        HMut::SenderOther if prim != Prim::GroupKey => {
            st.sender_other = !st.sender_other;
            true
        }
        _ => false,
    }
}

/// What `open` produced: an identifier of the recovered secret.
type Opened = Result<[u8; 32], String>;

fn check_hpke(c: &HCase, info: &mut CaseInfo, prim: Prim) -> CheckResult {
    let rng = SeedRng::new(c.seed, 0x3737);
    let group0 = GroupId::from_bytes(c.group);
    let topic0 = Topic::from(c.topic);
    let v0 = Version::new(c.version);
    // recipients / senders; only the keys of the primitive under test are generated
    let n_ek = match prim { Prim::GroupKey => 2, Prim::PskSeed => 3, Prim::TopicKey => 0 };
    let mut ek = Vec::new();
    let mut ekp = Vec::new();
    for _ in 0..n_ek {
        let k = EncryptionKey::<CS>::new(&rng);
        ekp.push(k.public().map_err(f("public() failed"))?);
        ek.push(k);
    }
    let (mut rk, mut sk, mut skp) = (Vec::new(), Vec::new(), Vec::new());
    let (mut gks, mut seeds, mut tks) = (Vec::new(), Vec::new(), Vec::new());
    for _ in 0..2 {
        match prim {
            Prim::GroupKey => gks.push(GroupKey::<CS>::new(&rng)),
            Prim::PskSeed => seeds.push(PskSeed::<CS>::new(&rng, &group0)),
            Prim::TopicKey => {
                rk.push(ReceiverSecretKey::<CS>::new(&rng));
                let s = SenderSecretKey::<CS>::new(&rng);
                skp.push(s.public().map_err(f("public() failed"))?);
                sk.push(s);
                tks.push(TopicKey::<CS>::new(&rng, v0, &topic0).map_err(f("TopicKey::new failed"))?);
            }
        }
    }
    use aranya_crypto::Identified as _;
    let secret_id = |i: usize| -> Result<[u8; 32], Failure> {
        Ok(match prim {
            Prim::GroupKey => *gks[i].id().map_err(f("id failed"))?.as_array(),
            Prim::PskSeed => *seeds[i].id().map_err(f("id failed"))?.as_array(),
            Prim::TopicKey => *tks[i].id().map_err(f("id failed"))?.as_array(),
        })
    };

    // seal secret #i for recipient 0 (sender 0 / ek[2] in the authenticated modes)
    let seal = |i: usize| -> Result<(Vec<u8>, Vec<u8>), Failure> {
        Ok(match prim {
            Prim::GroupKey => {
                let (enc, ct) = ekp[0].seal_group_key(&rng, &gks[i], group0).map_err(f("seal failed"))?;
                (enc.as_bytes().to_vec(), postcard::to_allocvec(&ct).map_err(f("ciphertext does not serialize"))?)
            }
            Prim::PskSeed => {
                let (enc, ct) = ek[2].seal_psk_seed(&rng, &seeds[i], &ekp[0], &group0).map_err(f("seal failed"))?;
                (enc.as_bytes().to_vec(), postcard::to_allocvec(&ct).map_err(f("ciphertext does not serialize"))?)
            }
            Prim::TopicKey => {
                let (enc, ct) = rk[0]
                    .public()
                    .map_err(f("public() failed"))?
                    .seal_topic_key(&rng, v0, &topic0, &sk[0], &tks[i])
                    .map_err(f("seal failed"))?;
                (enc.as_bytes().to_vec(), ct.as_bytes().to_vec())
            }
        })
    };
    let open = |st: &HState| -> Opened {
        let enc = Encap::<CS>::from_bytes(&st.enc).map_err(|e| format!("encap import: {e}"))?;
        let r = usize::from(st.recipient_other);
        match prim {
            Prim::GroupKey => {
                let ct: EncryptedGroupKey<CS> = postcard::from_bytes(&st.ct).map_err(|e| format!("ciphertext decode: {e}"))?;
                let k = ek[r].open_group_key(&enc, ct, GroupId::from_bytes(st.group)).map_err(|e| e.to_string())?;
                Ok(*k.id().map_err(|e| e.to_string())?.as_array())
            }
            Prim::PskSeed => {
                let ct: EncryptedPskSeed<CS> = postcard::from_bytes(&st.ct).map_err(|e| format!("ciphertext decode: {e}"))?;
                let peer = if st.sender_other { &ekp[1] } else { &ekp[2] };
                let s = ek[r].open_psk_seed(&enc, ct, peer, &GroupId::from_bytes(st.group)).map_err(|e| e.to_string())?;
                Ok(*s.id().map_err(|e| e.to_string())?.as_array())
            }
            Prim::TopicKey => {
                let ct = EncryptedTopicKey::<CS>::from_bytes(&st.ct).map_err(|e| format!("ciphertext decode: {e}"))?;
                let k = rk[r]
                    .open_topic_key(Version::new(st.version), &Topic::from(st.topic), &skp[usize::from(st.sender_other)], &enc, &ct)
                    .map_err(|e| e.to_string())?;
                Ok(*k.id().map_err(|e| e.to_string())?.as_array())
            }
        }
    };

    let (enc, ct) = seal(0)?;
    let base = HState {
        enc: enc.clone(),
        ct: ct.clone(),
        group: c.group,
        version: c.version,
        topic: c.topic,
        recipient_other: false,
        sender_other: false,
    };
    let id0 = secret_id(0)?;
    let got = open(&base);
    ensure!(got.is_ok(), "round trip failed", "{prim:?}: {got:?}");
    ensure!(got == Ok(id0), "round trip returned another secret", "{prim:?}");

    // the recovered secret is usable in place of the original
    match prim {
        Prim::GroupKey => {
            let e = Encap::<CS>::from_bytes(&enc).map_err(f("encap import failed"))?;
            let ctv: EncryptedGroupKey<CS> = postcard::from_bytes(&ct).map_err(f("ciphertext decode failed"))?;
            let k = ek[0].open_group_key(&e, ctv, group0).map_err(f("round trip failed"))?;
            let author = SigningKey::<CS>::new(&rng).public().map_err(f("public() failed"))?;
            let cx = || Context { label: "x", parent: CmdId::from_bytes(c.group), author_sign_pk: &author };
            let mut sealed = vec![0u8; 5 + k.overhead()];
            gks[0].seal(&rng, &mut sealed, b"hello", cx()).map_err(f("seal failed"))?;
            let mut out = vec![0u8; 5];
            k.open(&mut out, &sealed, cx()).map_err(f("recovered group key cannot open the original's ciphertext"))?;
            ensure!(out == b"hello", "round trip changed the plaintext", "group key");
        }
        Prim::PskSeed => {
            let e = Encap::<CS>::from_bytes(&enc).map_err(f("encap import failed"))?;
            let ctv: EncryptedPskSeed<CS> = postcard::from_bytes(&ct).map_err(f("ciphertext decode failed"))?;
            let s = ek[0].open_psk_seed(&e, ctv, &ekp[2], &group0).map_err(f("round trip failed"))?;
            let p = PolicyId::from_bytes(c.group);
            let a: Vec<_> = s.generate_psks(b"ctx", group0, p, CipherSuiteId::all().iter().copied()).collect();
            let b: Vec<_> = seeds[0].clone().generate_psks(b"ctx", group0, p, CipherSuiteId::all().iter().copied()).collect();
            for (x, y) in a.into_iter().zip(b) {
                let (x, y) = (x.map_err(f("psk failed"))?, y.map_err(f("psk failed"))?);
                ensure!(x.raw_secret_bytes() == y.raw_secret_bytes(), "recovered PSK seed derives other PSKs", "");
            }
        }
        Prim::TopicKey => {
            let e = Encap::<CS>::from_bytes(&enc).map_err(f("encap import failed"))?;
            let ctv = EncryptedTopicKey::<CS>::from_bytes(&ct).map_err(f("ciphertext decode failed"))?;
            let k = rk[0].open_topic_key(v0, &topic0, &skp[0], &e, &ctv).map_err(f("round trip failed"))?;
            let ssk = SenderSigningKey::<CS>::new(&rng).public().map_err(f("public() failed"))?;
            let ident = Sender { enc_key: &skp[0], sign_key: &ssk };
            let mut sealed = vec![0u8; 5 + k.overhead()];
            tks[0].seal_message(&rng, &mut sealed, b"hello", v0, &topic0, &ident).map_err(f("seal failed"))?;
            let mut out = vec![0u8; 5];
            k.open_message(&mut out, &sealed, v0, &topic0, &ident).map_err(f("recovered topic key cannot open the original's message"))?;
            ensure!(out == b"hello", "round trip changed the plaintext", "topic key");
        }
    }

    let other = seal(1)?;
    let id1 = secret_id(1)?;

    let mut rejected = 0;
    for (vi, v) in c.variants.iter().enumerate() {
        let mut st = base.clone();
        let mut kinds = Vec::new();
        for m in v {
            if h_apply(m, &mut st, &other, prim) {
                kinds.push(m.kind());
            }
        }
        if st == base {
            info.label("variant_noop");
            continue;
        }
        kinds.sort_unstable();
        kinds.dedup();
        let r = open(&st);
        // taking BOTH halves of the second sealing is that sealing: valid, yields the second secret
        let mut rest = st.clone();
        rest.enc = base.enc.clone();
        rest.ct = base.ct.clone();
        if rest == base && st.enc == other.0 && st.ct == other.1 {
            ensure!(r == Ok(id1), "round trip failed", "second sealing: {r:?}");
            info.label("variant_valid_second_sealing");
            continue;
        }
        if let Err(e) = &r {
            if e.starts_with("encap import") {
                info.label("encap_rejected_at_import");
            } else if e.starts_with("ciphertext decode") {
                info.label("ct_rejected_at_decode");
            }
        }
        ensure!(
            r.is_err(),
            "open accepted a modified ciphertext or context",
            "{prim:?} variant#{vi} kinds={kinds:?} muts={v:?} -> secret {}",
            match &r {
                Ok(i) if *i == id0 => "== original",
                Ok(i) if *i == id1 => "== second secret",
                _ => "other",
            }
        );
        rejected += 1;
        for k in &kinds {
            info.label(format!("rej_{k}"));
        }
        if kinds.len() > 1 || v.len() > 1 {
            info.label("rej_multi_point");
        }
    }
    if rejected >= 3 {
        info.nontrivial();
    }
    Ok(())
}

fn hmut(prim: Prim) -> BoxedStrategy<HMut> {
    let common = prop_oneof![
        4 => flips().prop_map(HMut::EncFlip),
        1 => (1u8..8).prop_map(|n| HMut::EncTruncate { n }),
        2 => Just(HMut::EncOther),
        5 => flips().prop_map(HMut::CtFlip),
        1 => (1u8..8).prop_map(|n| HMut::CtTruncate { n }),
        2 => Just(HMut::CtOther),
        2 => Just(HMut::RecipientOther),
    ];
    match prim {
        Prim::GroupKey => prop_oneof![
            4 => common,
            2 => (any::<u16>(), any::<u8>()).prop_map(|(pos, xor)| HMut::GroupFlip { pos, xor }),
        ]
        .boxed(),
        Prim::PskSeed => prop_oneof![
            4 => common,
            2 => (any::<u16>(), any::<u8>()).prop_map(|(pos, xor)| HMut::GroupFlip { pos, xor }),
            1 => Just(HMut::SenderOther),
        ]
        .boxed(),
        Prim::TopicKey => prop_oneof![
            4 => common,
            1 => prop_oneof![any::<u32>(), 0u32..4].prop_map(HMut::VersionSet),
            2 => (any::<u16>(), any::<u8>()).prop_map(|(pos, xor)| HMut::TopicFlip { pos, xor }),
            1 => Just(HMut::SenderOther),
        ]
        .boxed(),
    }
}

fn hcase(prim: Prim) -> impl Strategy<Value = HCase> {
    let variant = prop_oneof![
        3 => prop::collection::vec(hmut(prim), 1..=1),
        1 => prop::collection::vec(hmut(prim), 2..=3),
    ];
    (
        any::<u64>(),
        prop_oneof![3 => any::<[u8; 32]>(), 1 => Just([0u8; 32])],
        prop_oneof![2 => 0u32..4, 1 => any::<u32>()],
        any::<[u8; 16]>(),
        prop::collection::vec(variant, 2..10),
    )
        .prop_map(|(seed, group, version, topic, variants)| HCase { seed, group, version, topic, variants })
}

// ------------------------------------------------------------------------------------------------
// stateful, symmetric: several objects holding the same key material, several contexts, generated order

/// How a further object holding the same key material is obtained from an existing one.
#[derive(Clone, Debug, Serialize, Deserialize)]
enum Src {
    Clone(u16),
    /// sealed to a recipient with seal_group_key / seal_topic_key and recovered with open_group_key / open_topic_key
    Sealed(u16),
    /// Engine::wrap + Engine::unwrap (group keys; topic keys are not wrappable and take the sealed route)
    Wrapped(u16),
}

#[derive(Clone, Debug, Serialize, Deserialize)]
struct CtxSpec {
    label: String,
    parent: [u8; 32],
    /// which author verifying key (group) / sender signing key (topic)
    sign: bool,
    /// which sender encryption key (topic only)
    enc: bool,
}

#[derive(Clone, Debug, Serialize, Deserialize)]
enum TOp {
    Seal { obj: u16, ctx: u16, pt: Vec<u8> },
    Open { obj: u16, ct: u16 },
    OpenWrongCtx { obj: u16, ct: u16, ctx: u16 },
    OpenFlipped { obj: u16, ct: u16, flips: Vec<(u16, u8)> },
    OpenOtherKey { ct: u16 },
    Copy(Src),
}

#[derive(Clone, Debug, Serialize, Deserialize)]
struct TCase {
    seed: u64,
    version: u32,
    topic: [u8; 16],
    ctxs: Vec<CtxSpec>,
    init: Vec<Src>,
    ops: Vec<TOp>,
}

enum KObj {
    G(GroupKey<CS>),
    T(TopicKey<CS>),
}

struct SymKeys {
    sign_g: Vec<VerifyingKey<CS>>,
    ssk: Vec<SenderVerifyingKey<CS>>,
    sek: Vec<SenderPublicKey<CS>>,
    version: Version,
    topic: Topic,
}

fn st_overhead(k: &KObj) -> usize {
    match k {
        KObj::G(k) => k.overhead(),
        KObj::T(k) => k.overhead(),
    }
}

fn st_seal(k: &KObj, keys: &SymKeys, rng: &Eng, cx: &CtxSpec, pt: &[u8]) -> Result<Vec<u8>, Failure> {
    let mut dst = vec![0u8; pt.len() + st_overhead(k)];
    match k {
        KObj::G(k) => k
            .seal(rng, &mut dst, pt, Context { label: &cx.label, parent: CmdId::from_bytes(cx.parent), author_sign_pk: &keys.sign_g[usize::from(cx.sign)] })
            .map_err(f("seal failed"))?,
        KObj::T(k) => k
            .seal_message(rng, &mut dst, pt, keys.version, &keys.topic, &Sender { enc_key: &keys.sek[usize::from(cx.enc)], sign_key: &keys.ssk[usize::from(cx.sign)] })
            .map_err(f("seal failed"))?,
    }
    Ok(dst)
}

fn st_open(k: &KObj, keys: &SymKeys, cx: &CtxSpec, ct: &[u8]) -> Result<Vec<u8>, String> {
    let mut dst = vec![0u8; ct.len().saturating_sub(st_overhead(k))];
    match k {
        KObj::G(k) => k
            .open(&mut dst, ct, Context { label: &cx.label, parent: CmdId::from_bytes(cx.parent), author_sign_pk: &keys.sign_g[usize::from(cx.sign)] })
            .map_err(|e| e.to_string())?,
        KObj::T(k) => k
            .open_message(&mut dst, ct, keys.version, &keys.topic, &Sender { enc_key: &keys.sek[usize::from(cx.enc)], sign_key: &keys.ssk[usize::from(cx.sign)] })
            .map_err(|e| e.to_string())?,
    }
    Ok(dst)
}

fn check_sym_stateful(c: &TCase, info: &mut CaseInfo, group: bool) -> CheckResult {
    if c.ctxs.is_empty() {
        return Ok(());
    }
    let eng = engine(c.seed, 0x3701);
    let rng = &eng;
    let version = Version::new(c.version);
    let topic = Topic::from(c.topic);
    let mut keys = SymKeys { sign_g: Vec::new(), ssk: Vec::new(), sek: Vec::new(), version, topic };
    let mut sender_sk = Vec::new();
    for _ in 0..2 {
        if group {
            keys.sign_g.push(SigningKey::<CS>::new(rng).public().map_err(f("public() failed"))?);
        } else {
            keys.ssk.push(SenderSigningKey::<CS>::new(rng).public().map_err(f("public() failed"))?);
            let s = SenderSecretKey::<CS>::new(rng);
            keys.sek.push(s.public().map_err(f("public() failed"))?);
            sender_sk.push(s);
        }
    }
    // two contexts are the same context when every component the primitive binds is equal
    let same_ctx = |a: &CtxSpec, b: &CtxSpec| {
        if group { a.label == b.label && a.parent == b.parent && a.sign == b.sign } else { a.sign == b.sign && a.enc == b.enc }
    };
    let canon: Vec<usize> = (0..c.ctxs.len()).map(|i| (0..=i).find(|&j| same_ctx(&c.ctxs[j], &c.ctxs[i])).unwrap_or(i)).collect();
    let mk = |rng: &Eng| -> Result<KObj, Failure> {
        Ok(if group { KObj::G(GroupKey::<CS>::new(rng)) } else { KObj::T(TopicKey::<CS>::new(rng, version, &topic).map_err(f("TopicKey::new failed"))?) })
    };
    let mut objs = vec![mk(rng)?];
    let other = mk(rng)?;
    // contexts (canonical index) each object has been used with so far, in order
    let mut hist: Vec<Vec<usize>> = vec![Vec::new()];
    let mut how: Vec<String> = vec!["original".into()];
    // recipient of the sealed route, created on first use
    let mut ek: Option<EncryptionKey<CS>> = None;
    let mut rk: Option<ReceiverSecretKey<CS>> = None;
    let gid = GroupId::from_bytes(c.topic.repeat(2).try_into().unwrap_or([0u8; 32]));

    let mut copy = |src: &Src, objs: &mut Vec<KObj>, how: &mut Vec<String>, info: &mut CaseInfo| -> CheckResult {
        let (i, kind) = match src {
            Src::Clone(i) => (idx(*i, objs.len()), "clone"),
            Src::Sealed(i) => (idx(*i, objs.len()), "sealed"),
            Src::Wrapped(i) => (idx(*i, objs.len()), if group { "wrapped" } else { "sealed" }),
        };
        let new = match (&objs[i], kind) {
            (KObj::G(k), "clone") => KObj::G(k.clone()),
            (KObj::T(k), "clone") => KObj::T(k.clone()),
            (KObj::G(k), "wrapped") => {
                let w = eng.wrap(k.clone()).map_err(f("wrap failed"))?;
                KObj::G(eng.unwrap::<GroupKey<CS>>(&w).map_err(f("unwrap of a wrapped key failed"))?)
            }
            (KObj::G(k), _) => {
                if ek.is_none() {
                    ek = Some(EncryptionKey::<CS>::new(rng));
                }
                let e = ek.as_ref().expect("set above");
                let (enc, ct) = e.public().map_err(f("public() failed"))?.seal_group_key(rng, k, gid).map_err(f("seal failed"))?;
                KObj::G(e.open_group_key(&enc, ct, gid).map_err(f("round trip failed"))?)
            }
            (KObj::T(k), _) => {
                if rk.is_none() {
                    rk = Some(ReceiverSecretKey::<CS>::new(rng));
                }
                let r = rk.as_ref().expect("set above");
                let (enc, ct) = r
                    .public()
                    .map_err(f("public() failed"))?
                    .seal_topic_key(rng, version, &topic, &sender_sk[0], k)
                    .map_err(f("seal failed"))?;
                KObj::T(r.open_topic_key(version, &topic, &keys.sek[0], &enc, &ct).map_err(f("round trip failed"))?)
            }
        };
        info.label(format!("copy_{kind}"));
        how.push(format!("{kind} of #{i}"));
        objs.push(new);
        Ok(())
    };
    for s in &c.init {
        copy(s, &mut objs, &mut how, info)?;
        hist.push(Vec::new());
    }

    struct Ct {
        bytes: Vec<u8>,
        ctx: usize,
        pt: Vec<u8>,
        by: usize,
    }
    let mut cts: Vec<Ct> = Vec::new();
    let mut divergent = 0usize;
    let describe = |o: usize, how: &[String], hist: &[Vec<usize>]| format!("object #{o} ({}; earlier contexts {:?})", how[o], hist[o]);
    // opening `ct` on object `o` with the right context must return the plaintext
    let right_open = |o: usize, ct: &Ct, objs: &[KObj], how: &[String], hist: &mut Vec<Vec<usize>>, info: &mut CaseInfo, divergent: &mut usize| -> CheckResult {
        let r = st_open(&objs[o], &keys, &c.ctxs[ct.ctx], &ct.bytes);
        let cross = o != ct.by;
        let with_history = hist[o].iter().any(|h| *h != ct.ctx) || hist[ct.by].iter().any(|h| *h != ct.ctx);
        let sig = if cross { "round trip failed on another object holding the same key" } else { "round trip failed" };
        if r.as_ref().ok() != Some(&ct.pt) {
            return Err(Failure::new(
                sig,
                format!(
                    "context #{} sealed by {}, opened by {} -> {}",
                    ct.ctx,
                    describe(ct.by, how, hist),
                    describe(o, how, hist),
                    match &r { Ok(_) => "another plaintext".to_string(), Err(e) => e.clone() }
                ),
            ));
        }
        hist[o].push(ct.ctx);
        if cross {
            info.label("open_cross_object");
        }
        if cross && with_history {
            info.label("open_cross_object_after_other_context");
            *divergent += 1;
        }
        Ok(())
    };

    for op in &c.ops {
        match op {
            TOp::Seal { obj, ctx, pt } => {
                let (o, x) = (idx(*obj, objs.len()), canon[idx(*ctx, c.ctxs.len())]);
                let bytes = st_seal(&objs[o], &keys, rng, &c.ctxs[x], pt)?;
                ensure!(bytes.len() == pt.len() + st_overhead(&objs[o]), "ciphertext length is not plaintext + overhead", "{} vs {}", bytes.len(), pt.len());
                hist[o].push(x);
                cts.push(Ct { bytes, ctx: x, pt: pt.clone(), by: o });
                info.label("op_seal");
            }
            TOp::Copy(s) => {
                copy(s, &mut objs, &mut how, info)?;
                hist.push(Vec::new());
            }
            _ if cts.is_empty() => info.label("op_skipped_no_ciphertext"),
            TOp::Open { obj, ct } => {
                let (o, ct) = (idx(*obj, objs.len()), &cts[idx(*ct, cts.len())]);
                right_open(o, ct, &objs, &how, &mut hist, info, &mut divergent)?;
                info.label("op_open");
            }
            TOp::OpenWrongCtx { obj, ct, ctx } => {
                let (o, ct, x) = (idx(*obj, objs.len()), &cts[idx(*ct, cts.len())], canon[idx(*ctx, c.ctxs.len())]);
                if x == ct.ctx {
                    right_open(o, ct, &objs, &how, &mut hist, info, &mut divergent)?;
                    info.label("op_open");
                    continue;
                }
                let r = st_open(&objs[o], &keys, &c.ctxs[x], &ct.bytes);
                ensure!(r.is_err(), "open accepted a modified ciphertext or context", "sealed under context #{}, opened under #{x} by {}", ct.ctx, describe(o, &how, &hist));
                hist[o].push(x);
                info.label("op_open_wrong_context_rejected");
            }
            TOp::OpenFlipped { obj, ct, flips } => {
                let (o, ct) = (idx(*obj, objs.len()), &cts[idx(*ct, cts.len())]);
                let mut b = ct.bytes.clone();
                if !apply_flips(&mut b, flips) || b == ct.bytes {
                    continue;
                }
                let r = st_open(&objs[o], &keys, &c.ctxs[ct.ctx], &b);
                ensure!(r.is_err(), "open accepted a modified ciphertext or context", "flipped ciphertext {flips:?} opened by {}", describe(o, &how, &hist));
                hist[o].push(ct.ctx);
                info.label("op_open_flipped_rejected");
            }
            TOp::OpenOtherKey { ct } => {
                let ct = &cts[idx(*ct, cts.len())];
                let r = st_open(&other, &keys, &c.ctxs[ct.ctx], &ct.bytes);
                ensure!(r.is_err(), "open accepted a modified ciphertext or context", "another key opened context #{}", ct.ctx);
                info.label("op_open_other_key_rejected");
            }
        }
    }
    // finally every object must open every ciphertext under its own context
    for ct in &cts {
        for o in 0..objs.len() {
            right_open(o, ct, &objs, &how, &mut hist, info, &mut divergent)?;
        }
    }
    if divergent >= 2 {
        info.nontrivial();
    }
    Ok(())
}

fn src() -> impl Strategy<Value = Src> {
    prop_oneof![any::<u16>().prop_map(Src::Clone), any::<u16>().prop_map(Src::Sealed), any::<u16>().prop_map(Src::Wrapped)]
}

fn tcase() -> impl Strategy<Value = TCase> {
    let cx = (
        prop_oneof![3 => ".{0,8}", 1 => Just(String::new())],
        prop_oneof![2 => any::<[u8; 32]>(), 1 => Just([0u8; 32]), 1 => Just([1u8; 32])],
        any::<bool>(),
        any::<bool>(),
    )
        .prop_map(|(label, parent, sign, enc)| CtxSpec { label, parent, sign, enc });
    let small_pt = prop_oneof![3 => prop::collection::vec(any::<u8>(), 0..40), 1 => Just(Vec::new())];
    let op = prop_oneof![
        5 => (any::<u16>(), any::<u16>(), small_pt).prop_map(|(obj, ctx, pt)| TOp::Seal { obj, ctx, pt }),
        5 => (any::<u16>(), any::<u16>()).prop_map(|(obj, ct)| TOp::Open { obj, ct }),
        2 => (any::<u16>(), any::<u16>(), any::<u16>()).prop_map(|(obj, ct, ctx)| TOp::OpenWrongCtx { obj, ct, ctx }),
        1 => (any::<u16>(), any::<u16>(), flips()).prop_map(|(obj, ct, flips)| TOp::OpenFlipped { obj, ct, flips }),
        1 => any::<u16>().prop_map(|ct| TOp::OpenOtherKey { ct }),
        1 => src().prop_map(TOp::Copy),
    ];
    (
        any::<u64>(),
        prop_oneof![2 => 0u32..4, 1 => any::<u32>()],
        any::<[u8; 16]>(),
        prop::collection::vec(cx, 2..=4),
        prop::collection::vec(src(), 1..=3),
        (any::<u16>(), any::<u16>(), prop::collection::vec(any::<u8>(), 0..40)),
        prop::collection::vec(op, 3..=13),
    )
        .prop_map(|(seed, version, topic, ctxs, init, (obj, ctx, pt), mut ops)| {
            // the sequence starts with a seal so that no later operation is vacuous
            ops.insert(0, TOp::Seal { obj, ctx, pt });
            TCase { seed, version, topic, ctxs, init, ops }
        })
}

// ------------------------------------------------------------------------------------------------
// stateful, HPKE-sealed secrets: several objects holding the recipient's secret key, several secrets and contexts

#[derive(Clone, Debug, Serialize, Deserialize)]
enum RSrc {
    Clone(u16),
    Wrapped(u16),
}

#[derive(Clone, Debug, Serialize, Deserialize)]
struct KCtx {
    group: [u8; 32],
    version: u32,
    topic: [u8; 16],
}

#[derive(Clone, Debug, Serialize, Deserialize)]
enum KOp {
    /// seal secret #secret; group keys under context #ctx, PSK seeds and topic keys under the context they were created for
    Seal { secret: u16, ctx: u16 },
    Open { recip: u16, item: u16 },
    OpenWrongCtx { recip: u16, item: u16, ctx: u16 },
    OpenFlipped { recip: u16, item: u16, enc: bool, flips: Vec<(u16, u8)> },
    OpenOtherRecipient { item: u16 },
    Copy(RSrc),
}

#[derive(Clone, Debug, Serialize, Deserialize)]
struct KCase {
    seed: u64,
    ctxs: Vec<KCtx>,
    /// one entry per secret: the context it is created for
    secrets: Vec<u16>,
    init: Vec<RSrc>,
    ops: Vec<KOp>,
}

enum RObj {
    E(EncryptionKey<CS>),
    R(ReceiverSecretKey<CS>),
}

enum Secret {
    G(GroupKey<CS>),
    P(PskSeed<CS>),
    T(TopicKey<CS>),
}

impl Secret {
    fn id(&self) -> Result<[u8; 32], String> {
        use aranya_crypto::Identified as _;
        Ok(match self {
            Secret::G(k) => *k.id().map_err(|e| e.to_string())?.as_array(),
            Secret::P(k) => *k.id().map_err(|e| e.to_string())?.as_array(),
            Secret::T(k) => *k.id().map_err(|e| e.to_string())?.as_array(),
        })
    }
}

struct HpkeEnv {
    recip_pk_e: Option<EncryptionPublicKey<CS>>,
    recip_pk_r: Option<ReceiverPublicKey<CS>>,
    sender_e: Option<(EncryptionKey<CS>, EncryptionPublicKey<CS>)>,
    sender_s: Option<(SenderSecretKey<CS>, SenderPublicKey<CS>)>,
}

fn k_seal(env: &HpkeEnv, rng: &Eng, s: &Secret, cx: &KCtx) -> Result<(Vec<u8>, Vec<u8>), Failure> {
    let group = GroupId::from_bytes(cx.group);
    Ok(match s {
        Secret::G(k) => {
            let (enc, ct) = env.recip_pk_e.as_ref().expect("recipient").seal_group_key(rng, k, group).map_err(f("seal failed"))?;
            (enc.as_bytes().to_vec(), postcard::to_allocvec(&ct).map_err(f("ciphertext does not serialize"))?)
        }
        Secret::P(k) => {
            let (se, _) = env.sender_e.as_ref().expect("sender");
            let (enc, ct) = se.seal_psk_seed(rng, k, env.recip_pk_e.as_ref().expect("recipient"), &group).map_err(f("seal failed"))?;
            (enc.as_bytes().to_vec(), postcard::to_allocvec(&ct).map_err(f("ciphertext does not serialize"))?)
        }
        Secret::T(k) => {
            let (ss, _) = env.sender_s.as_ref().expect("sender");
            let (enc, ct) = env
                .recip_pk_r
                .as_ref()
                .expect("recipient")
                .seal_topic_key(rng, Version::new(cx.version), &Topic::from(cx.topic), ss, k)
                .map_err(f("seal failed"))?;
            (enc.as_bytes().to_vec(), ct.as_bytes().to_vec())
        }
    })
}

fn k_open(env: &HpkeEnv, r: &RObj, prim: Prim, enc: &[u8], ct: &[u8], cx: &KCtx) -> Result<Secret, String> {
    let enc = Encap::<CS>::from_bytes(enc).map_err(|e| format!("encap import: {e}"))?;
    let group = GroupId::from_bytes(cx.group);
    match (r, prim) {
        (RObj::E(k), Prim::GroupKey) => {
            let ct: EncryptedGroupKey<CS> = postcard::from_bytes(ct).map_err(|e| format!("ciphertext decode: {e}"))?;
            k.open_group_key(&enc, ct, group).map(Secret::G).map_err(|e| e.to_string())
        }
        (RObj::E(k), Prim::PskSeed) => {
            let ct: EncryptedPskSeed<CS> = postcard::from_bytes(ct).map_err(|e| format!("ciphertext decode: {e}"))?;
            let (_, sp) = env.sender_e.as_ref().expect("sender");
            k.open_psk_seed(&enc, ct, sp, &group).map(Secret::P).map_err(|e| e.to_string())
        }
        (RObj::R(k), Prim::TopicKey) => {
            let ct = EncryptedTopicKey::<CS>::from_bytes(ct).map_err(|e| format!("ciphertext decode: {e}"))?;
            let (_, sp) = env.sender_s.as_ref().expect("sender");
            k.open_topic_key(Version::new(cx.version), &Topic::from(cx.topic), sp, &enc, &ct).map(Secret::T).map_err(|e| e.to_string())
        }
        _ => Err("harness: recipient object does not match the primitive".into()),
    }
}

fn check_hpke_stateful(c: &KCase, info: &mut CaseInfo, prim: Prim) -> CheckResult {
    if c.ctxs.is_empty() || c.secrets.is_empty() {
        return Ok(());
    }
    let eng = engine(c.seed, 0x3702);
    let rng = &eng;
    let same_ctx = |a: &KCtx, b: &KCtx| if prim == Prim::TopicKey { a.version == b.version && a.topic == b.topic } else { a.group == b.group };
    let canon: Vec<usize> = (0..c.ctxs.len()).map(|i| (0..=i).find(|&j| same_ctx(&c.ctxs[j], &c.ctxs[i])).unwrap_or(i)).collect();
    let mk_recip = |rng: &Eng| if prim == Prim::TopicKey { RObj::R(ReceiverSecretKey::<CS>::new(rng)) } else { RObj::E(EncryptionKey::<CS>::new(rng)) };
    let mut objs = vec![mk_recip(rng)];
    let other = mk_recip(rng);
    let mut env = HpkeEnv { recip_pk_e: None, recip_pk_r: None, sender_e: None, sender_s: None };
    match &objs[0] {
        RObj::E(k) => env.recip_pk_e = Some(k.public().map_err(f("public() failed"))?),
        RObj::R(k) => env.recip_pk_r = Some(k.public().map_err(f("public() failed"))?),
    }
    match prim {
        Prim::GroupKey => {}
        Prim::PskSeed => {
            let k = EncryptionKey::<CS>::new(rng);
            let p = k.public().map_err(f("public() failed"))?;
            env.sender_e = Some((k, p));
        }
        Prim::TopicKey => {
            let k = SenderSecretKey::<CS>::new(rng);
            let p = k.public().map_err(f("public() failed"))?;
            env.sender_s = Some((k, p));
        }
    }
    // the secrets, each created for (and, except group keys, always sealed under) its own context
    let mut secrets = Vec::new();
    let mut secret_ids = Vec::new();
    for x in &c.secrets {
        let cx = &c.ctxs[canon[idx(*x, c.ctxs.len())]];
        let s = match prim {
            Prim::GroupKey => Secret::G(GroupKey::<CS>::new(rng)),
            Prim::PskSeed => Secret::P(PskSeed::<CS>::new(rng, &GroupId::from_bytes(cx.group))),
            Prim::TopicKey => Secret::T(TopicKey::<CS>::new(rng, Version::new(cx.version), &Topic::from(cx.topic)).map_err(f("TopicKey::new failed"))?),
        };
        secret_ids.push(s.id().map_err(|e| Failure::new("id failed", e))?);
        secrets.push(s);
    }
    let mut hist: Vec<Vec<usize>> = vec![Vec::new()];
    let mut how: Vec<String> = vec!["original".into()];
    let copy = |src: &RSrc, objs: &mut Vec<RObj>, how: &mut Vec<String>, info: &mut CaseInfo| -> CheckResult {
        let (i, wrapped) = match src {
            RSrc::Clone(i) => (idx(*i, objs.len()), false),
            RSrc::Wrapped(i) => (idx(*i, objs.len()), true),
        };
        let new = match (&objs[i], wrapped) {
            (RObj::E(k), false) => RObj::E(k.clone()),
            (RObj::R(k), false) => RObj::R(k.clone()),
            (RObj::E(k), true) => {
                let w = eng.wrap(k.clone()).map_err(f("wrap failed"))?;
                RObj::E(eng.unwrap::<EncryptionKey<CS>>(&w).map_err(f("unwrap of a wrapped key failed"))?)
            }
            (RObj::R(k), true) => {
                let w = eng.wrap(k.clone()).map_err(f("wrap failed"))?;
                RObj::R(eng.unwrap::<ReceiverSecretKey<CS>>(&w).map_err(f("unwrap of a wrapped key failed"))?)
            }
        };
        let kind = if wrapped { "wrapped" } else { "clone" };
        info.label(format!("copy_{kind}"));
        how.push(format!("{kind} of #{i}"));
        objs.push(new);
        Ok(())
    };
    for s in &c.init {
        copy(s, &mut objs, &mut how, info)?;
        hist.push(Vec::new());
    }

    struct Item {
        enc: Vec<u8>,
        ct: Vec<u8>,
        secret: usize,
        ctx: usize,
    }
    let mut items: Vec<Item> = Vec::new();
    let mut with_history = 0usize;
    let describe = |o: usize, how: &[String], hist: &[Vec<usize>]| format!("recipient object #{o} ({}; earlier contexts {:?})", how[o], hist[o]);
    let right_open = |o: usize, it: &Item, objs: &[RObj], how: &[String], hist: &mut Vec<Vec<usize>>, info: &mut CaseInfo, n: &mut usize| -> CheckResult {
        let r = k_open(&env, &objs[o], prim, &it.enc, &it.ct, &c.ctxs[it.ctx]);
        let sig = if o == 0 { "round trip failed" } else { "round trip failed on another object holding the same key" };
        let got = match r {
            Ok(s) => s,
            Err(e) => return Err(Failure::new(sig, format!("{prim:?} secret #{} sealed under context #{}, opened by {} -> {e}", it.secret, it.ctx, describe(o, how, hist)))),
        };
        ensure!(got.id() == Ok(secret_ids[it.secret]), "round trip returned another secret", "{prim:?} secret #{} opened by {}", it.secret, describe(o, how, hist));
        if let (Secret::P(a), Secret::P(b)) = (&got, &secrets[it.secret]) {
            // the recovered seed derives the same PSKs as the original
            let g = GroupId::from_bytes(c.ctxs[it.ctx].group);
            let p = PolicyId::from_bytes(c.ctxs[it.ctx].group);
            let xs: Vec<_> = a.clone().generate_psks(b"ctx", g, p, CipherSuiteId::all().iter().copied()).collect();
            let ys: Vec<_> = b.clone().generate_psks(b"ctx", g, p, CipherSuiteId::all().iter().copied()).collect();
            for (x, y) in xs.into_iter().zip(ys) {
                let (x, y) = (x.map_err(f("psk failed"))?, y.map_err(f("psk failed"))?);
                ensure!(x.raw_secret_bytes() == y.raw_secret_bytes(), "recovered PSK seed derives other PSKs", "secret #{}", it.secret);
            }
        }
        if hist[o].iter().any(|h| *h != it.ctx) {
            info.label("open_after_other_context");
            if o != 0 {
                *n += 1;
            }
        }
        if o != 0 {
            info.label("open_on_copy");
        }
        hist[o].push(it.ctx);
        Ok(())
    };

    for op in &c.ops {
        match op {
            KOp::Seal { secret, ctx } => {
                let si = idx(*secret, secrets.len());
                let x = canon[idx(if prim == Prim::GroupKey { *ctx } else { c.secrets[si] }, c.ctxs.len())];
                let (enc, ct) = k_seal(&env, rng, &secrets[si], &c.ctxs[x])?;
                items.push(Item { enc, ct, secret: si, ctx: x });
                info.label("op_seal");
            }
            KOp::Copy(s) => {
                copy(s, &mut objs, &mut how, info)?;
                hist.push(Vec::new());
            }
            _ if items.is_empty() => info.label("op_skipped_nothing_sealed"),
            KOp::Open { recip, item } => {
                let (o, it) = (idx(*recip, objs.len()), &items[idx(*item, items.len())]);
                right_open(o, it, &objs, &how, &mut hist, info, &mut with_history)?;
                info.label("op_open");
            }
            KOp::OpenWrongCtx { recip, item, ctx } => {
                let (o, it, x) = (idx(*recip, objs.len()), &items[idx(*item, items.len())], canon[idx(*ctx, c.ctxs.len())]);
                if x == it.ctx {
                    right_open(o, it, &objs, &how, &mut hist, info, &mut with_history)?;
                    info.label("op_open");
                    continue;
                }
                let r = k_open(&env, &objs[o], prim, &it.enc, &it.ct, &c.ctxs[x]);
                ensure!(r.is_err(), "open accepted a modified ciphertext or context", "{prim:?} sealed under context #{}, opened under #{x} by {}", it.ctx, describe(o, &how, &hist));
                hist[o].push(x);
                info.label("op_open_wrong_context_rejected");
            }
            KOp::OpenFlipped { recip, item, enc, flips } => {
                let (o, it) = (idx(*recip, objs.len()), &items[idx(*item, items.len())]);
                let (mut e, mut b) = (it.enc.clone(), it.ct.clone());
                if !apply_flips(if *enc { &mut e } else { &mut b }, flips) || (e == it.enc && b == it.ct) {
                    continue;
                }
                let r = k_open(&env, &objs[o], prim, &e, &b, &c.ctxs[it.ctx]);
                ensure!(r.is_err(), "open accepted a modified ciphertext or context", "{prim:?} flipped {} {flips:?} opened by {}", if *enc { "encapsulation" } else { "ciphertext" }, describe(o, &how, &hist));
                hist[o].push(it.ctx);
                info.label("op_open_flipped_rejected");
            }
            KOp::OpenOtherRecipient { item } => {
                let it = &items[idx(*item, items.len())];
                let r = k_open(&env, &other, prim, &it.enc, &it.ct, &c.ctxs[it.ctx]);
                ensure!(r.is_err(), "open accepted a modified ciphertext or context", "{prim:?}: another recipient key opened context #{}", it.ctx);
                info.label("op_open_other_recipient_rejected");
            }
        }
    }
    // finally every recipient object must open every sealed secret under its own context
    for it in &items {
        for o in 0..objs.len() {
            right_open(o, it, &objs, &how, &mut hist, info, &mut with_history)?;
        }
    }
    if with_history >= 2 {
        info.nontrivial();
    }
    Ok(())
}

fn kcase() -> impl Strategy<Value = KCase> {
    let cx = (prop_oneof![3 => any::<[u8; 32]>(), 1 => Just([0u8; 32])], prop_oneof![2 => 0u32..4, 1 => any::<u32>()], any::<[u8; 16]>())
        .prop_map(|(group, version, topic)| KCtx { group, version, topic });
    let rsrc = || prop_oneof![any::<u16>().prop_map(RSrc::Clone), any::<u16>().prop_map(RSrc::Wrapped)];
    let op = prop_oneof![
        5 => (any::<u16>(), any::<u16>()).prop_map(|(secret, ctx)| KOp::Seal { secret, ctx }),
        4 => (any::<u16>(), any::<u16>()).prop_map(|(recip, item)| KOp::Open { recip, item }),
        2 => (any::<u16>(), any::<u16>(), any::<u16>()).prop_map(|(recip, item, ctx)| KOp::OpenWrongCtx { recip, item, ctx }),
        1 => (any::<u16>(), any::<u16>(), any::<bool>(), flips()).prop_map(|(recip, item, enc, flips)| KOp::OpenFlipped { recip, item, enc, flips }),
        1 => any::<u16>().prop_map(|item| KOp::OpenOtherRecipient { item }),
        1 => rsrc().prop_map(KOp::Copy),
    ];
    (
        any::<u64>(),
        prop::collection::vec(cx, 2..=4),
        prop::collection::vec(any::<u16>(), 2..=3),
        prop::collection::vec(rsrc(), 1..=2),
        (any::<u16>(), any::<u16>()),
        prop::collection::vec(op, 2..=7),
    )
        .prop_map(|(seed, ctxs, secrets, init, (secret, ctx), mut ops)| {
            ops.insert(0, KOp::Seal { secret, ctx });
            KCase { seed, ctxs, secrets, init, ops }
        })
}

pub fn run(ctx: &Ctx) -> ! {
    let mut rep = Report::new(ctx, "exploration");
    rep.assume("all keys, nonces and HPKE ephemeral keys come from a deterministic byte stream seeded by the case; the oracle does not depend on the values");
    rep.assume("cipher suite = DefaultCipherSuite (AES-256-GCM, HKDF-SHA-512, DHKEM-P256); the primitives themselves are trusted, the check is about what is bound into each operation");
    rep.assume("GroupKey Context has no boundary-shift modification: parent and author id are fixed-width, so no two distinct contexts share a concatenation");
    let n_sym = ctx.pick(12_000, 250_000);
    let n_h = ctx.pick(1_500, 30_000);
    rep.explore(
        "group_key_seal_open",
        "GroupKey::seal/open: plaintext 0..4096 B (incl. 0, block-size edges), label (unicode/empty), parent, author key; 2..11 single \
         or 2..3-point modifications of {ciphertext byte flips (nonce, body, tag), truncation, dropped prefix, extension, ciphertext of \
         another message, label set/char/append, parent byte, other author key, other group key}. Oracle: untouched opens to the exact \
         plaintext with len = pt+overhead; every modification is Err. non-trivial = >=3 modifications rejected",
        || scase(true),
        n_sym,
        |c, i| check_sym(c, i, true),
    );
    rep.explore(
        "topic_message_seal_open",
        "TopicKey::seal_message/open_message: same ciphertext modifications plus {version, topic byte, other sender encryption key, \
         other sender signing key, other topic key}",
        || scase(false),
        n_sym,
        |c, i| check_sym(c, i, false),
    );
    rep.explore(
        "sealed_group_key",
        "EncryptionPublicKey::seal_group_key / EncryptionKey::open_group_key: modifications of {encapsulation bytes / truncation / \
         encapsulation of a second sealing, serialized ciphertext+tag bytes / truncation / ciphertext of a second sealing, group id byte, \
         other recipient key}. Oracle: untouched recovers a key with the same id that opens the original's ciphertext; both halves of \
         the second sealing recover the second key; everything else Err",
        || hcase(Prim::GroupKey),
        n_h,
        |c, i| check_hpke(c, i, Prim::GroupKey),
    );
    rep.explore(
        "sealed_psk_seed",
        "EncryptionKey::seal_psk_seed/open_psk_seed (authenticated HPKE): as above plus {other claimed sender key}; recovered seed \
         derives identical PSKs",
        || hcase(Prim::PskSeed),
        n_h,
        |c, i| check_hpke(c, i, Prim::PskSeed),
    );
    rep.explore(
        "sealed_topic_key",
        "apq ReceiverPublicKey::seal_topic_key / ReceiverSecretKey::open_topic_key: as above with {version, topic byte, other sender \
         key, other receiver key}; recovered topic key opens the original's message",
        || hcase(Prim::TopicKey),
        n_h,
        |c, i| check_hpke(c, i, Prim::TopicKey),
    );
    let n_st = ctx.pick(2_000, 60_000);
    let n_hst = ctx.pick(200, 6_000);
    rep.assume("stateful parts: topic messages are always sealed under the version and topic the TopicKey was created for (contexts differ in the sender identity); PSK seeds and topic keys are always sealed under the group id resp. version/topic they were created for; group keys are sealed under any group id");
    rep.explore(
        "group_key_stateful",
        "2..4 generated contexts (label, parent, author key), 2..4+ objects holding ONE group key (original, clone, copy recovered \
         through seal_group_key/open_group_key, copy through Engine::wrap/unwrap; further copies may be taken mid-sequence), 4..14 \
         operations in generated order on generated objects: seal under context i, open a stored ciphertext under its own context \
         (must return the plaintext whatever object sealed it and whatever either object did before), open under another context / \
         with flipped bytes / with another key (must fail); at the end every object opens every ciphertext under its own context. \
         non-trivial = >=2 right-context opens on an object other than the sealing one where one of the two had been used with \
         another context before",
        tcase,
        n_st,
        |c, i| check_sym_stateful(c, i, true),
    );
    rep.explore(
        "topic_key_stateful",
        "same for TopicKey::seal_message/open_message; contexts = sender identity (2 encryption x 2 signing keys); copies = clone and \
         seal_topic_key/open_topic_key",
        tcase,
        n_st,
        |c, i| check_sym_stateful(c, i, false),
    );
    for (name, prim) in [("sealed_group_key_stateful", Prim::GroupKey), ("sealed_psk_seed_stateful", Prim::PskSeed), ("sealed_topic_key_stateful", Prim::TopicKey)] {
        rep.explore(
            name,
            "2..3 secrets, 2..4 contexts (group id resp. version+topic), 2..3+ objects holding ONE recipient secret key (original, \
             clone, Engine::wrap/unwrap copy), 3..8 operations in generated order: seal secret j (to the recipient's public key), open a \
             stored sealing on a generated recipient object under its own context (must recover the secret with the same id; a PSK \
             seed must derive the same PSKs), open under another context / flipped encapsulation or ciphertext / another recipient \
             (must fail); at the end every recipient object opens every sealing. non-trivial = >=2 right-context opens on a copy \
             that had been used with another context before",
            kcase,
            n_hst,
            move |c, i| check_hpke_stateful(c, i, prim),
        );
    }
    rep.finish()
}
