//! C45: MemStore and fs_keystore::Store behave as maps from key id to wrapped key.
use std::collections::{BTreeSet, HashMap};

use aranya_crypto::{
    BaseId, EncryptionKey, GroupKey, Identified, KeyStore, KeyStoreExt as _, SigningKey,
    engine::WrappedKey,
    id::IdError,
    keystore::{Entry, Error as _, ErrorKind, Occupied as _, Vacant as _, fs_keystore, memstore::MemStore},
};
use proptest::prelude::*;
use serde::{Deserialize, Serialize};
use vcommon::{CaseInfo, CheckResult, Ctx, Failure, Report, ensure, fail};

use crate::util::{CS, engine, fill};

/// The stored value: an arbitrary serde type implementing `WrappedKey`, as the stores are generic over it.
///
/// `Serialize` is written by hand (same shape as the derived one: struct of 3 fields, `id` a 32-tuple, `data` a
/// sequence of u8) so that a value can be made to FAIL part way through its serialization: with
/// `fail == Some(k)` exactly `k` serialization steps succeed and the next one returns an error. The steps are:
/// opening the struct (so k = 0 fails before anything was emitted), each of the 32 id bytes, the tag, each data
/// byte, and closing the struct (k = 34 + data.len(): everything was emitted, the error comes last). This is the
/// deterministic stand-in for "an insert that fails after some bytes reached the store" (the fs store encodes
/// straight into the file, one write per CBOR token). `fail` is not part of the encoding.
#[derive(Clone, Debug, PartialEq, Eq, Deserialize)]
struct Blob {
    id: [u8; 32],
    tag: u64,
    data: Vec<u8>,
    #[serde(skip)]
    fail: Option<u32>,
}

struct Budget(std::cell::Cell<Option<u32>>);
impl Budget {
    fn tick<E: serde::ser::Error>(&self) -> Result<(), E> {
        match self.0.get() {
            None => Ok(()),
            Some(0) => Err(E::custom("flaky value: serialization fails on purpose")),
            Some(n) => {
                self.0.set(Some(n - 1));
                Ok(())
            }
        }
    }
}
struct IdSer<'a>(&'a [u8; 32], &'a Budget);
impl Serialize for IdSer<'_> {
    fn serialize<S: serde::Serializer>(&self, s: S) -> Result<S::Ok, S::Error> {
        use serde::ser::SerializeTuple as _;
        let mut t = s.serialize_tuple(32)?;
        for b in self.0 {
            self.1.tick()?;
            t.serialize_element(b)?;
        }
        t.end()
    }
}
struct DataSer<'a>(&'a [u8], &'a Budget);
impl Serialize for DataSer<'_> {
    fn serialize<S: serde::Serializer>(&self, s: S) -> Result<S::Ok, S::Error> {
        use serde::ser::SerializeSeq as _;
        let mut t = s.serialize_seq(Some(self.0.len()))?;
        for b in self.0 {
            self.1.tick()?;
            t.serialize_element(b)?;
        }
        t.end()
    }
}
impl Serialize for Blob {
    fn serialize<S: serde::Serializer>(&self, s: S) -> Result<S::Ok, S::Error> {
        use serde::ser::SerializeStruct as _;
        let b = Budget(std::cell::Cell::new(self.fail));
        b.tick()?;
        let mut t = s.serialize_struct("Blob", 3)?;
        t.serialize_field("id", &IdSer(&self.id, &b))?;
        b.tick()?;
        t.serialize_field("tag", &self.tag)?;
        t.serialize_field("data", &DataSer(&self.data, &b))?;
        b.tick()?;
        t.end()
    }
}

impl Identified for Blob {
    type Id = BaseId;
    fn id(&self) -> Result<BaseId, IdError> {
        Ok(BaseId::from_bytes(self.id))
    }
}
impl WrappedKey for Blob {}

const NIDS: usize = 6;

fn id_of(i: u8) -> [u8; 32] {
    match i as usize % NIDS {
        0 => [0u8; 32],
        1 => [0xff; 32],
        2 => {
            let mut a = [0u8; 32];
            a[31] = 1;
            a
        }
        3 => {
            let mut a = [0u8; 32];
            a[0] = 1;
            a
        }
        4 => *b"abcdefghijklmnopqrstuvwxyz012345",
        _ => *b"abcdefghijklmnopqrstuvwxyz012346",
    }
}

#[derive(Clone, Debug, Serialize, Deserialize)]
struct Payload {
    tag: u64,
    len: u16,
    /// `Some(k)`: the value's serialization fails after k steps (capped at "late" = 34 + len, see `Blob`)
    #[serde(default)]
    fail: Option<u16>,
}

impl Payload {
    fn late(&self) -> u32 {
        34 + self.len as u32
    }
    fn blob(&self, id: [u8; 32]) -> Blob {
        Blob { id, tag: self.tag, data: fill(self.tag, self.len as usize), fail: self.fail.map(|k| (k as u32).min(self.late())) }
    }
}

#[derive(Clone, Debug, Serialize, Deserialize)]
enum Op {
    /// `entry(id)`: a vacant entry is filled with `insert` or dropped (None); an occupied entry is read `gets`
    /// times, then removed or dropped.
    Entry { h: u8, id: u8, insert: Option<Payload>, gets: u8, remove: bool },
    Get { h: u8, id: u8 },
    TryInsert { h: u8, id: u8, p: Payload },
    Remove { h: u8, id: u8 },
    /// close handle h and open the directory again
    Reopen { h: u8 },
    /// open the same directory a second/third time and keep both handles
    OpenAnother,
    TryClone { h: u8 },
    Close { h: u8 },
}

trait Backend {
    type S: KeyStore;
    const NAME: &'static str;
    const MULTI: bool;
    fn open(&self) -> Result<Self::S, String>;
    fn try_clone(&self, s: &Self::S) -> Result<Self::S, String>;
    /// file names in the backing directory, if there is one
    fn listing(&self) -> Option<BTreeSet<String>>;
}

struct Mem;
impl Backend for Mem {
    type S = MemStore;
    const NAME: &'static str = "mem";
    const MULTI: bool = false;
    fn open(&self) -> Result<MemStore, String> {
        Ok(MemStore::new())
    }
    fn try_clone(&self, s: &MemStore) -> Result<MemStore, String> {
        Ok(s.clone())
    }
    fn listing(&self) -> Option<BTreeSet<String>> {
        None
    }
}

struct Fs {
    dir: tempfile::TempDir,
}
impl Fs {
    fn new() -> Fs {
        // tmpfs when available: inserts call fdatasync
        let dir = tempfile::Builder::new()
            .prefix("vh-cry-c45-")
            .tempdir_in("/dev/shm")
            .or_else(|_| tempfile::tempdir())
            .expect("temp dir");
        Fs { dir }
    }
}
impl Backend for Fs {
    type S = fs_keystore::Store;
    const NAME: &'static str = "fs";
    const MULTI: bool = true;
    fn open(&self) -> Result<Self::S, String> {
        fs_keystore::Store::open(self.dir.path()).map_err(|e| e.to_string())
    }
    fn try_clone(&self, s: &Self::S) -> Result<Self::S, String> {
        s.try_clone().map_err(|e| e.to_string())
    }
    fn listing(&self) -> Option<BTreeSet<String>> {
        Some(
            std::fs::read_dir(self.dir.path())
                .expect("read_dir")
                .map(|e| e.expect("dirent").file_name().to_string_lossy().into_owned())
                .collect(),
        )
    }
}

type Model = HashMap<[u8; 32], Blob>;

fn check_listing<B: Backend>(b: &B, m: &Model, at: &str) -> CheckResult {
    if let Some(mut got) = b.listing() {
        // debug builds keep an empty canary file to detect a deleted root (see Store::init_canary)
        got.remove("__canary");
        let want: BTreeSet<String> = m.keys().map(|k| BaseId::from_bytes(*k).to_string()).collect();
        let extra: Vec<_> = got.difference(&want).cloned().collect();
        let missing: Vec<_> = want.difference(&got).cloned().collect();
        ensure!(extra.is_empty(), "directory holds a file for an unoccupied id", "{at}: extra={extra:?}");
        ensure!(missing.is_empty(), "directory lacks the file of an occupied id", "{at}: missing={missing:?}");
    }
    Ok(())
}

fn check_all<B: Backend>(b: &B, handles: &[B::S], m: &Model, at: &str) -> CheckResult {
    for (hi, s) in handles.iter().enumerate() {
        for i in 0..NIDS as u8 {
            let id = id_of(i);
            let got = s.get::<Blob>(BaseId::from_bytes(id));
            match (got, m.get(&id)) {
                (Ok(None), None) => {}
                (Ok(Some(g)), Some(w)) => ensure!(g == *w, "get returned another value", "{at}: handle {hi} id#{i}"),
                (Ok(g), w) => fail!("get disagrees with the model on occupancy", "{at}: handle {hi} id#{i} got={} want={}", g.is_some(), w.is_some()),
                (Err(e), _) => fail!("get failed", "{at}: handle {hi} id#{i}: {e}"),
            }
        }
    }
    check_listing(b, m, at)
}

/// Model of a failed insert: the id is vacant, as if the call had not been made. Checked right away: `get` through
/// every open handle gives `None`, the directory (if any) has no file for it, and `entry` on the handle that made the
/// call is `Vacant` again (dropped without inserting, which again must leave nothing behind).
fn after_failed_insert<B: Backend>(b: &B, handles: &mut [B::S], h: usize, key: [u8; 32], at: &str) -> CheckResult {
    let name = BaseId::from_bytes(key).to_string();
    if let Some(l) = b.listing() {
        ensure!(!l.contains(&name), "failed insert left a file behind", "{at}");
    }
    for (hi, s) in handles.iter().enumerate() {
        match s.get::<Blob>(BaseId::from_bytes(key)) {
            Ok(None) => {}
            Ok(Some(_)) => fail!("id is occupied after a failed insert", "{at}: get through handle {hi} returns a value"),
            Err(e) => fail!("get fails after a failed insert", "{at}: handle {hi}: {e}"),
        }
    }
    match handles[h].entry::<Blob>(BaseId::from_bytes(key)) {
        Ok(Entry::Vacant(v)) => drop(v),
        Ok(Entry::Occupied(_)) => fail!("entry is occupied after a failed insert", "{at}"),
        Err(e) => fail!("entry failed", "{at}: after a failed insert: {e}"),
    }
    if let Some(l) = b.listing() {
        ensure!(!l.contains(&name), "failed insert left a file behind", "{at}: after a vacant entry for the id was dropped");
    }
    Ok(())
}

/// `avoid_reread`: leave out the shape "occupied entry read, then read again or removed" (see the known
/// finding of part `fs_occupied_reread`); such an entry is read once and dropped instead, and counted.
fn run_ops<B: Backend>(b: &B, ops: &[Op], info: &mut CaseInfo, avoid_reread: bool) -> CheckResult {
    let mut handles: Vec<B::S> = vec![b.open().map_err(|e| Failure::new("open failed", e))?];
    let mut m: Model = HashMap::new();
    let (mut vac_drop, mut dup, mut reopen_nonempty, mut occ_multi_get, mut excluded) = (0, 0, 0, 0, 0);
    // failed inserts: total, with >= 1 step emitted, failing only at the very end, followed later by a successful
    // insert at the same id, and "a reopen happened after a failed insert"
    let (mut ins_failed, mut ins_failed_partial, mut ins_failed_late, mut reinsert_after_failed, mut reopen_after_failed) = (0, 0, 0, 0, 0);
    let mut failed_ids: BTreeSet<[u8; 32]> = BTreeSet::new();
    for (oi, op) in ops.iter().enumerate() {
        let at = format!("{} op#{oi} {op:?}", B::NAME);
        let nh = handles.len();
        match op {
            Op::Entry { h, id, insert, gets, remove } => {
                let key = id_of(*id);
                let mut pending: Option<(String, bool)> = None;
                let mut failed_now = false;
                let s = &mut handles[*h as usize % nh];
                let e = s.entry::<Blob>(BaseId::from_bytes(key)).map_err(|e| Failure::new("entry failed", format!("{at}: {e}")))?;
                match (e, m.contains_key(&key)) {
                    (Entry::Vacant(v), false) => match insert {
                        Some(p) => {
                            let blob = p.blob(key);
                            let r = v.insert(blob.clone());
                            if blob.fail.is_some() {
                                // the value cannot be serialized: the insert cannot have succeeded
                                ensure!(r.is_err(), "insert of a value whose serialization fails reported success", "{at}");
                                failed_now = true;
                            } else {
                                r.map_err(|e| Failure::new("insert through a vacant entry failed", format!("{at}: {e}")))?;
                                if failed_ids.contains(&key) {
                                    reinsert_after_failed += 1;
                                }
                                m.insert(key, blob);
                            }
                        }
                        None => {
                            drop(v);
                            vac_drop += 1;
                        }
                    },
                    (Entry::Occupied(o), true) => {
                        let want = m.get(&key).unwrap().clone();
                        let (gets, remove) = if avoid_reread && (*gets >= 2 || (*gets == 1 && *remove)) {
                            excluded += 1;
                            (&1u8, &false)
                        } else {
                            (gets, remove)
                        };
                        for g in 0..*gets {
                            let got = o.get().map_err(|e| {
                                Failure::new(
                                    if g == 0 { "occupied entry get failed" } else { "occupied entry re-read failed" },
                                    format!("{at}: read #{g}: {e}"),
                                )
                            })?;
                            ensure!(got == want, "occupied entry get returned another value", "{at}: read #{g}");
                            if g >= 1 {
                                occ_multi_get += 1;
                            }
                        }
                        if *remove {
                            // the model removes first: whatever `remove` returns, the call was made
                            let r = o.remove();
                            match r {
                                Ok(got) => {
                                    ensure!(got == want, "remove returned another value", "{at}");
                                    m.remove(&key);
                                }
                                Err(e) => pending = Some((e.to_string(), *gets > 0)),
                            }
                        }
                    }
                    (Entry::Vacant(_), true) => fail!("entry is vacant for an occupied id", "{at}"),
                    (Entry::Occupied(_), false) => fail!("entry is occupied for a vacant id", "{at}"),
                }
                if failed_now {
                    let p = insert.as_ref().unwrap();
                    after_failed_insert(b, &mut handles, *h as usize % nh, key, &at)?;
                    failed_ids.insert(key);
                    ins_failed += 1;
                    ins_failed_partial += (p.fail.unwrap_or(0) >= 1) as u32;
                    ins_failed_late += (p.fail.unwrap_or(0) as u32 >= p.late()) as u32;
                }
                if let Some((e, after_get)) = pending {
                    let after = match handles[*h as usize % nh].get::<Blob>(BaseId::from_bytes(key)) {
                        Ok(Some(_)) => "the id is still occupied",
                        Ok(None) => "the id is vacant although remove reported an error",
                        Err(_) => "get fails afterwards",
                    };
                    fail!(
                        if after_get { "occupied entry remove after get failed" } else { "occupied entry remove failed" },
                        "{at}: {e}; afterwards {after}"
                    );
                }
            }
            Op::Get { h, id } => {
                let key = id_of(*id);
                let got = handles[*h as usize % nh].get::<Blob>(BaseId::from_bytes(key)).map_err(|e| Failure::new("get failed", format!("{at}: {e}")))?;
                ensure!(got.as_ref() == m.get(&key), "get disagrees with the model", "{at}: got={:?} want={:?}", got.map(|b| b.tag), m.get(&key).map(|b| b.tag));
            }
            Op::TryInsert { h, id, p } => {
                let key = id_of(*id);
                let blob = p.blob(key);
                let r = handles[*h as usize % nh].try_insert(BaseId::from_bytes(key), blob.clone());
                if m.contains_key(&key) {
                    dup += 1;
                    match r {
                        Ok(()) => fail!("duplicate insert accepted", "{at}"),
                        Err(e) => ensure!(e.kind() == ErrorKind::AlreadyExists, "duplicate insert reports another error kind", "{at}: {e}"),
                    }
                } else if blob.fail.is_some() {
                    ensure!(r.is_err(), "insert of a value whose serialization fails reported success", "{at}");
                    after_failed_insert(b, &mut handles, *h as usize % nh, key, &at)?;
                    failed_ids.insert(key);
                    ins_failed += 1;
                    ins_failed_partial += (p.fail.unwrap_or(0) >= 1) as u32;
                    ins_failed_late += (p.fail.unwrap_or(0) as u32 >= p.late()) as u32;
                } else {
                    r.map_err(|e| Failure::new("try_insert failed", format!("{at}: {e}")))?;
                    if failed_ids.contains(&key) {
                        reinsert_after_failed += 1;
                    }
                    m.insert(key, blob);
                }
            }
            Op::Remove { h, id } => {
                let key = id_of(*id);
                let got = handles[*h as usize % nh].remove::<Blob>(BaseId::from_bytes(key)).map_err(|e| Failure::new("remove failed", format!("{at}: {e}")))?;
                let want = m.remove(&key);
                ensure!(got == want, "remove disagrees with the model", "{at}: got={:?} want={:?}", got.map(|b| b.tag), want.map(|b| b.tag));
            }
            Op::Reopen { h } => {
                if !B::MULTI {
                    continue;
                }
                let i = *h as usize % nh;
                let fresh = b.open().map_err(|e| Failure::new("reopen failed", format!("{at}: {e}")))?;
                handles[i] = fresh;
                if !m.is_empty() {
                    reopen_nonempty += 1;
                }
                if ins_failed > 0 {
                    reopen_after_failed += 1;
                }
                check_all(b, &handles, &m, &at)?;
            }
            Op::OpenAnother => {
                if !B::MULTI || nh >= 3 {
                    continue;
                }
                handles.push(b.open().map_err(|e| Failure::new("reopen failed", format!("{at}: {e}")))?);
                if !m.is_empty() {
                    reopen_nonempty += 1;
                }
                if ins_failed > 0 {
                    reopen_after_failed += 1;
                }
                check_all(b, &handles, &m, &at)?;
            }
            Op::TryClone { h } => {
                if !B::MULTI || nh >= 3 {
                    continue;
                }
                let c = b.try_clone(&handles[*h as usize % nh]).map_err(|e| Failure::new("try_clone failed", format!("{at}: {e}")))?;
                handles.push(c);
                check_all(b, &handles, &m, &at)?;
            }
            Op::Close { h } => {
                if nh >= 2 {
                    handles.remove(*h as usize % nh);
                }
            }
        }
        if B::MULTI {
            check_listing(b, &m, &at)?;
        } else {
            // in memory a full read-back after every op is cheap
            check_all(b, &handles, &m, &at)?;
        }
    }
    check_all(b, &handles, &m, "end")?;
    if B::MULTI {
        // everything closed, directory opened afresh
        handles.clear();
        handles.push(b.open().map_err(|e| Failure::new("reopen failed", e))?);
        check_all(b, &handles, &m, "final reopen")?;
    }
    if vac_drop >= 1 && dup >= 1 && (!B::MULTI || reopen_nonempty >= 1) {
        info.nontrivial();
    }
    if vac_drop >= 1 {
        info.label(format!("{}_vacant_dropped", B::NAME));
    }
    if dup >= 1 {
        info.label(format!("{}_duplicate_insert", B::NAME));
    }
    if reopen_nonempty >= 1 {
        info.label(format!("{}_reopen_nonempty", B::NAME));
    }
    if excluded >= 1 {
        info.label(format!("{}_excluded_known_reread_shape", B::NAME));
    }
    if ins_failed >= 1 {
        info.label(format!("{}_failed_insert", B::NAME));
    }
    if ins_failed_partial >= 1 {
        info.label(format!("{}_failed_insert_after_partial_output", B::NAME));
    }
    if ins_failed_late >= 1 {
        info.label(format!("{}_failed_insert_at_the_very_end", B::NAME));
    }
    if reinsert_after_failed >= 1 {
        info.label(format!("{}_successful_insert_after_failed_one_same_id", B::NAME));
    }
    if reopen_after_failed >= 1 {
        info.label(format!("{}_reopen_after_failed_insert", B::NAME));
    }
    if occ_multi_get >= 1 {
        info.label(format!("{}_occupied_read_twice", B::NAME));
    }
    Ok(())
}

fn check_mem(ops: &Vec<Op>, info: &mut CaseInfo) -> CheckResult {
    run_ops(&Mem, ops, info, false)
}

fn check_fs(ops: &Vec<Op>, info: &mut CaseInfo) -> CheckResult {
    run_ops(&Fs::new(), ops, info, true)
}

fn check_fs_reread(ops: &Vec<Op>, info: &mut CaseInfo) -> CheckResult {
    run_ops(&Fs::new(), ops, info, false)
}

/// `big`: largest payload. The fs store reads and writes its CBOR files one byte per syscall, so fs parts use
/// payloads in the size range of real wrapped keys (<= 400 data bytes).
fn payload(big: u16) -> impl Strategy<Value = Payload> {
    // about one value in four fails to serialize: before anything was emitted (0), within the first tokens, somewhere
    // in id/tag/data, or only at the very end (u16::MAX is capped to "late" by `Payload::blob`)
    let fail = prop_oneof![
        12 => Just(None),
        1 => Just(Some(0u16)),
        1 => (1u16..4).prop_map(Some),
        1 => (0u16..120).prop_map(Some),
        1 => Just(Some(u16::MAX)),
    ];
    (any::<u64>(), prop_oneof![3 => 0u16..64, 1 => Just(0u16), 1 => 0u16..big], fail).prop_map(|(tag, len, fail)| Payload { tag, len, fail })
}

fn op(max_gets: u8, big: u16) -> impl Strategy<Value = Op> {
    let id = 0u8..NIDS as u8;
    let h = 0u8..3;
    prop_oneof![
        6 => (h.clone(), id.clone(), prop::option::weighted(0.6, payload(big)), 0u8..=max_gets, any::<bool>())
            .prop_map(|(h, id, insert, gets, remove)| Op::Entry { h, id, insert, gets, remove }),
        3 => (h.clone(), id.clone()).prop_map(|(h, id)| Op::Get { h, id }),
        3 => (h.clone(), id.clone(), payload(big)).prop_map(|(h, id, p)| Op::TryInsert { h, id, p }),
        2 => (h.clone(), id.clone()).prop_map(|(h, id)| Op::Remove { h, id }),
        1 => h.clone().prop_map(|h| Op::Reopen { h }),
        1 => Just(Op::OpenAnother),
        1 => h.clone().prop_map(|h| Op::TryClone { h }),
        1 => h.prop_map(|h| Op::Close { h }),
    ]
}

// ------------------------------------------------------------------------------------------------
// KeyStoreExt with real wrapped keys

#[derive(Clone, Debug, Serialize, Deserialize)]
enum XOp {
    Insert(u8),
    Get(u8),
    Remove(u8),
    Reopen,
}

#[derive(Clone, Debug, Serialize, Deserialize)]
struct XCase {
    seed: u64,
    ops: Vec<XOp>,
}

fn run_ext<B: Backend>(b: &B, c: &XCase, info: &mut CaseInfo) -> CheckResult {
    let eng = engine(c.seed, 0x45);
    let sk = [SigningKey::<CS>::new(&eng), SigningKey::<CS>::new(&eng)];
    let ek = [EncryptionKey::<CS>::new(&eng), EncryptionKey::<CS>::new(&eng)];
    let gk = [GroupKey::<CS>::new(&eng), GroupKey::<CS>::new(&eng)];
    let mut store = b.open().map_err(|e| Failure::new("open failed", e))?;
    let mut present = [false; 6];
    let es = |sig: &'static str, at: &str| {
        let at = at.to_string();
        move |e: <B::S as KeyStore>::Error| Failure::new(sig, format!("{at}: {e}"))
    };
    let mut hits = 0;
    for (oi, op) in c.ops.iter().enumerate() {
        let at = format!("{} op#{oi} {op:?}", B::NAME);
        match op {
            XOp::Insert(k) => {
                let k = *k as usize % 6;
                let r = match k / 2 {
                    0 => store.insert_key(&eng, sk[k % 2].clone()).map(|i| i.as_base()),
                    1 => store.insert_key(&eng, ek[k % 2].clone()).map(|i| i.as_base()),
                    _ => store.insert_key(&eng, gk[k % 2].clone()).map(|i| i.as_base()),
                };
                if present[k] {
                    match r {
                        Ok(_) => fail!("duplicate insert accepted", "{at}"),
                        Err(e) => ensure!(e.kind() == ErrorKind::AlreadyExists, "duplicate insert reports another error kind", "{at}: {e}"),
                    }
                } else {
                    let id = r.map_err(es("insert_key failed", &at))?;
                    let want = match k / 2 {
                        0 => sk[k % 2].id().unwrap().as_base(),
                        1 => ek[k % 2].id().unwrap().as_base(),
                        _ => gk[k % 2].id().unwrap().as_base(),
                    };
                    ensure!(id == want, "insert_key returned another id", "{at}");
                    present[k] = true;
                }
            }
            XOp::Get(k) | XOp::Remove(k) => {
                let k = *k as usize % 6;
                let rm = matches!(op, XOp::Remove(_));
                let got: Option<BaseId> = match k / 2 {
                    0 => {
                        let id = sk[k % 2].id().unwrap();
                        let r = if rm { store.remove_key::<_, SigningKey<CS>>(&eng, id) } else { store.get_key::<_, SigningKey<CS>>(&eng, id) };
                        r.map_err(es("get_key/remove_key failed", &at))?.map(|x| x.id().unwrap().as_base())
                    }
                    1 => {
                        let id = ek[k % 2].id().unwrap();
                        let r = if rm { store.remove_key::<_, EncryptionKey<CS>>(&eng, id) } else { store.get_key::<_, EncryptionKey<CS>>(&eng, id) };
                        r.map_err(es("get_key/remove_key failed", &at))?.map(|x| x.id().unwrap().as_base())
                    }
                    _ => {
                        let id = gk[k % 2].id().unwrap();
                        let r = if rm { store.remove_key::<_, GroupKey<CS>>(&eng, id) } else { store.get_key::<_, GroupKey<CS>>(&eng, id) };
                        r.map_err(es("get_key/remove_key failed", &at))?.map(|x| x.id().unwrap().as_base())
                    }
                };
                let want = match k / 2 {
                    0 => sk[k % 2].id().unwrap().as_base(),
                    1 => ek[k % 2].id().unwrap().as_base(),
                    _ => gk[k % 2].id().unwrap().as_base(),
                };
                if present[k] {
                    ensure!(got == Some(want), "stored key not returned", "{at}: got={got:?}");
                    hits += 1;
                } else {
                    ensure!(got.is_none(), "key returned for a vacant id", "{at}: got={got:?}");
                }
                if rm {
                    present[k] = false;
                }
            }
            XOp::Reopen => {
                if B::MULTI {
                    store = b.open().map_err(|e| Failure::new("reopen failed", e))?;
                }
            }
        }
        if let Some(mut l) = b.listing() {
            l.remove("__canary");
            let n = present.iter().filter(|p| **p).count();
            ensure!(l.len() == n, "directory entry count differs from the number of stored keys", "{at}: {l:?} vs {n}");
        }
    }
    if hits >= 2 {
        info.nontrivial();
    }
    Ok(())
}

fn xcase() -> impl Strategy<Value = XCase> {
    let op = prop_oneof![
        4 => (0u8..6).prop_map(XOp::Insert),
        3 => (0u8..6).prop_map(XOp::Get),
        2 => (0u8..6).prop_map(XOp::Remove),
        1 => Just(XOp::Reopen),
    ];
    (any::<u64>(), prop::collection::vec(op, 1..24)).prop_map(|(seed, ops)| XCase { seed, ops })
}

pub fn run(ctx: &Ctx) -> ! {
    let mut rep = Report::new(ctx, "exploration");
    rep.assume("the stored value is a harness-defined serde type implementing WrappedKey (id, tag, 0..1500 data bytes in memory, 0..400 on the file system); the stores are generic over the wrapped key type");
    rep.assume("failing inserts are produced by a stored value whose Serialize impl returns an error after k steps (the fs store encodes straight into the file, one write per CBOR token, so k > 0 means bytes have reached the file); failures of write(2)/fdatasync(2) themselves are not injected");
    rep.assume("single process, single thread: an entry borrows its store mutably, so entry/insert/get/remove/drop are atomic per handle; two handles on one directory are used alternately, never with an entry held open on the other handle (that would block on flock in one thread)");
    rep.assume("fs store directories are per-case temp dirs on /dev/shm when it exists (else the default temp dir); the `__canary` file the store creates when debug assertions are on is not counted as a leftover");
    rep.explore(
        "memstore_model",
        "op sequences (len 1..60) over 6 ids (all-zero, all-0xff, near-zero, two ids differing in the last bit): entry -> vacant \
         {insert | drop} / occupied {0..3 reads, then remove | drop}, get, try_insert (incl. duplicates), remove; about 1 in 4 \
         inserted values FAILS to serialize after k steps (k = 0, 1..3, 0..119, or only at the very end): such an insert must \
         return an error and leave the id vacant (get None through every handle, entry Vacant again, a later insert works); \
         vs a HashMap model, with a read-back of all 6 ids after every op. non-trivial = >=1 vacant entry dropped and >=1 duplicate insert",
        || prop::collection::vec(op(3, 1500), 1..60),
        ctx.pick(20_000, 500_000),
        check_mem,
    );
    rep.explore(
        "fs_store_model",
        "same op sequences (len 1..40) on fs_keystore::Store in a fresh temp dir, plus reopen / second and third handle on the same \
         directory / try_clone / close; after EVERY op the directory listing must be exactly the base58 names of the occupied ids \
         (plus the debug canary) -- in particular no file for an id whose insert failed part way, also after reopening; an occupied entry that would be read and then read again or removed is read once and dropped \
         instead (that shape is part fs_occupied_reread; label fs_excluded_known_reread_shape counts the cases); after every reopen and at the end every handle must return the model's value for every id; \
         finally all handles are closed and the directory is opened afresh. non-trivial = >=1 vacant entry dropped, >=1 duplicate \
         insert and >=1 reopen of a non-empty store",
        || prop::collection::vec(op(3, 400), 1..40),
        ctx.pick(4_000, 80_000),
        check_fs,
    );
    rep.explore(
        "fs_occupied_reread",
        "the shape left out of fs_store_model: short sequences (len 1..14) in which an occupied fs entry is read up to 3 times and \
         then removed or dropped; same model, directory oracle and non-trivial rule as fs_store_model",
        || prop::collection::vec(op(3, 400), 1..14),
        ctx.pick(1_200, 24_000),
        check_fs_reread,
    );
    rep.explore(
        "ext_real_keys_mem",
        "KeyStoreExt::insert_key/get_key/remove_key with a seeded DefaultEngine and real SigningKey/EncryptionKey/GroupKey (2 each) on \
         MemStore vs a presence model; returned keys must have the inserted key's id. non-trivial = >=2 successful reads",
        xcase,
        ctx.pick(1_000, 20_000),
        |c, i| run_ext(&Mem, c, i),
    );
    rep.explore(
        "ext_real_keys_fs",
        "same on fs_keystore::Store with reopen; directory entry count must equal the number of stored keys after every op",
        xcase,
        ctx.pick(1_000, 20_000),
        |c, i| run_ext(&Fs::new(), c, i),
    );
    rep.finish()
}
