//! C45: MemStore and fs_keystore::Store behave as maps from key id to wrapped key.
use std::collections::{BTreeSet, HashMap};

use aranya_crypto::{
    BaseId, EncryptionKey, GroupKey, Identified, KeyStore, KeyStoreExt as _, SigningKey,
    engine::WrappedKey,
    id::IdError,
    keystore::{Entry, Error as _, ErrorKind, Occupied as _, Vacant as _, fs_keystore, memstore::MemStore},
};
use proptest::prelude::*;
use serde::{Deserialize, Serialize};
use vcommon::{CaseInfo, CheckResult, Ctx, Failure, Report, ensure, fail};

use crate::util::{CS, engine, fill};

/// The stored value: an arbitrary serde type implementing `WrappedKey`, as the stores are generic over it.
#[derive(Clone, Debug, PartialEq, Eq, Serialize, Deserialize)]
struct Blob {
    id: [u8; 32],
    tag: u64,
    data: Vec<u8>,
}

impl Identified for Blob {
    type Id = BaseId;
    fn id(&self) -> Result<BaseId, IdError> {
        Ok(BaseId::from_bytes(self.id))
    }
}
impl WrappedKey for Blob {}

const NIDS: usize = 6;

fn id_of(i: u8) -> [u8; 32] {
    match i as usize % NIDS {
        0 => [0u8; 32],
        1 => [0xff; 32],
        2 => {
            let mut a = [0u8; 32];
            a[31] = 1;
            a
        }
        3 => {
            let mut a = [0u8; 32];
            a[0] = 1;
            a
        }
        4 => *b"abcdefghijklmnopqrstuvwxyz012345",
        _ => *b"abcdefghijklmnopqrstuvwxyz012346",
    }
}

#[derive(Clone, Debug, Serialize, Deserialize)]
struct Payload {
    tag: u64,
    len: u16,
}

impl Payload {
    fn blob(&self, id: [u8; 32]) -> Blob {
        Blob { id, tag: self.tag, data: fill(self.tag, self.len as usize) }
    }
}

#[derive(Clone, Debug, Serialize, Deserialize)]
enum Op {
    /// `entry(id)`: a vacant entry is filled with `insert` or dropped (None); an occupied entry is read `gets`
    /// times, then removed or dropped.
    Entry { h: u8, id: u8, insert: Option<Payload>, gets: u8, remove: bool },
    Get { h: u8, id: u8 },
    TryInsert { h: u8, id: u8, p: Payload },
    Remove { h: u8, id: u8 },
    /// close handle h and open the directory again
    Reopen { h: u8 },
    /// open the same directory a second/third time and keep both handles
    OpenAnother,
    TryClone { h: u8 },
    Close { h: u8 },
}

trait Backend {
    type S: KeyStore;
    const NAME: &'static str;
    const MULTI: bool;
    fn open(&self) -> Result<Self::S, String>;
    fn try_clone(&self, s: &Self::S) -> Result<Self::S, String>;
    /// file names in the backing directory, if there is one
    fn listing(&self) -> Option<BTreeSet<String>>;
}

struct Mem;
impl Backend for Mem {
    type S = MemStore;
    const NAME: &'static str = "mem";
    const MULTI: bool = false;
    fn open(&self) -> Result<MemStore, String> {
        Ok(MemStore::new())
    }
    fn try_clone(&self, s: &MemStore) -> Result<MemStore, String> {
        Ok(s.clone())
    }
    fn listing(&self) -> Option<BTreeSet<String>> {
        None
    }
}

struct Fs {
    dir: tempfile::TempDir,
}
impl Fs {
    fn new() -> Fs {
        // tmpfs when available: inserts call fdatasync
        let dir = tempfile::Builder::new()
            .prefix("vh-cry-c45-")
            .tempdir_in("/dev/shm")
            .or_else(|_| tempfile::tempdir())
            .expect("temp dir");
        Fs { dir }
    }
}
impl Backend for Fs {
    type S = fs_keystore::Store;
    const NAME: &'static str = "fs";
    const MULTI: bool = true;
    fn open(&self) -> Result<Self::S, String> {
        fs_keystore::Store::open(self.dir.path()).map_err(|e| e.to_string())
    }
    fn try_clone(&self, s: &Self::S) -> Result<Self::S, String> {
        s.try_clone().map_err(|e| e.to_string())
    }
    fn listing(&self) -> Option<BTreeSet<String>> {
        Some(
            std::fs::read_dir(self.dir.path())
                .expect("read_dir")
                .map(|e| e.expect("dirent").file_name().to_string_lossy().into_owned())
                .collect(),
        )
    }
}

type Model = HashMap<[u8; 32], Blob>;

fn check_listing<B: Backend>(b: &B, m: &Model, at: &str) -> CheckResult {
    if let Some(mut got) = b.listing() {
        // debug builds keep an empty canary file to detect a deleted root (see Store::init_canary)
        got.remove("__canary");
        let want: BTreeSet<String> = m.keys().map(|k| BaseId::from_bytes(*k).to_string()).collect();
        let extra: Vec<_> = got.difference(&want).cloned().collect();
        let missing: Vec<_> = want.difference(&got).cloned().collect();
        ensure!(extra.is_empty(), "directory holds a file for an unoccupied id", "{at}: extra={extra:?}");
        ensure!(missing.is_empty(), "directory lacks the file of an occupied id", "{at}: missing={missing:?}");
    }
    Ok(())
}

fn check_all<B: Backend>(b: &B, handles: &[B::S], m: &Model, at: &str) -> CheckResult {
    for (hi, s) in handles.iter().enumerate() {
        for i in 0..NIDS as u8 {
            let id = id_of(i);
            let got = s.get::<Blob>(BaseId::from_bytes(id));
            match (got, m.get(&id)) {
                (Ok(None), None) => {}
                (Ok(Some(g)), Some(w)) => ensure!(g == *w, "get returned another value", "{at}: handle {hi} id#{i}"),
                (Ok(g), w) => fail!("get disagrees with the model on occupancy", "{at}: handle {hi} id#{i} got={} want={}", g.is_some(), w.is_some()),
                (Err(e), _) => fail!("get failed", "{at}: handle {hi} id#{i}: {e}"),
            }
        }
    }
    check_listing(b, m, at)
}

/// `avoid_reread`: leave out the shape "occupied entry read, then read again or removed" (see the known
/// finding of part `fs_occupied_reread`); such an entry is read once and dropped instead, and counted.
fn run_ops<B: Backend>(b: &B, ops: &[Op], info: &mut CaseInfo, avoid_reread: bool) -> CheckResult {
    let mut handles: Vec<B::S> = vec![b.open().map_err(|e| Failure::new("open failed", e))?];
    let mut m: Model = HashMap::new();
    let (mut vac_drop, mut dup, mut reopen_nonempty, mut occ_multi_get, mut excluded) = (0, 0, 0, 0, 0);
    for (oi, op) in ops.iter().enumerate() {
        let at = format!("{} op#{oi} {op:?}", B::NAME);
        let nh = handles.len();
        match op {
            Op::Entry { h, id, insert, gets, remove } => {
                let key = id_of(*id);
                let mut pending: Option<(String, bool)> = None;
                let s = &mut handles[*h as usize % nh];
                let e = s.entry::<Blob>(BaseId::from_bytes(key)).map_err(|e| Failure::new("entry failed", format!("{at}: {e}")))?;
                match (e, m.contains_key(&key)) {
                    (Entry::Vacant(v), false) => match insert {
                        Some(p) => {
                            let blob = p.blob(key);
                            v.insert(blob.clone()).map_err(|e| Failure::new("insert through a vacant entry failed", format!("{at}: {e}")))?;
                            m.insert(key, blob);
                        }
                        None => {
                            drop(v);
                            vac_drop += 1;
                        }
                    },
                    (Entry::Occupied(o), true) => {
                        let want = m.get(&key).unwrap().clone();
                        let (gets, remove) = if avoid_reread && (*gets >= 2 || (*gets == 1 && *remove)) {
                            excluded += 1;
                            (&1u8, &false)
                        } else {
                            (gets, remove)
                        };
                        for g in 0..*gets {
                            let got = o.get().map_err(|e| {
                                Failure::new(
                                    if g == 0 { "occupied entry get failed" } else { "occupied entry re-read failed" },
                                    format!("{at}: read #{g}: {e}"),
                                )
                            })?;
                            ensure!(got == want, "occupied entry get returned another value", "{at}: read #{g}");
                            if g >= 1 {
                                occ_multi_get += 1;
                            }
                        }
                        if *remove {
                            // the model removes first: whatever `remove` returns, the call was made
                            let r = o.remove();
                            match r {
                                Ok(got) => {
                                    ensure!(got == want, "remove returned another value", "{at}");
                                    m.remove(&key);
                                }
                                Err(e) => pending = Some((e.to_string(), *gets > 0)),
                            }
                        }
                    }
                    (Entry::Vacant(_), true) => fail!("entry is vacant for an occupied id", "{at}"),
                    (Entry::Occupied(_), false) => fail!("entry is occupied for a vacant id", "{at}"),
                }
                if let Some((e, after_get)) = pending {
                    let after = match handles[*h as usize % nh].get::<Blob>(BaseId::from_bytes(key)) {
                        Ok(Some(_)) => "the id is still occupied",
                        Ok(None) => "the id is vacant although remove reported an error",
                        Err(_) => "get fails afterwards",
                    };
                    fail!(
                        if after_get { "occupied entry remove after get failed" } else { "occupied entry remove failed" },
                        "{at}: {e}; afterwards {after}"
                    );
                }
            }
            Op::Get { h, id } => {
                let key = id_of(*id);
                let got = handles[*h as usize % nh].get::<Blob>(BaseId::from_bytes(key)).map_err(|e| Failure::new("get failed", format!("{at}: {e}")))?;
                ensure!(got.as_ref() == m.get(&key), "get disagrees with the model", "{at}: got={:?} want={:?}", got.map(|b| b.tag), m.get(&key).map(|b| b.tag));
            }
            Op::TryInsert { h, id, p } => {
                let key = id_of(*id);
                let blob = p.blob(key);
                let r = handles[*h as usize % nh].try_insert(BaseId::from_bytes(key), blob.clone());
                if m.contains_key(&key) {
                    dup += 1;
                    match r {
                        Ok(()) => fail!("duplicate insert accepted", "{at}"),
                        Err(e) => ensure!(e.kind() == ErrorKind::AlreadyExists, "duplicate insert reports another error kind", "{at}: {e}"),
                    }
                } else {
                    r.map_err(|e| Failure::new("try_insert failed", format!("{at}: {e}")))?;
                    m.insert(key, blob);
                }
            }
            Op::Remove { h, id } => {
                let key = id_of(*id);
                let got = handles[*h as usize % nh].remove::<Blob>(BaseId::from_bytes(key)).map_err(|e| Failure::new("remove failed", format!("{at}: {e}")))?;
                let want = m.remove(&key);
                ensure!(got == want, "remove disagrees with the model", "{at}: got={:?} want={:?}", got.map(|b| b.tag), want.map(|b| b.tag));
            }
            Op::Reopen { h } => {
                if !B::MULTI {
                    continue;
                }
                let i = *h as usize % nh;
                let fresh = b.open().map_err(|e| Failure::new("reopen failed", format!("{at}: {e}")))?;
                handles[i] = fresh;
                if !m.is_empty() {
                    reopen_nonempty += 1;
                }
                check_all(b, &handles, &m, &at)?;
            }
            Op::OpenAnother => {
                if !B::MULTI || nh >= 3 {
                    continue;
                }
                handles.push(b.open().map_err(|e| Failure::new("reopen failed", format!("{at}: {e}")))?);
                if !m.is_empty() {
                    reopen_nonempty += 1;
                }
                check_all(b, &handles, &m, &at)?;
            }
            Op::TryClone { h } => {
                if !B::MULTI || nh >= 3 {
                    continue;
                }
                let c = b.try_clone(&handles[*h as usize % nh]).map_err(|e| Failure::new("try_clone failed", format!("{at}: {e}")))?;
                handles.push(c);
                check_all(b, &handles, &m, &at)?;
            }
            Op::Close { h } => {
                if nh >= 2 {
                    handles.remove(*h as usize % nh);
                }
            }
        }
        if B::MULTI {
            check_listing(b, &m, &at)?;
        } else {
            // in memory a full read-back after every op is cheap
            check_all(b, &handles, &m, &at)?;
        }
    }
    check_all(b, &handles, &m, "end")?;
    if B::MULTI {
        // everything closed, directory opened afresh
        handles.clear();
        handles.push(b.open().map_err(|e| Failure::new("reopen failed", e))?);
        check_all(b, &handles, &m, "final reopen")?;
    }
    if vac_drop >= 1 && dup >= 1 && (!B::MULTI || reopen_nonempty >= 1) {
        info.nontrivial();
    }
    if vac_drop >= 1 {
        info.label(format!("{}_vacant_dropped", B::NAME));
    }
    if dup >= 1 {
        info.label(format!("{}_duplicate_insert", B::NAME));
    }
    if reopen_nonempty >= 1 {
        info.label(format!("{}_reopen_nonempty", B::NAME));
    }
    if excluded >= 1 {
        info.label(format!("{}_excluded_known_reread_shape", B::NAME));
    }
    if occ_multi_get >= 1 {
        info.label(format!("{}_occupied_read_twice", B::NAME));
    }
    Ok(())
}

fn check_mem(ops: &Vec<Op>, info: &mut CaseInfo) -> CheckResult {
    run_ops(&Mem, ops, info, false)
}

fn check_fs(ops: &Vec<Op>, info: &mut CaseInfo) -> CheckResult {
    run_ops(&Fs::new(), ops, info, true)
}

fn check_fs_reread(ops: &Vec<Op>, info: &mut CaseInfo) -> CheckResult {
    run_ops(&Fs::new(), ops, info, false)
}

/// `big`: largest payload. The fs store reads and writes its CBOR files one byte per syscall, so fs parts use
/// payloads in the size range of real wrapped keys (<= 400 data bytes).
fn payload(big: u16) -> impl Strategy<Value = Payload> {
    (any::<u64>(), prop_oneof![3 => 0u16..64, 1 => Just(0u16), 1 => 0u16..big]).prop_map(|(tag, len)| Payload { tag, len })
}

fn op(max_gets: u8, big: u16) -> impl Strategy<Value = Op> {
    let id = 0u8..NIDS as u8;
    let h = 0u8..3;
    prop_oneof![
        6 => (h.clone(), id.clone(), prop::option::weighted(0.6, payload(big)), 0u8..=max_gets, any::<bool>())
            .prop_map(|(h, id, insert, gets, remove)| Op::Entry { h, id, insert, gets, remove }),
        3 => (h.clone(), id.clone()).prop_map(|(h, id)| Op::Get { h, id }),
        3 => (h.clone(), id.clone(), payload(big)).prop_map(|(h, id, p)| Op::TryInsert { h, id, p }),
        2 => (h.clone(), id.clone()).prop_map(|(h, id)| Op::Remove { h, id }),
        1 => h.clone().prop_map(|h| Op::Reopen { h }),
        1 => Just(Op::OpenAnother),
        1 => h.clone().prop_map(|h| Op::TryClone { h }),
        1 => h.prop_map(|h| Op::Close { h }),
    ]
}

// ------------------------------------------------------------------------------------------------
// KeyStoreExt with real wrapped keys

#[derive(Clone, Debug, Serialize, Deserialize)]
enum XOp {
    Insert(u8),
    Get(u8),
    Remove(u8),
    Reopen,
}

#[derive(Clone, Debug, Serialize, Deserialize)]
struct XCase {
    seed: u64,
    ops: Vec<XOp>,
}

fn run_ext<B: Backend>(b: &B, c: &XCase, info: &mut CaseInfo) -> CheckResult {
    let eng = engine(c.seed, 0x45);
    let sk = [SigningKey::<CS>::new(&eng), SigningKey::<CS>::new(&eng)];
    let ek = [EncryptionKey::<CS>::new(&eng), EncryptionKey::<CS>::new(&eng)];
    let gk = [GroupKey::<CS>::new(&eng), GroupKey::<CS>::new(&eng)];
    let mut store = b.open().map_err(|e| Failure::new("open failed", e))?;
    let mut present = [false; 6];
    let es = |sig: &'static str, at: &str| {
        let at = at.to_string();
        move |e: <B::S as KeyStore>::Error| Failure::new(sig, format!("{at}: {e}"))
    };
    let mut hits = 0;
    for (oi, op) in c.ops.iter().enumerate() {
        let at = format!("{} op#{oi} {op:?}", B::NAME);
        match op {
            XOp::Insert(k) => {
                let k = *k as usize % 6;
                let r = match k / 2 {
                    0 => store.insert_key(&eng, sk[k % 2].clone()).map(|i| i.as_base()),
                    1 => store.insert_key(&eng, ek[k % 2].clone()).map(|i| i.as_base()),
                    _ => store.insert_key(&eng, gk[k % 2].clone()).map(|i| i.as_base()),
                };
                if present[k] {
                    match r {
                        Ok(_) => fail!("duplicate insert accepted", "{at}"),
                        Err(e) => ensure!(e.kind() == ErrorKind::AlreadyExists, "duplicate insert reports another error kind", "{at}: {e}"),
                    }
                } else {
                    let id = r.map_err(es("insert_key failed", &at))?;
                    let want = match k / 2 {
                        0 => sk[k % 2].id().unwrap().as_base(),
                        1 => ek[k % 2].id().unwrap().as_base(),
                        _ => gk[k % 2].id().unwrap().as_base(),
                    };
                    ensure!(id == want, "insert_key returned another id", "{at}");
                    present[k] = true;
                }
            }
            XOp::Get(k) | XOp::Remove(k) => {
                let k = *k as usize % 6;
                let rm = matches!(op, XOp::Remove(_));
                let got: Option<BaseId> = match k / 2 {
                    0 => {
                        let id = sk[k % 2].id().unwrap();
                        let r = if rm { store.remove_key::<_, SigningKey<CS>>(&eng, id) } else { store.get_key::<_, SigningKey<CS>>(&eng, id) };
                        r.map_err(es("get_key/remove_key failed", &at))?.map(|x| x.id().unwrap().as_base())
                    }
                    1 => {
                        let id = ek[k % 2].id().unwrap();
                        let r = if rm { store.remove_key::<_, EncryptionKey<CS>>(&eng, id) } else { store.get_key::<_, EncryptionKey<CS>>(&eng, id) };
                        r.map_err(es("get_key/remove_key failed", &at))?.map(|x| x.id().unwrap().as_base())
                    }
                    _ => {
                        let id = gk[k % 2].id().unwrap();
                        let r = if rm { store.remove_key::<_, GroupKey<CS>>(&eng, id) } else { store.get_key::<_, GroupKey<CS>>(&eng, id) };
                        r.map_err(es("get_key/remove_key failed", &at))?.map(|x| x.id().unwrap().as_base())
                    }
                };
                let want = match k / 2 {
                    0 => sk[k % 2].id().unwrap().as_base(),
                    1 => ek[k % 2].id().unwrap().as_base(),
                    _ => gk[k % 2].id().unwrap().as_base(),
                };
                if present[k] {
                    ensure!(got == Some(want), "stored key not returned", "{at}: got={got:?}");
                    hits += 1;
                } else {
                    ensure!(got.is_none(), "key returned for a vacant id", "{at}: got={got:?}");
                }
                if rm {
                    present[k] = false;
                }
            }
            XOp::Reopen => {
                if B::MULTI {
                    store = b.open().map_err(|e| Failure::new("reopen failed", e))?;
                }
            }
        }
        if let Some(mut l) = b.listing() {
            l.remove("__canary");
            let n = present.iter().filter(|p| **p).count();
            ensure!(l.len() == n, "directory entry count differs from the number of stored keys", "{at}: {l:?} vs {n}");
        }
    }
    if hits >= 2 {
        info.nontrivial();
    }
    Ok(())
}

fn xcase() -> impl Strategy<Value = XCase> {
    let op = prop_oneof![
        4 => (0u8..6).prop_map(XOp::Insert),
        3 => (0u8..6).prop_map(XOp::Get),
        2 => (0u8..6).prop_map(XOp::Remove),
        1 => Just(XOp::Reopen),
    ];
    (any::<u64>(), prop::collection::vec(op, 1..24)).prop_map(|(seed, ops)| XCase { seed, ops })
}

pub fn run(ctx: &Ctx) -> ! {
    let mut rep = Report::new(ctx, "exploration");
    rep.assume("the stored value is a harness-defined serde type implementing WrappedKey (id, tag, 0..1500 data bytes in memory, 0..400 on the file system); the stores are generic over the wrapped key type");
    rep.assume("single process, single thread: an entry borrows its store mutably, so entry/insert/get/remove/drop are atomic per handle; two handles on one directory are used alternately, never with an entry held open on the other handle (that would block on flock in one thread)");
    rep.assume("fs store directories are per-case temp dirs on /dev/shm when it exists (else the default temp dir); the `__canary` file the store creates when debug assertions are on is not counted as a leftover");
    rep.explore(
        "memstore_model",
        "op sequences (len 1..60) over 6 ids (all-zero, all-0xff, near-zero, two ids differing in the last bit): entry -> vacant \
         {insert | drop} / occupied {0..3 reads, then remove | drop}, get, try_insert (incl. duplicates), remove; vs a HashMap model, \
         with a read-back of all 6 ids after every op. non-trivial = >=1 vacant entry dropped and >=1 duplicate insert",
        || prop::collection::vec(op(3, 1500), 1..60),
        ctx.pick(20_000, 500_000),
        check_mem,
    );
    rep.explore(
        "fs_store_model",
        "same op sequences (len 1..40) on fs_keystore::Store in a fresh temp dir, plus reopen / second and third handle on the same \
         directory / try_clone / close; after EVERY op the directory listing must be exactly the base58 names of the occupied ids \
         (plus the debug canary); an occupied entry that would be read and then read again or removed is read once and dropped \
         instead (that shape is part fs_occupied_reread; label fs_excluded_known_reread_shape counts the cases); after every reopen and at the end every handle must return the model's value for every id; \
         finally all handles are closed and the directory is opened afresh. non-trivial = >=1 vacant entry dropped, >=1 duplicate \
         insert and >=1 reopen of a non-empty store",
        || prop::collection::vec(op(3, 400), 1..40),
        ctx.pick(4_000, 80_000),
        check_fs,
    );
    rep.explore(
        "fs_occupied_reread",
        "the shape left out of fs_store_model: short sequences (len 1..14) in which an occupied fs entry is read up to 3 times and \
         then removed or dropped; same model, directory oracle and non-trivial rule as fs_store_model",
        || prop::collection::vec(op(3, 400), 1..14),
        ctx.pick(1_200, 24_000),
        check_fs_reread,
    );
    rep.explore(
        "ext_real_keys_mem",
        "KeyStoreExt::insert_key/get_key/remove_key with a seeded DefaultEngine and real SigningKey/EncryptionKey/GroupKey (2 each) on \
         MemStore vs a presence model; returned keys must have the inserted key's id. non-trivial = >=2 successful reads",
        xcase,
        ctx.pick(1_000, 20_000),
        |c, i| run_ext(&Mem, c, i),
    );
    rep.explore(
        "ext_real_keys_fs",
        "same on fs_keystore::Store with reopen; directory entry count must equal the number of stored keys after every op",
        xcase,
        ctx.pick(1_000, 20_000),
        |c, i| run_ext(&Fs::new(), c, i),
    );
    rep.finish()
}
