mod c34;
mod c36;
mod c37;
mod c45;
mod util;

fn main() {
    let ctx = vcommon::Ctx::from_args();
    ctx.watchdog(ctx.pick(900, 7200));
    match ctx.prop.as_str() {
        "C34" => c34::run(&ctx),
        "C36" => c36::run(&ctx),
        "C37" => c37::run(&ctx),
        "C45" => c45::run(&ctx),
        p => {
            println!("INCONCLUSIVE vh-cry does not serve {p}");
            std::process::exit(2);
        }
    }
}
