//! Shared helpers for the crypto harnesses: a deterministic `Csprng`, a seeded engine, byte mutation helpers.
use std::cell::Cell;

use aranya_crypto::{
    Csprng,
    default::{DefaultCipherSuite, DefaultEngine},
};

pub type CS = DefaultCipherSuite;
pub type Eng = DefaultEngine<SeedRng, CS>;

/// Deterministic byte stream (splitmix64). NOT cryptographically secure: it only makes every case a pure
/// function of its seed. None of the oracles depends on the quality of the stream, only on its determinism.
pub struct SeedRng(Cell<u64>);

impl SeedRng {
    pub fn new(seed: u64, salt: u64) -> Self {
        SeedRng(Cell::new(seed ^ salt.wrapping_mul(0xD6E8_FEB8_6659_FD93).rotate_left(17)))
    }
    fn next(&self) -> u64 {
        let s = self.0.get().wrapping_add(0x9E37_79B9_7F4A_7C15);
        self.0.set(s);
        let mut z = s;
        z = (z ^ (z >> 30)).wrapping_mul(0xBF58_476D_1CE4_E5B9);
        z = (z ^ (z >> 27)).wrapping_mul(0x94D0_49BB_1331_11EB);
        z ^ (z >> 31)
    }
}

impl Csprng for SeedRng {
    fn fill_bytes(&self, dst: &mut [u8]) {
        for c in dst.chunks_mut(8) {
            let x = self.next().to_le_bytes();
            c.copy_from_slice(&x[..c.len()]);
        }
    }
}

/// A `DefaultEngine` whose wrapping key and every later random draw derive from `(seed, salt)`.
pub fn engine(seed: u64, salt: u64) -> Eng {
    let (eng, _key) = DefaultEngine::<SeedRng, CS>::from_entropy(SeedRng::new(seed, salt));
    eng
}

/// Deterministic filler bytes.
pub fn fill(seed: u64, len: usize) -> Vec<u8> {
    let r = SeedRng::new(seed, 0xF111);
    let mut v = vec![0u8; len];
    r.fill_bytes(&mut v);
    v
}

/// `xor` mapped to 1..=255 so that a flip always changes the byte.
pub fn nz(x: u8) -> u8 {
    if x == 0 { 0x80 } else { x }
}

/// Flips one byte of `v` (position chosen monotonically from `pos`); returns the index or None when empty.
pub fn flip(v: &mut [u8], pos: u16, xor: u8) -> Option<usize> {
    if v.is_empty() {
        return None;
    }
    let i = vcommon::idx(pos, v.len());
    v[i] ^= nz(xor);
    Some(i)
}
