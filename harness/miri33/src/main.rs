//! C33, Miri side.  Runs the scenarios given on the command line against the REAL
//! `aranya_policy_text::Text` on real `std::thread`s.  Miri is the memory-safety oracle: a data
//! race between a read of shared heap text and its deallocation, a use after free, a double
//! free or a leak ends the process with Miri's error report; a wrong read panics.
//!
//! scenario := <len>,<main>,<script>(/<script>)*      main   := b | m | a   (main thread drops its own handle
//!                                                              before joining anything / after joining the first thread / after all joins)
//! script   := (c|r|d|s|g|y)*                         clone own, read+compare, drop own, send to pool, get from pool, yield
use std::{
    sync::{Arc, Mutex},
    thread,
};

use aranya_policy_text::Text;

fn content(len: usize) -> String {
    (0..len).map(|i| (b'a' + ((i * 7 + len) % 26) as u8) as char).collect()
}

fn read(t: &Text, want: &str) {
    assert!(t.as_str() == want, "text read returned wrong bytes");
}

fn run(sc: &str) {
    let mut it = sc.split(',');
    let len: usize = it.next().unwrap().parse().unwrap();
    let main_drop = it.next().unwrap().to_string();
    let scripts: Vec<String> = it.next().unwrap_or("").split('/').map(str::to_string).collect();
    let want = Arc::new(content(len));
    let base: Text = want.parse().expect("valid text");
    let pool: Arc<Mutex<Vec<Text>>> = Arc::new(Mutex::new(Vec::new()));
    let mut hs = Vec::new();
    for script in scripts {
        let mine0 = base.clone();
        let want = Arc::clone(&want);
        let pool = Arc::clone(&pool);
        hs.push(thread::spawn(move || {
            let mut mine = vec![mine0];
            for op in script.bytes() {
                match op {
                    b'c' => {
                        if let Some(l) = mine.last() {
                            let c = l.clone();
                            mine.push(c);
                        }
                    }
                    b'r' => {
                        if let Some(l) = mine.last() {
                            read(l, &want);
                        }
                    }
                    b'd' => {
                        mine.pop();
                    }
                    b's' => {
                        if let Some(x) = mine.pop() {
                            pool.lock().unwrap().push(x);
                        }
                    }
                    b'g' => {
                        let got = pool.lock().unwrap().pop();
                        if let Some(x) = got {
                            read(&x, &want);
                            mine.push(x);
                        }
                    }
                    b'y' => thread::yield_now(),
                    _ => {}
                }
            }
        }));
    }
    let mut base = Some(base);
    if main_drop == "b" {
        base.take();
    }
    for (i, h) in hs.into_iter().enumerate() {
        h.join().expect("thread panicked");
        if i == 0 && main_drop == "m" {
            base.take();
        }
    }
    if let Some(b) = &base {
        read(b, &want);
    }
    drop(base);
    let left: Vec<Text> = std::mem::take(&mut *pool.lock().unwrap());
    for x in &left {
        read(x, &want);
    }
}

fn main() {
    for (i, sc) in std::env::args().skip(1).enumerate() {
        eprintln!("SCENARIO {i} {sc}");
        run(&sc);
    }
    eprintln!("ALL-SCENARIOS-DONE");
}
