//! C21: TraversalQueue vs a model written from its doc comments.
use aranya_runtime::{Location, MaxCut, SegmentIndex, TraversalQueue};
use proptest::prelude::*;
use serde::{Deserialize, Serialize};
use vcommon::{CaseInfo, CheckResult, Ctx, Report, ensure, fail};

#[derive(Clone, Debug, Serialize, Deserialize)]
enum Op {
    Push(u8, u8),
    PushCovered(u8, u8, bool),
    Pop,
    PopCovered,
    Peek,
    CoverUpTo(u8, u8, u8),
    DrainAbove(u8),
    DrainAll,
    AllCovered,
    IsEmpty,
    Clear,
}

#[derive(Clone, Debug, Serialize, Deserialize)]
enum DOp {
    PushDup(u8, u8),
    PopDups,
    Pop,
    Peek,
    IsEmpty,
}

fn loc(s: u8, m: u8) -> Location {
    Location::new(SegmentIndex::new(u64::from(s)), MaxCut::new(u64::from(m)))
}

fn op(nseg: u8, nmc: u8) -> impl Strategy<Value = Op> {
    prop_oneof![
        4 => (0..nseg, 0..nmc).prop_map(|(s, m)| Op::Push(s, m)),
        4 => (0..nseg, 0..nmc, any::<bool>()).prop_map(|(s, m, c)| Op::PushCovered(s, m, c)),
        2 => Just(Op::Pop),
        2 => Just(Op::PopCovered),
        1 => Just(Op::Peek),
        3 => (0..nseg, 0..nmc, 0..nmc).prop_map(|(s, c, extra)| Op::CoverUpTo(s, c, extra)),
        1 => (0..nmc).prop_map(Op::DrainAbove),
        1 => Just(Op::DrainAll),
        1 => Just(Op::AllCovered),
        1 => Just(Op::IsEmpty),
        1 => Just(Op::Clear),
    ]
}

fn dop(nseg: u8, nmc: u8) -> impl Strategy<Value = DOp> {
    prop_oneof![
        6 => (0..nseg, 0..nmc).prop_map(|(s, m)| DOp::PushDup(s, m)),
        2 => Just(DOp::PopDups),
        1 => Just(DOp::Pop),
        1 => Just(DOp::Peek),
        1 => Just(DOp::IsEmpty),
    ]
}

/// Model entry: (segment, max_cut, covered).
type Model = Vec<(u8, u8, bool)>;

fn model_max(m: &Model) -> Option<u8> {
    m.iter().map(|e| e.1).max()
}

fn key(l: Location) -> (u8, u8) {
    let s: u64 = l.segment.get();
    let m: u64 = l.max_cut.get();
    (s as u8, m as u8)
}

fn check_dedup(ops: &Vec<Op>, info: &mut CaseInfo) -> CheckResult {
    let mut q = TraversalQueue::new();
    let mut m: Model = Vec::new();
    let mut merges = 0;
    let mut covers = 0;
    for (i, o) in ops.iter().enumerate() {
        match *o {
            Op::Push(s, c) | Op::PushCovered(s, c, _) => {
                let covered = matches!(*o, Op::PushCovered(_, _, true));
                let r = if let Op::Push(..) = o { q.push(loc(s, c)) } else { q.push_covered(loc(s, c), covered) };
                ensure!(r.is_ok(), "push failed", "op#{i} {o:?}: {r:?}");
                if let Some(e) = m.iter_mut().find(|e| e.0 == s) {
                    merges += 1;
                    if c > e.1 {
                        e.1 = c;
                        e.2 = covered;
                    } else if c == e.1 {
                        e.2 = e.2 || covered;
                    }
                } else {
                    m.push((s, c, covered));
                }
            }
            Op::Pop | Op::PopCovered => {
                let got = if let Op::Pop = o {
                    q.pop().map(|x| x.map(|l| (l, None)))
                } else {
                    q.pop_covered().map(|x| x.map(|(l, c)| (l, Some(c))))
                };
                let got = match got {
                    Ok(g) => g,
                    Err(e) => fail!("pop failed", "op#{i}: {e:?}"),
                };
                match (got, model_max(&m)) {
                    (None, None) => {}
                    (Some((l, c)), Some(mx)) => {
                        let (s, mc) = key(l);
                        ensure!(mc == mx, "pop did not return the highest max cut", "op#{i} got {l} want max_cut {mx}; model={m:?}");
                        let Some(p) = m.iter().position(|e| e.0 == s && e.1 == mc) else {
                            fail!("pop returned an entry the model does not hold", "op#{i} got {l}; model={m:?}")
                        };
                        if let Some(c) = c {
                            ensure!(c == m[p].2, "pop returned the wrong covered flag", "op#{i} got {l} covered={c}; model={m:?}");
                        }
                        m.remove(p);
                    }
                    (g, w) => fail!("pop emptiness differs", "op#{i} got {g:?} model max {w:?}"),
                }
            }
            Op::Peek => match (q.peek().copied(), model_max(&m)) {
                (None, None) => {}
                (Some(l), Some(mx)) => {
                    let (s, mc) = key(l);
                    ensure!(mc == mx, "peek is not the highest max cut", "op#{i} got {l} want {mx}");
                    ensure!(m.iter().any(|e| e.0 == s && e.1 == mc), "peek returned an unknown entry", "op#{i} {l} model={m:?}");
                }
                (g, w) => fail!("peek emptiness differs", "op#{i} got {g:?} model max {w:?}"),
            },
            Op::CoverUpTo(s, cov, extra) => {
                // callers pass the segment's longest max cut, which is >= the queued entry's max cut
                let entry_mc = m.iter().find(|e| e.0 == s).map(|e| e.1).unwrap_or(0);
                let longest = entry_mc.saturating_add(extra % 4);
                let r = q.cover_up_to(SegmentIndex::new(u64::from(s)), MaxCut::new(u64::from(cov)), MaxCut::new(u64::from(longest)));
                ensure!(r.is_ok(), "cover_up_to failed", "op#{i}: {r:?}");
                if let Some(e) = m.iter_mut().find(|e| e.0 == s) {
                    if !e.2 {
                        covers += 1;
                        if cov >= longest {
                            e.2 = true;
                        } else if cov >= e.1 {
                            e.1 = cov + 1;
                        }
                    }
                }
            }
            Op::DrainAbove(t) => {
                let mut got = Vec::new();
                let r = q.drain_above(MaxCut::new(u64::from(t)), |l| got.push(key(l)));
                ensure!(r.is_ok(), "drain_above failed", "op#{i}: {r:?}");
                let mut want: Vec<(u8, u8)> = m.iter().filter(|e| e.1 > t && !e.2).map(|e| (e.0, e.1)).collect();
                m.retain(|e| e.1 <= t);
                got.sort_unstable();
                want.sort_unstable();
                ensure!(got == want, "drain_above drained the wrong entries", "op#{i} t={t} got={got:?} want={want:?}");
            }
            Op::DrainAll => {
                let mut got = Vec::new();
                q.drain_all(|l| got.push(key(l)));
                let mut want: Vec<(u8, u8)> = m.iter().filter(|e| !e.2).map(|e| (e.0, e.1)).collect();
                m.clear();
                got.sort_unstable();
                want.sort_unstable();
                ensure!(got == want, "drain_all drained the wrong entries", "op#{i} got={got:?} want={want:?}");
                ensure!(q.is_empty(), "queue not empty after drain_all", "op#{i}");
            }
            Op::AllCovered => {
                let want = m.iter().all(|e| e.2);
                ensure!(q.all_covered() == want, "all_covered differs", "op#{i} want={want} model={m:?}");
            }
            Op::IsEmpty => {
                ensure!(q.is_empty() == m.is_empty(), "is_empty differs", "op#{i} model={m:?}");
            }
            Op::Clear => {
                q.clear();
                m.clear();
            }
        }
        ensure!(q.is_empty() == m.is_empty(), "emptiness differs after op", "op#{i} {o:?} model={m:?}");
        ensure!(q.all_covered() == m.iter().all(|e| e.2), "all_covered differs after op", "op#{i} {o:?} model={m:?}");
    }
    // final drain: pop everything and compare with the model
    let mut last = u8::MAX;
    while let Some((l, c)) = q.pop_covered().map_err(|e| vcommon::Failure::new("pop failed", format!("{e:?}")))? {
        let (s, mc) = key(l);
        ensure!(mc <= last, "final pops not in descending max cut order", "{l} after {last}");
        last = mc;
        let Some(p) = m.iter().position(|e| *e == (s, mc, c)) else {
            fail!("final contents differ from model", "popped ({s},{mc},{c}); model rest={m:?}")
        };
        m.remove(p);
    }
    ensure!(m.is_empty(), "queue lost entries", "model still holds {m:?}");
    if merges >= 1 && covers >= 1 {
        info.nontrivial();
    }
    if merges >= 1 {
        info.label("same_segment_push");
    }
    if covers >= 1 {
        info.label("cover_uncovered");
    }
    Ok(())
}

fn check_dup(ops: &Vec<DOp>, info: &mut CaseInfo) -> CheckResult {
    let mut q = TraversalQueue::new();
    let mut m: Vec<(u8, u8)> = Vec::new(); // (max_cut, segment) multiset
    let mut multi = false;
    for (i, o) in ops.iter().enumerate() {
        match *o {
            DOp::PushDup(s, c) => {
                let r = q.push_duplicate(loc(s, c));
                ensure!(r.is_ok(), "push_duplicate failed", "op#{i}: {r:?}");
                m.push((c, s));
            }
            DOp::PopDups => {
                let got = q.pop_duplicates().map_err(|e| vcommon::Failure::new("pop_duplicates failed", format!("{e:?}")))?;
                match (got, m.iter().map(|e| e.0).max()) {
                    (None, None) => {}
                    (Some((l, n)), Some(mx)) => {
                        let (s, mc) = key(l);
                        ensure!(mc == mx, "pop_duplicates did not return the highest max cut", "op#{i} got {l} want {mx}");
                        let cnt = m.iter().filter(|e| **e == (mc, s)).count();
                        ensure!(cnt >= 1, "pop_duplicates returned an unknown location", "op#{i} {l}");
                        ensure!(cnt == n, "pop_duplicates count differs", "op#{i} {l} got {n} want {cnt}");
                        if n >= 2 {
                            multi = true;
                        }
                        m.retain(|e| *e != (mc, s));
                    }
                    (g, w) => fail!("pop_duplicates emptiness differs", "op#{i} got {g:?} want {w:?}"),
                }
            }
            DOp::Pop => {
                let got = q.pop().map_err(|e| vcommon::Failure::new("pop failed", format!("{e:?}")))?;
                match (got, m.iter().map(|e| e.0).max()) {
                    (None, None) => {}
                    (Some(l), Some(mx)) => {
                        let (s, mc) = key(l);
                        ensure!(mc == mx, "pop did not return the highest max cut", "op#{i} got {l} want {mx}");
                        let Some(p) = m.iter().position(|e| *e == (mc, s)) else {
                            fail!("pop returned an unknown location", "op#{i} {l}")
                        };
                        m.remove(p);
                    }
                    (g, w) => fail!("pop emptiness differs", "op#{i} got {g:?} want {w:?}"),
                }
            }
            DOp::Peek => {
                let got = q.peek().copied().map(key);
                let mx = m.iter().map(|e| e.0).max();
                ensure!(got.map(|g| g.1) == mx, "peek is not the highest max cut", "op#{i} got {got:?} want {mx:?}");
            }
            DOp::IsEmpty => {}
        }
        ensure!(q.is_empty() == m.is_empty(), "emptiness differs after op", "op#{i} {o:?}");
    }
    while let Some((l, n)) = q.pop_duplicates().map_err(|e| vcommon::Failure::new("pop_duplicates failed", format!("{e:?}")))? {
        let (s, mc) = key(l);
        let cnt = m.iter().filter(|e| **e == (mc, s)).count();
        ensure!(cnt == n && n > 0, "final duplicate counts differ", "{l}: got {n} want {cnt}");
        m.retain(|e| *e != (mc, s));
    }
    ensure!(m.is_empty(), "queue lost duplicate entries", "model still holds {m:?}");
    if multi {
        info.nontrivial();
    }
    Ok(())
}


// ---------------------------------------------------------------------------------------------
// mixed mode: duplicate entries and dedup entries in one queue, on disjoint segments

#[derive(Clone, Debug, Serialize, Deserialize)]
enum MOp {
    /// dedup push on a "dedup segment" (0..3)
    PushCovered(u8, u8, bool),
    /// duplicate push on a "duplicate segment" (4..6)
    PushDup(u8, u8),
    Pop,
    PopCovered,
    PopDups,
    Peek,
    CoverUpTo(u8, u8, u8),
    DrainAbove(u8),
    DrainAll,
    AllCovered,
}

fn mop() -> impl Strategy<Value = MOp> {
    prop_oneof![
        4 => (0u8..4, 0u8..6, any::<bool>()).prop_map(|(s, m, c)| MOp::PushCovered(s, m, c)),
        4 => (4u8..7, 0u8..6).prop_map(|(s, m)| MOp::PushDup(s, m)),
        1 => Just(MOp::Pop),
        2 => Just(MOp::PopCovered),
        3 => Just(MOp::PopDups),
        1 => Just(MOp::Peek),
        2 => (0u8..4, 0u8..6, 0u8..6).prop_map(|(s, c, e)| MOp::CoverUpTo(s, c, e)),
        1 => (0u8..6).prop_map(MOp::DrainAbove),
        1 => Just(MOp::DrainAll),
        1 => Just(MOp::AllCovered),
    ]
}

/// Model: (segment, max_cut, covered) entries; duplicate entries are always uncovered and may repeat.
fn check_mixed(ops: &Vec<MOp>, info: &mut CaseInfo) -> CheckResult {
    let mut q = TraversalQueue::new();
    let mut m: Model = Vec::new();
    let mut mixed_pop = false;
    let maxcut = |m: &Model| m.iter().map(|e| e.1).max();
    for (i, o) in ops.iter().enumerate() {
        match *o {
            MOp::PushCovered(s, c, covered) => {
                q.push_covered(loc(s, c), covered).map_err(|e| vcommon::Failure::new("push failed", format!("{e:?}")))?;
                if let Some(e) = m.iter_mut().find(|e| e.0 == s) {
                    if c > e.1 {
                        e.1 = c;
                        e.2 = covered;
                    } else if c == e.1 {
                        e.2 = e.2 || covered;
                    }
                } else {
                    m.push((s, c, covered));
                }
            }
            MOp::PushDup(s, c) => {
                q.push_duplicate(loc(s, c)).map_err(|e| vcommon::Failure::new("push_duplicate failed", format!("{e:?}")))?;
                m.push((s, c, false));
            }
            MOp::Pop | MOp::PopCovered => {
                let got = if let MOp::Pop = o {
                    q.pop().map(|x| x.map(|l| (l, None)))
                } else {
                    q.pop_covered().map(|x| x.map(|(l, c)| (l, Some(c))))
                }
                .map_err(|e| vcommon::Failure::new("pop failed", format!("{e:?}")))?;
                match (got, maxcut(&m)) {
                    (None, None) => {}
                    (Some((l, c)), Some(mx)) => {
                        let (s, mc) = key(l);
                        ensure!(mc == mx, "pop did not return the highest max cut", "op#{i} got {l} want {mx}; model={m:?}");
                        // several entries may share (segment, max_cut) on duplicate segments: all are uncovered
                        let Some(p) = m.iter().position(|e| e.0 == s && e.1 == mc && c.is_none_or(|c| c == e.2)) else {
                            fail!("pop returned the wrong covered flag or an unknown entry", "op#{i} got {l} covered={c:?}; model={m:?}")
                        };
                        m.remove(p);
                    }
                    (g, w) => fail!("pop emptiness differs", "op#{i} got {g:?} model max {w:?}"),
                }
            }
            MOp::PopDups => {
                let got = q.pop_duplicates().map_err(|e| vcommon::Failure::new("pop_duplicates failed", format!("{e:?}")))?;
                match (got, maxcut(&m)) {
                    (None, None) => {}
                    (Some((l, n)), Some(mx)) => {
                        let (s, mc) = key(l);
                        ensure!(mc == mx, "pop_duplicates did not return the highest max cut", "op#{i} got {l} want {mx}");
                        let cnt = m.iter().filter(|e| e.0 == s && e.1 == mc).count();
                        ensure!(cnt == n && n > 0, "pop_duplicates count differs", "op#{i} {l} got {n} want {cnt}; model={m:?}");
                        if m.iter().any(|e| e.2) && m.iter().any(|e| !e.2 && !(e.0 == s && e.1 == mc)) {
                            mixed_pop = true;
                        }
                        m.retain(|e| !(e.0 == s && e.1 == mc));
                    }
                    (g, w) => fail!("pop_duplicates emptiness differs", "op#{i} got {g:?} want {w:?}"),
                }
            }
            MOp::Peek => {
                let got = q.peek().copied().map(key);
                ensure!(got.map(|g| g.1) == maxcut(&m), "peek is not the highest max cut", "op#{i} got {got:?}");
            }
            MOp::CoverUpTo(s, cov, extra) => {
                let entry_mc = m.iter().find(|e| e.0 == s).map(|e| e.1).unwrap_or(0);
                let longest = entry_mc.saturating_add(extra % 4);
                q.cover_up_to(SegmentIndex::new(u64::from(s)), MaxCut::new(u64::from(cov)), MaxCut::new(u64::from(longest)))
                    .map_err(|e| vcommon::Failure::new("cover_up_to failed", format!("{e:?}")))?;
                if let Some(e) = m.iter_mut().find(|e| e.0 == s) {
                    if !e.2 {
                        if cov >= longest {
                            e.2 = true;
                        } else if cov >= e.1 {
                            e.1 = cov + 1;
                        }
                    }
                }
            }
            MOp::DrainAbove(t) => {
                let mut got = Vec::new();
                q.drain_above(MaxCut::new(u64::from(t)), |l| got.push(key(l))).map_err(|e| vcommon::Failure::new("drain_above failed", format!("{e:?}")))?;
                let mut want: Vec<(u8, u8)> = m.iter().filter(|e| e.1 > t && !e.2).map(|e| (e.0, e.1)).collect();
                m.retain(|e| e.1 <= t);
                got.sort_unstable();
                want.sort_unstable();
                ensure!(got == want, "drain_above drained the wrong entries", "op#{i} t={t} got={got:?} want={want:?}");
            }
            MOp::DrainAll => {
                let mut got = Vec::new();
                q.drain_all(|l| got.push(key(l)));
                let mut want: Vec<(u8, u8)> = m.iter().filter(|e| !e.2).map(|e| (e.0, e.1)).collect();
                m.clear();
                got.sort_unstable();
                want.sort_unstable();
                ensure!(got == want, "drain_all drained the wrong entries", "op#{i} got={got:?} want={want:?}");
            }
            MOp::AllCovered => {}
        }
        ensure!(q.is_empty() == m.is_empty(), "emptiness differs after op", "op#{i} {o:?} model={m:?}");
        ensure!(q.all_covered() == m.iter().all(|e| e.2), "all_covered differs after op", "op#{i} {o:?} model={m:?}");
    }
    // final: pop everything with flags
    while let Some((l, c)) = q.pop_covered().map_err(|e| vcommon::Failure::new("pop failed", format!("{e:?}")))? {
        let (s, mc) = key(l);
        let Some(p) = m.iter().position(|e| *e == (s, mc, c)) else {
            fail!("final contents differ from model", "popped ({s},{mc},{c}); model rest={m:?}")
        };
        m.remove(p);
    }
    ensure!(m.is_empty(), "queue lost entries", "model still holds {m:?}");
    if mixed_pop {
        info.nontrivial();
    }
    Ok(())
}

pub fn run(ctx: &Ctx) -> ! {
    let mut rep = Report::new(ctx, "exploration");
    rep.assume("dedup pushes (push, push_covered, cover_up_to) and push_duplicate are never applied to the same segment (the docs do not define which duplicate a dedup push would update); the mixed_mode part mixes both kinds of entries in one queue on disjoint segments");
    rep.assume("cover_up_to is called with longest_mc >= the queued entry's max cut, as its callers do");
    let n = ctx.pick(200_000, 4_000_000);
    rep.explore(
        "dedup_mode",
        "op sequences (len 0..40) over a 4-segment x 6-max-cut alphabet: push, push_covered, pop, pop_covered, peek, \
         cover_up_to, drain_above, drain_all, all_covered, is_empty, clear vs a Vec model of the doc comments; \
         non-trivial = >=1 push onto an existing segment and >=1 cover_up_to hitting an uncovered entry",
        || prop::collection::vec(op(4, 6), 0..40),
        n,
        check_dedup,
    );
    rep.explore(
        "dedup_mode_wide",
        "same, 12 segments x 20 max cuts, len 0..120",
        || prop::collection::vec(op(12, 20), 0..120),
        n / 4,
        check_dedup,
    );
    rep.explore(
        "duplicate_mode",
        "op sequences (len 0..40) of push_duplicate, pop_duplicates, pop, peek over 3 segments x 4 max cuts vs a multiset \
         model; non-trivial = a pop_duplicates that returned count >= 2",
        || prop::collection::vec(dop(3, 4), 0..40),
        n,
        check_dup,
    );
    rep.explore(
        "mixed_mode",
        "op sequences (len 0..40) mixing dedup entries (segments 0-3: push_covered, cover_up_to) with duplicate entries (segments \
         4-6: push_duplicate) in one queue, with pop, pop_covered, pop_duplicates, peek, drain_above, drain_all; model as above \
         (duplicates are uncovered and may repeat); non-trivial = a pop_duplicates while the queue held a covered entry and \
         another uncovered entry",
        || prop::collection::vec(mop(), 0..40),
        n,
        check_mixed,
    );
    rep.finish()
}
