//! C46: ids round-trip through base58 text and serde; other text fails or yields the id it encodes.
use aranya_id::BaseId;
use proptest::prelude::*;
use serde::{Deserialize, Serialize};
use vcommon::{CaseInfo, CheckResult, Ctx, Report, ensure};

aranya_id::custom_id! {
    /// A second id type so tagged ids are exercised as well.
    pub struct ProbeId;
}

const ALPHABET: &[u8; 58] = b"123456789ABCDEFGHJKLMNPQRSTUVWXYZabcdefghijkmnopqrstuvwxyz";

/// Independent reference: base58 text -> 256-bit big-endian value, None if a character is outside the
/// alphabet or the value does not fit in 32 bytes.
fn ref_decode(s: &[u8]) -> Option<[u8; 32]> {
    let mut acc = [0u8; 32];
    for c in s {
        let d = ALPHABET.iter().position(|a| a == c)? as u32;
        let mut carry = d;
        for b in acc.iter_mut().rev() {
            let v = (*b as u32) * 58 + carry;
            *b = (v & 0xff) as u8;
            carry = v >> 8;
        }
        if carry != 0 {
            return None;
        }
    }
    Some(acc)
}

fn ref_encode(b: &[u8; 32]) -> String {
    // repeated division by 58, fixed width of 44 digits (left padded with '1')
    let mut n = *b;
    let mut out = Vec::new();
    while n.iter().any(|x| *x != 0) {
        let mut rem = 0u32;
        for x in n.iter_mut() {
            let v = (rem << 8) | *x as u32;
            *x = (v / 58) as u8;
            rem = v % 58;
        }
        out.push(ALPHABET[rem as usize]);
    }
    while out.len() < 44 {
        out.push(b'1');
    }
    out.reverse();
    String::from_utf8(out).unwrap()
}

#[derive(Clone, Debug, Serialize, Deserialize)]
enum Case {
    Bytes([u8; 32]),
    Text(String),
    Binary(Vec<u8>),
}

fn bytes32() -> impl Strategy<Value = [u8; 32]> {
    prop_oneof![
        4 => any::<[u8; 32]>(),
        1 => (0usize..33, any::<[u8; 32]>()).prop_map(|(z, mut b)| { for x in b.iter_mut().take(z) { *x = 0; } b }),
        1 => (0usize..33, any::<[u8; 32]>()).prop_map(|(z, mut b)| { for x in b.iter_mut().take(z) { *x = 0xff; } b }),
        1 => prop::sample::select(vec![[0u8; 32], [0xffu8; 32]]),
    ]
}

fn case() -> impl Strategy<Value = Case> {
    let b58 = "[1-9A-HJ-NP-Za-km-z]{0,50}";
    prop_oneof![
        4 => bytes32().prop_map(Case::Bytes),
        3 => b58.prop_map(Case::Text),
        // around the 2^256 boundary: 44 chars starting high
        2 => "[J-Zza-k][1-9A-HJ-NP-Za-km-z]{43}".prop_map(Case::Text),
        1 => "1{0,30}[1-9A-HJ-NP-Za-km-z]{0,44}".prop_map(Case::Text),
        2 => ".{0,48}".prop_map(Case::Text),
        1 => "[1-9A-HJ-NP-Za-km-z]{0,43}[0OIl+/ _-][1-9A-HJ-NP-Za-km-z]{0,5}".prop_map(Case::Text),
        2 => prop::collection::vec(any::<u8>(), 0..40).prop_map(Case::Binary),
        1 => (prop::sample::select(vec![31u8, 32, 33]), prop::collection::vec(any::<u8>(), 30..36))
            .prop_map(|(l, mut v)| { v.insert(0, l); Case::Binary(v) }),
    ]
}

fn check_id(b: &[u8; 32], info: &mut CaseInfo) -> CheckResult {
    let id = BaseId::from_bytes(*b);
    let text = id.to_string();
    ensure!(text == ref_encode(b), "display differs from reference base58", "id={b:?} text={text}");
    let back: BaseId = text.parse().map_err(|e| vcommon::Failure::new("display does not parse", format!("{e}")))?;
    ensure!(back == id, "text round trip changed id", "{b:?} -> {text} -> {:?}", back.as_array());
    let back2 = BaseId::decode(text.as_bytes())
        .map_err(|e| vcommon::Failure::new("decode(display) failed", format!("{e}")))?;
    ensure!(back2 == id, "decode round trip changed id", "{b:?}");
    let pid = ProbeId::from_bytes(*b);
    ensure!(pid.to_string() == text, "tagged id prints differently", "{b:?}");
    ensure!(pid.to_string().parse::<ProbeId>().ok() == Some(pid), "tagged id text round trip", "{b:?}");
    // human readable serde
    let js = serde_json::to_string(&id).map_err(|e| vcommon::Failure::new("json serialize failed", e.to_string()))?;
    ensure!(js == format!("\"{text}\""), "json form is not the base58 string", "{js}");
    let jid: BaseId =
        serde_json::from_str(&js).map_err(|e| vcommon::Failure::new("json round trip failed", e.to_string()))?;
    ensure!(jid == id, "json round trip changed id", "{b:?}");
    let jv: BaseId = serde_json::from_value(serde_json::Value::String(text.clone()))
        .map_err(|e| vcommon::Failure::new("json value round trip failed", e.to_string()))?;
    ensure!(jv == id, "json value round trip changed id", "{b:?}");
    // binary serde
    let pc = postcard::to_allocvec(&id).map_err(|e| vcommon::Failure::new("postcard serialize failed", e.to_string()))?;
    ensure!(pc.len() == 33 && pc[0] == 32 && pc[1..] == b[..], "postcard form is not len-prefixed bytes", "{pc:?}");
    let pid2: BaseId =
        postcard::from_bytes(&pc).map_err(|e| vcommon::Failure::new("postcard round trip failed", e.to_string()))?;
    ensure!(pid2 == id, "postcard round trip changed id", "{b:?}");
    let tp: ProbeId =
        postcard::from_bytes(&pc).map_err(|e| vcommon::Failure::new("postcard tagged round trip failed", e.to_string()))?;
    ensure!(tp.as_array() == b, "postcard tagged round trip changed id", "{b:?}");
    if b[0] == 0 || b.iter().all(|x| *x == 0xff) {
        info.label("edge_bytes");
    }
    info.nontrivial();
    Ok(())
}

fn check(c: &Case, info: &mut CaseInfo) -> CheckResult {
    match c {
        Case::Bytes(b) => {
            info.label("bytes");
            check_id(b, info)
        }
        Case::Text(s) => {
            let want = ref_decode(s.as_bytes());
            let got = s.parse::<BaseId>().ok().map(|i| *i.as_array());
            ensure!(
                got == want,
                "parse disagrees with reference decoding",
                "text={s:?} got={got:?} want={want:?}"
            );
            let got_d = BaseId::decode(s.as_bytes()).ok().map(|i| *i.as_array());
            ensure!(got_d == want, "decode disagrees with reference decoding", "text={s:?}");
            let js = serde_json::to_string(s).unwrap();
            let got_j = serde_json::from_str::<BaseId>(&js).ok().map(|i| *i.as_array());
            ensure!(got_j == want, "json deserialization disagrees with reference decoding", "text={s:?} got={got_j:?}");
            match want {
                Some(b) => {
                    info.label("text_ok");
                    info.nontrivial();
                    check_id(&b, info)?;
                }
                None => {
                    info.label("text_err");
                    if s.bytes().all(|c| ALPHABET.contains(&c)) {
                        info.label("text_overflow");
                        info.nontrivial();
                    }
                }
            }
            Ok(())
        }
        Case::Binary(v) => {
            info.label("binary");
            let got = postcard::take_from_bytes::<BaseId>(v).ok();
            // canonical form: one length byte 32, then the 32 bytes: must be accepted unchanged
            let canonical = if !v.is_empty() && v[0] == 32 && v.len() >= 33 {
                let mut b = [0u8; 32];
                b.copy_from_slice(&v[1..33]);
                Some(b)
            } else {
                None
            };
            if let Some(b) = canonical {
                ensure!(
                    got.as_ref().map(|(i, _)| *i.as_array()) == Some(b),
                    "binary deserialization refused or changed a canonical encoding",
                    "input={v:?} got={got:?}"
                );
            }
            // whatever is accepted must be a length prefix of 32 (postcard tolerates padded varints) followed
            // by exactly the bytes returned
            if let Some((id, rest)) = &got {
                let mut pos = 0usize;
                let mut len: u128 = 0;
                let mut shift = 0;
                loop {
                    let Some(x) = v.get(pos) else { break };
                    pos += 1;
                    len |= u128::from(x & 0x7f) << shift;
                    shift += 7;
                    if x & 0x80 == 0 || shift > 70 {
                        break;
                    }
                }
                ensure!(
                    len == 32 && v.len() >= pos + 32 && v[pos..pos + 32] == id.as_array()[..] && rest.len() == v.len() - pos - 32,
                    "binary deserialization accepted a wrong length or changed bytes",
                    "input={v:?} got={got:?}"
                );
            }
            let want = got.as_ref().map(|(i, _)| *i.as_array());
            if want.is_some() {
                info.nontrivial();
            }
            // a JSON array is not an id in the human readable format
            Ok(())
        }
    }
}

pub fn run(ctx: &Ctx) -> ! {
    let mut rep = Report::new(ctx, "exploration");
    rep.assume("reference base58 codec is an independent byte-wise big-integer implementation in the harness");
    rep.explore(
        "id_roundtrip",
        "32-byte ids (random, leading zero / 0xff runs, extremes), base58-alphabet strings of length 0..50 incl. \
         values around 2^256, arbitrary unicode text, near-valid text with one foreign character, arbitrary and \
         length-prefixed binary; non-trivial = a value that decodes to an id (round trip checked through Display, \
         FromStr, decode, serde_json, postcard) or an in-alphabet string that must overflow",
        case,
        ctx.pick(400_000, 8_000_000),
        check,
    );
    rep.finish()
}
