//! C47: write_c_str never writes outside the caller's buffer and reports exact sizes.
use std::{ffi::c_char, fmt, mem::MaybeUninit};

use aranya_capi_core::{WriteCStrError, write_c_str};
use proptest::prelude::*;
use serde::{Deserialize, Serialize};
use vcommon::{CaseInfo, CheckResult, Ctx, Report, ensure, fail};

#[derive(Clone, Debug, Serialize, Deserialize)]
enum Piece {
    Str(String),
    Pad(String, u8, u8),
    Int(i64),
    Nested(Vec<Piece>),
    Empty,
}

struct Doc<'a>(&'a [Piece]);

impl fmt::Display for Doc<'_> {
    fn fmt(&self, f: &mut fmt::Formatter<'_>) -> fmt::Result {
        for p in self.0 {
            match p {
                Piece::Str(s) => f.write_str(s)?,
                Piece::Pad(s, w, a) => match a % 3 {
                    0 => write!(f, "{:<w$}", s, w = *w as usize)?,
                    1 => write!(f, "{:>w$}", s, w = *w as usize)?,
                    _ => write!(f, "{:*^w$}", s, w = *w as usize)?,
                },
                Piece::Int(i) => write!(f, "{i}|{i:#x}")?,
                Piece::Nested(v) => write!(f, "[{}]", Doc(v))?,
                Piece::Empty => f.write_str("")?,
            }
        }
        Ok(())
    }
}

#[derive(Clone, Debug, Serialize, Deserialize)]
struct Case {
    pieces: Vec<Piece>,
    /// buffer size = min(size_sel, len + 3) when `rel` is None, else len + 1 + rel - 2
    size_sel: u16,
    rel: Option<u8>,
}

fn piece() -> impl Strategy<Value = Piece> {
    let leaf = prop_oneof![
        3 => ".{0,12}".prop_map(Piece::Str),
        1 => "[a-z]{0,40}".prop_map(Piece::Str),
        1 => ("\\PC{0,6}", 0u8..20, 0u8..3).prop_map(|(s, w, a)| Piece::Pad(s, w, a)),
        1 => any::<i64>().prop_map(Piece::Int),
        1 => Just(Piece::Empty),
    ];
    leaf.prop_recursive(2, 12, 4, |inner| prop::collection::vec(inner, 0..4).prop_map(Piece::Nested))
}

fn case() -> impl Strategy<Value = Case> {
    (
        prop::collection::vec(piece(), 0..6),
        0u16..300,
        prop::option::weighted(0.6, 0u8..5),
    )
        .prop_map(|(pieces, size_sel, rel)| Case { pieces, size_sel, rel })
}

const GUARD: usize = 16;
const FILL: u8 = 0xA5;

fn check(c: &Case, info: &mut CaseInfo) -> CheckResult {
    let want = format!("{}", Doc(&c.pieces));
    let len = want.len();
    let size = match c.rel {
        Some(r) => (len + 1 + r as usize).saturating_sub(2),
        None => (c.size_sel as usize).min(len + 3),
    };
    let mut frame = vec![FILL; GUARD + size + GUARD];
    let mut n: usize = 0xdead_beef;
    let res = {
        let inner = &mut frame[GUARD..GUARD + size];
        // SAFETY: u8 and MaybeUninit<c_char> have the same layout; the slice is initialized.
        let dst = unsafe { &mut *(std::ptr::from_mut::<[u8]>(inner) as *mut [MaybeUninit<c_char>]) };
        write_c_str(dst, &Doc(&c.pieces), &mut n)
    };
    ensure!(
        frame[..GUARD].iter().all(|b| *b == FILL) && frame[GUARD + size..].iter().all(|b| *b == FILL),
        "guard bytes overwritten",
        "size={size} len={len}"
    );
    let multi = c.pieces.len() >= 2;
    if size >= len + 1 {
        info.label("fits");
        if multi && size <= len + 2 {
            info.nontrivial();
        }
        ensure!(res == Ok(()), "fitting buffer rejected", "size={size} len={len} res={res:?}");
        ensure!(n == len + 1, "wrong length on success", "n={n} len={len}");
        ensure!(&frame[GUARD..GUARD + len] == want.as_bytes(), "text differs", "size={size} len={len}");
        ensure!(frame[GUARD + len] == 0, "missing NUL terminator", "size={size} len={len}");
        ensure!(
            frame[GUARD + len + 1..GUARD + size].iter().all(|b| *b == FILL),
            "bytes after the terminator were written",
            "size={size} len={len}"
        );
    } else {
        info.label("too_small");
        if multi && size > 0 {
            info.nontrivial();
        }
        match res {
            Err(WriteCStrError::BufferTooSmall) => {}
            other => fail!("short buffer not reported", "size={size} len={len} res={other:?}"),
        }
        ensure!(n == len + 1, "wrong needed size", "n={n} len={len} size={size}");
    }
    Ok(())
}

pub fn run(ctx: &Ctx) -> ! {
    let mut rep = Report::new(ctx, "exploration");
    rep.assume("expected text is std's own formatting of the same Display value into a String");
    rep.explore(
        "write_c_str",
        "Display values made of several fragments (write_str pieces, padded/nested format_args, multi-byte UTF-8) \
         written into buffers of size 0..len+3 inside a 16-byte guard frame; non-trivial = >=2 fragments and a \
         buffer that is non-empty-but-too-small or within 1 byte of exact fit",
        case,
        ctx.pick(400_000, 8_000_000),
        check,
    );
    rep.finish()
}
