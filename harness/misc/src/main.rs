mod c21;
mod c46;
mod c47;

fn main() {
    let ctx = vcommon::Ctx::from_args();
    ctx.watchdog(ctx.pick(900, 7200));
    match ctx.prop.as_str() {
        "C21" => c21::run(&ctx),
        "C46" => c46::run(&ctx),
        "C47" => c47::run(&ctx),
        p => {
            println!("INCONCLUSIVE vh-misc does not serve {p}");
            std::process::exit(2);
        }
    }
}
