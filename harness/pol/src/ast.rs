//! A small AST for the subset of the policy language the harness generates, and its printer
//! to concrete policy source text.
use std::fmt::Write as _;

use serde::{Deserialize, Serialize};

#[derive(Clone, Debug, PartialEq, Eq, Serialize, Deserialize)]
pub enum Ty {
    Bool,
    Int,
    Str,
    Id,
    Enum(String),
    Struct(String),
    Opt(Box<Ty>),
    Res(Box<Ty>, Box<Ty>),
}

#[derive(Clone, Debug, PartialEq, Serialize, Deserialize)]
pub struct EnumDef {
    pub name: String,
    pub variants: Vec<String>,
}

#[derive(Clone, Debug, PartialEq, Serialize, Deserialize)]
pub enum Item {
    Field(String, Ty),
    /// `+Other`: all fields of an earlier struct
    Insert(String),
}

#[derive(Clone, Debug, PartialEq, Serialize, Deserialize)]
pub struct StructDef {
    pub name: String,
    pub items: Vec<Item>,
}

#[derive(Clone, Debug, PartialEq, Serialize, Deserialize)]
pub struct FactDef {
    pub name: String,
    pub keys: Vec<(String, Ty)>,
    pub vals: Vec<(String, Ty)>,
}

#[derive(Clone, Debug, PartialEq, Serialize, Deserialize)]
pub struct EffectDef {
    pub name: String,
    pub fields: Vec<(String, Ty)>,
}

#[derive(Clone, Debug, PartialEq, Serialize, Deserialize)]
pub struct Func {
    pub name: String,
    pub params: Vec<(String, Ty)>,
    pub ret: Ty,
    pub body: Vec<Stmt>,
}

#[derive(Clone, Debug, PartialEq, Serialize, Deserialize)]
pub struct FinishFn {
    pub name: String,
    pub params: Vec<(String, Ty)>,
    pub body: Vec<Stmt>,
}

#[derive(Clone, Debug, PartialEq, Serialize, Deserialize)]
pub struct RecallBlock {
    pub name: String,
    pub params: Vec<(String, Ty)>,
    pub body: Vec<Stmt>,
}

#[derive(Clone, Debug, PartialEq, Serialize, Deserialize)]
pub struct Command {
    pub name: String,
    pub fields: Vec<(String, Ty)>,
    pub policy: Vec<Stmt>,
    pub recalls: Vec<RecallBlock>,
}

#[derive(Clone, Debug, PartialEq, Serialize, Deserialize)]
pub struct Action {
    pub name: String,
    pub params: Vec<(String, Ty)>,
    pub body: Vec<Stmt>,
}

#[derive(Clone, Debug, Default, PartialEq, Serialize, Deserialize)]
pub struct Prog {
    pub enums: Vec<EnumDef>,
    pub structs: Vec<StructDef>,
    pub globals: Vec<(String, Expr)>,
    #[serde(default)]
    pub facts: Vec<FactDef>,
    #[serde(default)]
    pub effects: Vec<EffectDef>,
    pub funcs: Vec<Func>,
    #[serde(default)]
    pub finish_fns: Vec<FinishFn>,
    #[serde(default)]
    pub commands: Vec<Command>,
    #[serde(default)]
    pub actions: Vec<Action>,
}

#[derive(Clone, Copy, Debug, PartialEq, Eq, Serialize, Deserialize)]
pub enum BinOp {
    And,
    Or,
    Eq,
    Ne,
    Lt,
    Gt,
    Le,
    Ge,
}

#[derive(Clone, Copy, Debug, PartialEq, Eq, Serialize, Deserialize)]
pub enum Arith {
    Add,
    Sub,
    SatAdd,
    SatSub,
}

#[derive(Clone, Debug, PartialEq, Serialize, Deserialize)]
pub struct FactLit {
    pub name: String,
    pub keys: Vec<(String, Expr)>,
    pub vals: Option<Vec<(String, Expr)>>,
}

#[derive(Clone, Debug, PartialEq, Serialize, Deserialize)]
pub enum Expr {
    Int(i64),
    Bool(bool),
    Str(String),
    EnumRef(String, String),
    None,
    Some(Box<Expr>),
    Ok(Box<Expr>),
    Err(Box<Expr>),
    StructLit {
        name: String,
        fields: Vec<(String, Expr)>,
        sources: Vec<String>,
    },
    Var(String),
    Not(Box<Expr>),
    Bin(BinOp, Box<Expr>, Box<Expr>),
    Coalesce(Box<Expr>, Box<Expr>),
    /// `e is Some` (true) / `e is None` (false)
    Is(Box<Expr>, bool),
    Arith(Arith, Box<Expr>, Box<Expr>),
    Dot(Box<Expr>, String),
    Substruct(Box<Expr>, String),
    Cast(Box<Expr>, String),
    Call(String, Vec<Expr>),
    /// `probe::<name>(args)`
    Ffi(String, Vec<Expr>),
    If(Box<Expr>, Box<Block>, Box<Block>),
    Block(Box<Block>),
    Match(Box<Expr>, Vec<(Pat, Expr)>),
    Todo,
    Return(Box<Expr>),
    Recall(String, Vec<Expr>),
    Exists(Box<FactLit>),
}

#[derive(Clone, Debug, PartialEq, Serialize, Deserialize)]
pub struct Block {
    pub stmts: Vec<Stmt>,
    pub value: Expr,
}

#[derive(Clone, Debug, PartialEq, Serialize, Deserialize)]
pub enum PatVal {
    /// a literal expression
    Lit(Expr),
    SomeBind(String),
    OkBind(String),
    ErrBind(String),
}

#[derive(Clone, Debug, PartialEq, Serialize, Deserialize)]
pub enum Pat {
    Vals(Vec<PatVal>),
    Default,
}

#[derive(Clone, Debug, PartialEq, Serialize, Deserialize)]
pub enum Stmt {
    Let(String, Expr),
    Check(Expr, Expr),
    If(Vec<(Expr, Vec<Stmt>)>, Option<Vec<Stmt>>),
    Match(Expr, Vec<(Pat, Vec<Stmt>)>),
    Return(Expr),
    DebugAssert(Expr),
    Finish(Vec<Stmt>),
    Recall(String, Vec<Expr>),
    Create(FactLit),
    Update(FactLit, Vec<(String, Expr)>),
    Delete(FactLit),
    Emit(Expr),
    CallFinish(String, Vec<Expr>),
    Publish(Expr),
}

impl Prog {
    /// Flattened field list of a struct-like type (struct, effect, command, fact).
    pub fn struct_fields(&self, name: &str) -> Option<Vec<(String, Ty)>> {
        if let Some(s) = self.structs.iter().find(|s| s.name == name) {
            let mut out = Vec::new();
            for it in &s.items {
                match it {
                    Item::Field(n, t) => out.push((n.clone(), t.clone())),
                    Item::Insert(o) => out.extend(self.struct_fields(o)?),
                }
            }
            return Some(out);
        }
        if let Some(e) = self.effects.iter().find(|e| e.name == name) {
            return Some(e.fields.clone());
        }
        if let Some(c) = self.commands.iter().find(|c| c.name == name) {
            return Some(c.fields.clone());
        }
        if let Some(f) = self.facts.iter().find(|f| f.name == name) {
            let mut v = f.keys.clone();
            v.extend(f.vals.clone());
            return Some(v);
        }
        None
    }

    pub fn func(&self, name: &str) -> Option<&Func> {
        self.funcs.iter().find(|f| f.name == name)
    }
}

// ---------------------------------------------------------------------------------------------
// printer

thread_local! {
    /// When set, operators are printed with the fewest parentheses the documented precedence
    /// table allows (`.` > `substruct`/`as` > `!` > comparisons, `is` > `==` `!=` > `&&` `||` >
    /// `or`, binary operators left-associative, `or` right-associative), so that the parser's
    /// precedence handling is in the tested path as well.
    pub static LEAN: std::cell::Cell<bool> = const { std::cell::Cell::new(false) };
}

fn lean() -> bool {
    LEAN.with(|l| l.get())
}

/// Binding strength by the documented table; larger binds tighter.
fn prec(e: &Expr) -> u8 {
    match e {
        Expr::Coalesce(..) => 1,
        Expr::Bin(BinOp::And | BinOp::Or, ..) => 2,
        Expr::Bin(BinOp::Eq | BinOp::Ne, ..) => 3,
        Expr::Bin(..) | Expr::Is(..) => 4,
        Expr::Not(_) => 6,
        Expr::Substruct(..) | Expr::Cast(..) => 7,
        Expr::Dot(..) => 8,
        // `return e` and `recall f()` extend as far to the right as possible
        Expr::Return(_) | Expr::Recall(..) => 0,
        _ => 9,
    }
}

/// Prints `e` as an operand of an operator of strength `min`; parenthesized if it binds looser.
fn operand(e: &Expr, min: u8, ind: usize) -> String {
    let s = print_expr(e, ind);
    if prec(e) >= min || (s.starts_with('(') && s.ends_with(')') && !matches!(e, Expr::Bin(..) | Expr::Coalesce(..) | Expr::Is(..))) { s } else { format!("({s})") }
}

pub fn print_ty(t: &Ty) -> String {
    match t {
        Ty::Bool => "bool".into(),
        Ty::Int => "int".into(),
        Ty::Str => "string".into(),
        Ty::Id => "id".into(),
        Ty::Enum(n) => format!("enum {n}"),
        Ty::Struct(n) => format!("struct {n}"),
        Ty::Opt(i) => format!("option[{}]", print_ty(i)),
        Ty::Res(a, b) => format!("result[{}, {}]", print_ty(a), print_ty(b)),
    }
}

fn print_str(s: &str) -> String {
    let mut o = String::from("\"");
    for c in s.chars() {
        match c {
            '"' => o.push_str("\\\""),
            '\\' => o.push_str("\\\\"),
            '\n' => o.push_str("\\n"),
            '\u{1}'..='\u{1f}' | '\u{7f}' => {
                let _ = write!(o, "\\x{:02x}", c as u32);
            }
            c => o.push(c),
        }
    }
    o.push('"');
    o
}

fn print_args(args: &[Expr], ind: usize) -> String {
    args.iter().map(|a| print_expr(a, ind)).collect::<Vec<_>>().join(", ")
}

pub fn print_fact(f: &FactLit, ind: usize) -> String {
    let ks = f.keys.iter().map(|(n, e)| format!("{n}: {}", print_expr(e, ind))).collect::<Vec<_>>().join(", ");
    let mut s = format!("{}[{}]", f.name, ks);
    if let Some(vs) = &f.vals {
        let vs = vs.iter().map(|(n, e)| format!("{n}: {}", print_expr(e, ind))).collect::<Vec<_>>().join(", ");
        let _ = write!(s, "=>{{{vs}}}");
    }
    s
}

/// Conditions and scrutinees are followed by `{`; a bare identifier there could be read as the
/// start of a struct literal, so anything not already parenthesized gets parentheses.
fn print_head(e: &Expr, ind: usize) -> String {
    let s = print_expr(e, ind);
    if !lean() && s.starts_with('(') && s.ends_with(')') && matches!(e, Expr::Bin(..) | Expr::Coalesce(..)) {
        s
    } else {
        format!("({s})")
    }
}

fn pad(ind: usize) -> String {
    "    ".repeat(ind)
}

fn print_block(b: &Block, ind: usize) -> String {
    let mut s = String::from("{\n");
    for st in &b.stmts {
        print_stmt(st, ind + 1, &mut s);
    }
    let _ = writeln!(s, "{}: {}", pad(ind + 1), print_expr(&b.value, ind + 1));
    let _ = write!(s, "{}}}", pad(ind));
    s
}

pub fn print_patval(p: &PatVal) -> String {
    match p {
        // a pattern starting with `-` after the previous arm's expression would read as a subtraction
        PatVal::Lit(Expr::Int(n)) if *n < 0 => format!("({n})"),
        PatVal::Lit(e) => print_expr(e, 0),
        PatVal::SomeBind(n) => format!("Some({n})"),
        PatVal::OkBind(n) => format!("Ok({n})"),
        PatVal::ErrBind(n) => format!("Err({n})"),
    }
}

fn print_pat(p: &Pat) -> String {
    match p {
        Pat::Default => "_".into(),
        Pat::Vals(v) => v.iter().map(print_patval).collect::<Vec<_>>().join(" | "),
    }
}

pub fn print_expr(e: &Expr, ind: usize) -> String {
    match e {
        Expr::Int(n) => n.to_string(),
        Expr::Bool(b) => b.to_string(),
        Expr::Str(s) => print_str(s),
        Expr::EnumRef(a, b) => format!("{a}::{b}"),
        Expr::None => "None".into(),
        Expr::Some(x) => format!("Some({})", print_expr(x, ind)),
        Expr::Ok(x) => format!("Ok({})", print_expr(x, ind)),
        Expr::Err(x) => format!("Err({})", print_expr(x, ind)),
        Expr::StructLit { name, fields, sources } => {
            let mut parts: Vec<String> = fields.iter().map(|(n, x)| format!("{n}: {}", print_expr(x, ind))).collect();
            parts.extend(sources.iter().map(|s| format!("...{s}")));
            format!("{name} {{ {} }}", parts.join(", "))
        }
        Expr::Var(v) => v.clone(),
        Expr::Not(x) if lean() => format!("!{}", operand(x, 6, ind)),
        Expr::Not(x) => format!("!({})", print_expr(x, ind)),
        Expr::Bin(op, a, b) => {
            let o = match op {
                BinOp::And => "&&",
                BinOp::Or => "||",
                BinOp::Eq => "==",
                BinOp::Ne => "!=",
                BinOp::Lt => "<",
                BinOp::Gt => ">",
                BinOp::Le => "<=",
                BinOp::Ge => ">=",
            };
            if lean() {
                // left-associative: the right operand must bind strictly tighter
                let p = prec(e);
                return format!("{} {o} {}", operand(a, p, ind), operand(b, p + 1, ind));
            }
            format!("({} {o} {})", print_expr(a, ind), print_expr(b, ind))
        }
        // right-associative
        Expr::Coalesce(a, b) if lean() => format!("{} or {}", operand(a, 2, ind), operand(b, 1, ind)),
        Expr::Coalesce(a, b) => format!("({} or {})", print_expr(a, ind), print_expr(b, ind)),
        Expr::Is(x, some) if lean() => format!("{} is {}", operand(x, 5, ind), if *some { "Some" } else { "None" }),
        Expr::Is(x, some) => format!("(({}) is {})", print_expr(x, ind), if *some { "Some" } else { "None" }),
        Expr::Arith(op, a, b) => {
            let f = match op {
                Arith::Add => "add",
                Arith::Sub => "sub",
                Arith::SatAdd => "saturating_add",
                Arith::SatSub => "saturating_sub",
            };
            format!("{f}({}, {})", print_expr(a, ind), print_expr(b, ind))
        }
        Expr::Dot(x, f) if lean() => format!("{}.{f}", operand(x, 8, ind)),
        Expr::Dot(x, f) => match &**x {
            Expr::Var(v) => format!("{v}.{f}"),
            x => format!("({}).{f}", print_expr(x, ind)),
        },
        Expr::Substruct(x, n) if lean() => format!("{} substruct {n}", operand(x, 7, ind)),
        Expr::Cast(x, n) if lean() => format!("{} as {n}", operand(x, 7, ind)),
        Expr::Substruct(x, n) => format!("(({}) substruct {n})", print_expr(x, ind)),
        Expr::Cast(x, n) => format!("(({}) as {n})", print_expr(x, ind)),
        Expr::Call(f, args) => format!("{f}({})", print_args(args, ind)),
        Expr::Ffi(f, args) => format!("probe::{f}({})", print_args(args, ind)),
        Expr::If(c, t, f) => format!("if {} {} else {}", print_head(c, ind), print_block(t, ind), print_block(f, ind)),
        Expr::Block(b) => print_block(b, ind),
        Expr::Match(s, arms) => {
            let mut o = format!("match {} {{\n", print_head(s, ind));
            for (p, x) in arms {
                let _ = writeln!(o, "{}{} => ({})", pad(ind + 1), print_pat(p), print_expr(x, ind + 1));
            }
            let _ = write!(o, "{}}}", pad(ind));
            o
        }
        Expr::Todo => "todo()".into(),
        Expr::Return(x) => format!("(return {})", print_expr(x, ind)),
        Expr::Recall(n, args) => format!("(recall {n}({}))", print_args(args, ind)),
        Expr::Exists(f) => format!("(exists {})", print_fact(f, ind)),
    }
}

fn print_stmts(v: &[Stmt], ind: usize, out: &mut String) {
    for s in v {
        print_stmt(s, ind, out);
    }
}

pub fn print_stmt(s: &Stmt, ind: usize, out: &mut String) {
    let p = pad(ind);
    match s {
        Stmt::Let(n, e) => {
            let _ = writeln!(out, "{p}let {n} = {}", print_expr(e, ind));
        }
        Stmt::Check(c, e) => {
            let _ = writeln!(out, "{p}check {} else {}", print_expr(c, ind), print_expr(e, ind));
        }
        Stmt::If(branches, fallback) => {
            for (i, (c, b)) in branches.iter().enumerate() {
                if i == 0 {
                    let _ = writeln!(out, "{p}if {} {{", print_head(c, ind));
                } else {
                    let _ = writeln!(out, "{p}}} else if {} {{", print_head(c, ind));
                }
                print_stmts(b, ind + 1, out);
            }
            if let Some(f) = fallback {
                let _ = writeln!(out, "{p}}} else {{");
                print_stmts(f, ind + 1, out);
            }
            let _ = writeln!(out, "{p}}}");
        }
        Stmt::Match(e, arms) => {
            let _ = writeln!(out, "{p}match {} {{", print_head(e, ind));
            for (pt, b) in arms {
                let _ = writeln!(out, "{}{} => {{", pad(ind + 1), print_pat(pt));
                print_stmts(b, ind + 2, out);
                let _ = writeln!(out, "{}}}", pad(ind + 1));
            }
            let _ = writeln!(out, "{p}}}");
        }
        Stmt::Return(e) => {
            let _ = writeln!(out, "{p}return {}", print_expr(e, ind));
        }
        Stmt::DebugAssert(e) => {
            let _ = writeln!(out, "{p}debug_assert({})", print_expr(e, ind));
        }
        Stmt::Finish(b) => {
            let _ = writeln!(out, "{p}finish {{");
            print_stmts(b, ind + 1, out);
            let _ = writeln!(out, "{p}}}");
        }
        Stmt::Recall(n, args) => {
            let _ = writeln!(out, "{p}recall {n}({})", print_args(args, ind));
        }
        Stmt::Create(f) => {
            let _ = writeln!(out, "{p}create {}", print_fact(f, ind));
        }
        Stmt::Update(f, to) => {
            let vs = to.iter().map(|(n, e)| format!("{n}: {}", print_expr(e, ind))).collect::<Vec<_>>().join(", ");
            let _ = writeln!(out, "{p}update {} to {{{vs}}}", print_fact(f, ind));
        }
        Stmt::Delete(f) => {
            let _ = writeln!(out, "{p}delete {}", print_fact(f, ind));
        }
        Stmt::Emit(e) => {
            let _ = writeln!(out, "{p}emit {}", print_expr(e, ind));
        }
        Stmt::CallFinish(n, args) => {
            let _ = writeln!(out, "{p}{n}({})", print_args(args, ind));
        }
        Stmt::Publish(e) => {
            let _ = writeln!(out, "{p}publish {}", print_expr(e, ind));
        }
    }
}

fn print_params(ps: &[(String, Ty)]) -> String {
    ps.iter().map(|(n, t)| format!("{n} {}", print_ty(t))).collect::<Vec<_>>().join(", ")
}

pub fn print_prog(p: &Prog) -> String {
    let mut o = String::from("use probe\n\n");
    for e in &p.enums {
        let _ = writeln!(o, "enum {} {{ {} }}", e.name, e.variants.join(", "));
    }
    for s in &p.structs {
        let items = s
            .items
            .iter()
            .map(|i| match i {
                Item::Field(n, t) => format!("{n} {}", print_ty(t)),
                Item::Insert(n) => format!("+{n}"),
            })
            .collect::<Vec<_>>()
            .join(", ");
        let _ = writeln!(o, "struct {} {{ {} }}", s.name, items);
    }
    for f in &p.facts {
        let _ = writeln!(o, "fact {}[{}]=>{{{}}}", f.name, print_params(&f.keys), print_params(&f.vals));
    }
    for e in &p.effects {
        let _ = writeln!(o, "effect {} {{ {} }}", e.name, print_params(&e.fields));
    }
    for (n, e) in &p.globals {
        let _ = writeln!(o, "let {n} = {}", print_expr(e, 0));
    }
    o.push('\n');
    for f in &p.funcs {
        let _ = writeln!(o, "function {}({}) {} {{", f.name, print_params(&f.params), print_ty(&f.ret));
        print_stmts(&f.body, 1, &mut o);
        o.push_str("}\n\n");
    }
    for f in &p.finish_fns {
        let _ = writeln!(o, "finish function {}({}) {{", f.name, print_params(&f.params));
        print_stmts(&f.body, 1, &mut o);
        o.push_str("}\n\n");
    }
    for c in &p.commands {
        let _ = writeln!(o, "command {} {{", c.name);
        let _ = writeln!(o, "    fields {{ {} }}", print_params(&c.fields));
        o.push_str("    seal { return todo() }\n    open { return todo() }\n");
        o.push_str("    policy {\n");
        print_stmts(&c.policy, 2, &mut o);
        o.push_str("    }\n");
        for r in &c.recalls {
            let _ = writeln!(o, "    recall {}({}) {{", r.name, print_params(&r.params));
            print_stmts(&r.body, 2, &mut o);
            o.push_str("    }\n");
        }
        o.push_str("}\n\n");
    }
    for a in &p.actions {
        let _ = writeln!(o, "action {}({}) {{", a.name, print_params(&a.params));
        print_stmts(&a.body, 1, &mut o);
        o.push_str("}\n\n");
    }
    o
}
