//! C22: compiled policy code computes the language semantics (VM vs reference interpreter).
use aranya_policy_vm::ExitReason;
use proptest::prelude::*;
use serde::{Deserialize, Serialize};
use vcommon::{CaseInfo, CheckResult, Ctx, Report, ensure, fail};

use crate::{
    ast::*,
    pgen::{Cfg, Inputs, build_case},
    interp::{Interp, Outcome},
    vmrun::*,
};

#[derive(Clone, Debug, Serialize, Deserialize)]
pub struct Case {
    pub prog: Prog,
    pub inputs: Inputs,
    #[serde(default)]
    pub planted: Vec<String>,
    /// print with the fewest parentheses the documented operator precedence allows
    #[serde(default)]
    pub lean: bool,
}

pub fn strategy(cfg: Cfg, len: usize, per_fn: usize) -> impl Strategy<Value = Case> {
    prop::collection::vec(any::<u16>(), 0..len).prop_map(move |data| {
        let lean = data.first().is_some_and(|x| x % 2 == 1);
        let (prog, inputs, planted) = build_case(data, cfg.clone(), per_fn);
        Case { prog, inputs, planted, lean }
    })
}

pub fn depth_of_expr(e: &Expr) -> u32 {
    let mut d = 0;
    visit_children(e, &mut |c| d = d.max(depth_of_expr(c)));
    d + 1
}

fn stmts_depth(v: &[Stmt]) -> u32 {
    v.iter().map(depth_of_stmt).max().unwrap_or(0)
}

pub fn depth_of_stmt(s: &Stmt) -> u32 {
    match s {
        Stmt::Let(_, e) | Stmt::Return(e) | Stmt::DebugAssert(e) | Stmt::Emit(e) | Stmt::Publish(e) => depth_of_expr(e),
        Stmt::Check(a, b) => depth_of_expr(a).max(depth_of_expr(b)),
        Stmt::If(bs, f) => {
            1 + bs.iter().map(|(c, b)| depth_of_expr(c).max(stmts_depth(b))).max().unwrap_or(0).max(f.as_ref().map(|b| stmts_depth(b)).unwrap_or(0))
        }
        Stmt::Match(e, arms) => 1 + depth_of_expr(e).max(arms.iter().map(|(_, b)| stmts_depth(b)).max().unwrap_or(0)),
        Stmt::Finish(b) => 1 + stmts_depth(b),
        _ => 1,
    }
}

/// Calls `f` on every direct sub-expression (including those inside nested statements).
pub fn visit_children(e: &Expr, f: &mut dyn FnMut(&Expr)) {
    fn stmts(v: &[Stmt], f: &mut dyn FnMut(&Expr)) {
        for s in v {
            match s {
                Stmt::Let(_, e) | Stmt::Return(e) | Stmt::DebugAssert(e) | Stmt::Emit(e) | Stmt::Publish(e) => f(e),
                Stmt::Check(a, b) => {
                    f(a);
                    f(b);
                }
                Stmt::If(bs, fb) => {
                    for (c, b) in bs {
                        f(c);
                        stmts(b, f);
                    }
                    if let Some(b) = fb {
                        stmts(b, f);
                    }
                }
                Stmt::Match(e, arms) => {
                    f(e);
                    for (_, b) in arms {
                        stmts(b, f);
                    }
                }
                Stmt::Finish(b) => stmts(b, f),
                Stmt::Recall(_, a) | Stmt::CallFinish(_, a) => a.iter().for_each(|x| f(x)),
                _ => {}
            }
        }
    }
    match e {
        Expr::Some(x) | Expr::Ok(x) | Expr::Err(x) | Expr::Not(x) | Expr::Is(x, _) | Expr::Dot(x, _) | Expr::Substruct(x, _) | Expr::Cast(x, _) | Expr::Return(x) => f(x),
        Expr::StructLit { fields, .. } => fields.iter().for_each(|(_, x)| f(x)),
        Expr::Bin(_, a, b) | Expr::Coalesce(a, b) | Expr::Arith(_, a, b) => {
            f(a);
            f(b);
        }
        Expr::Call(_, a) | Expr::Ffi(_, a) | Expr::Recall(_, a) => a.iter().for_each(|x| f(x)),
        Expr::If(c, t, e2) => {
            f(c);
            stmts(&t.stmts, f);
            f(&t.value);
            stmts(&e2.stmts, f);
            f(&e2.value);
        }
        Expr::Block(b) => {
            stmts(&b.stmts, f);
            f(&b.value);
        }
        Expr::Match(s, arms) => {
            f(s);
            arms.iter().for_each(|(_, x)| f(x));
        }
        _ => {}
    }
}

/// Feature labels of a program (for the histogram and the non-trivial rule).
pub fn features(p: &Prog) -> Vec<&'static str> {
    let s = format!("{:?}", p.funcs);
    let mut v = Vec::new();
    for (pat, l) in [
        ("SomeBind(", "match_some_binding"),
        ("OkBind(", "match_ok_binding"),
        ("ErrBind(", "match_err_binding"),
        ("Coalesce(", "coalesce"),
        ("Arith(Add", "checked_add"),
        ("Arith(Sub", "checked_sub"),
        ("Arith(Sat", "saturating"),
        ("Substruct(", "substruct"),
        ("Cast(", "cast"),
        ("sources: [\"", "struct_composition"),
        ("Call(", "call"),
        ("Ffi(", "ffi"),
        ("Todo", "todo"),
        ("Check(", "check"),
        ("Match(", "match"),
        ("If(", "if"),
        ("Block(", "block"),
        ("Dot(", "field_access"),
        ("DebugAssert(", "debug_assert"),
        ("Is(", "is_some_none"),
        ("Insert(", "struct_insertion"),
    ] {
        if s.contains(pat) {
            v.push(l);
        }
    }
    if format!("{:?}", p.structs).contains("Insert(") {
        v.push("struct_insertion");
    }
    v
}

/// Compares one VM run of a function with the model's outcome.
pub fn compare(prog: &Prog, fname: &str, model: &Outcome, model_ffi: &[(usize, i64)], vm: &RunOut, info: &mut CaseInfo) -> CheckResult {
    match (&vm.end, model) {
        (RunEnd::Error(_, ErrKind::StackOverflow), _) => {
            info.label("vm_stack_exhausted");
            return Ok(());
        }
        (_, Outcome::Stuck(s)) => fail!("generator produced a program the model cannot run", "{fname}: {s}"),
        (RunEnd::Error(e, _), m) => fail!("machine error where the semantics defines a result", "{fname}: vm={e} model={m:?}"),
        (RunEnd::Exit(ExitReason::Panic), Outcome::Panic) => info.label("outcome_panic"),
        (RunEnd::Exit(ExitReason::Normal), Outcome::Value(v)) => {
            info.label("outcome_value");
            let want = to_vm(prog, v);
            ensure!(vm.stack.len() == 1, "stack does not hold exactly the return value", "{fname}: stack={:?} want={want}", vm.stack);
            ensure!(vm.stack[0] == want, "returned value differs from the semantics", "{fname}: vm={} model={want}", vm.stack[0]);
        }
        (RunEnd::Exit(ExitReason::Panic), Outcome::Value(v)) => fail!("VM panicked where the semantics defines a value", "{fname}: model={v:?}"),
        (RunEnd::Exit(ExitReason::Normal), Outcome::Panic) => {
            fail!("VM returned a value where the semantics says evaluation fails", "{fname}: stack={:?}", vm.stack)
        }
        (RunEnd::Exit(r), m) => fail!("unexpected exit reason", "{fname}: {r:?} model={m:?}"),
    }
    ensure!(vm.ffi == model_ffi, "foreign-call trace differs", "{fname}: vm={:?} model={:?}", vm.ffi, model_ffi);
    ensure!(vm.events.is_empty(), "pure function performed fact/effect I/O", "{fname}: {:?}", vm.events);
    Ok(())
}

pub const SIG_EMPTY_SUBSTRUCT: &str = "substruct to a struct without fields leaves the source struct on the stack";

fn empty_structs(p: &Prog) -> Vec<String> {
    p.structs.iter().filter(|s| p.struct_fields(&s.name).is_some_and(|f| f.is_empty())).map(|s| s.name.clone()).collect()
}

/// `e substruct Empty` rewritten to the equivalent `{ let w = e : Empty {} }`.
pub fn rewrite_empty_substruct(p: &Prog) -> Option<Prog> {
    let empties = empty_structs(p);
    let mut q = p.clone();
    let mut k = 0;
    crate::walk::walk_prog(&mut q, &mut |e| {
        if let Expr::Substruct(x, n) = e {
            if empties.contains(n) {
                let inner = std::mem::replace(&mut **x, Expr::Todo);
                let name = n.clone();
                *e = Expr::Block(Box::new(Block {
                    stmts: vec![Stmt::Let(format!("w{k}"), inner)],
                    value: Expr::StructLit { name, fields: vec![], sources: vec![] },
                }));
                k += 1;
            }
        }
    });
    (k > 0).then_some(q)
}

pub fn check(c: &Case, info: &mut CaseInfo) -> CheckResult {
    check_with(c, info, false)
}

pub fn check_with(c: &Case, info: &mut CaseInfo, poison: bool) -> CheckResult {
    match check_inner(c, info, poison) {
        Ok(()) => Ok(()),
        Err(e) => {
            // attribute the failure to the known empty-substruct defect only if the same program
            // with that construct spelled differently agrees with the semantics
            if let Some(q) = rewrite_empty_substruct(&c.prog) {
                let c2 = Case { prog: q, inputs: c.inputs.clone(), planted: c.planted.clone(), lean: c.lean };
                if check_inner(&c2, &mut CaseInfo::default(), poison).is_ok() {
                    return Err(vcommon::Failure::new(SIG_EMPTY_SUBSTRUCT, e.detail));
                }
            }
            Err(e)
        }
    }
}

/// Policy source text of a case, in the case's printing style.
pub fn text_of(c: &Case) -> String {
    LEAN.with(|l| l.set(c.lean));
    let t = print_prog(&c.prog);
    LEAN.with(|l| l.set(false));
    t
}

pub fn check_inner(c: &Case, info: &mut CaseInfo, poison: bool) -> CheckResult {
    let text = text_of(c);
    if c.lean {
        info.label("printed_with_minimal_parentheses");
    }
    let module = match compile_module(&text) {
        Ok(m) => m,
        Err(CompileOutcome::Panicked(m)) => fail!("front end panicked", "{m}\n{text}"),
        Err(e) => {
            info.label("rejected_by_compiler");
            // a well-typed generated program must compile; count as failure of the harness' claim
            fail!("generated well-typed program rejected", "{e:?}\n{text}")
        }
    };
    let machine = machine_of(module);
    let mut interp = match Interp::new(&c.prog) {
        Ok(i) => i,
        Err(e) => fail!("generator produced a program the model cannot run", "{e}"),
    };
    let feats = features(&c.prog);
    let mut deep = 0;
    for f in &c.prog.funcs {
        deep = deep.max(f.body.iter().map(depth_of_stmt).max().unwrap_or(0));
    }
    let mut boundary = false;
    for (fi, f) in c.prog.funcs.iter().enumerate() {
        for args in c.inputs.fn_args.get(fi).map(|v| v.as_slice()).unwrap_or(&[]) {
            let model = interp.run_function(&f.name, args);
            let model_ffi = interp.ffi.clone();
            let mut io = RecIo::new();
            let vm_args = args.iter().map(|a| to_vm(&c.prog, a)).collect();
            let vm = run_function(&machine, &mut io, &f.name, vm_args);
            let mut r = compare(&c.prog, &f.name, &model, &model_ffi, &vm, info);
            if poison && r.is_ok() {
                // independent of the model: a poison foreign call must never be logged
                if let Some(p) = vm.ffi.iter().find(|(_, n)| *n > POISON_TICK && *n < POISON_TICK + 100_000) {
                    r = Err(vcommon::Failure::new("poison foreign call was executed", format!("{}: {p:?}", f.name)));
                }
            }
            r.map_err(|mut e| {
                e.detail = format!("{}\nargs={args:?}\n{text}", e.detail);
                e
            })?;
        }
    }
    let s = format!("{:?}{:?}", c.prog.funcs, c.inputs.fn_args);
    for b in [i64::MAX, i64::MIN, i64::MAX - 1, i64::MIN + 1] {
        if s.contains(&b.to_string()) {
            boundary = true;
        }
    }
    for l in &feats {
        info.label(*l);
    }
    if boundary {
        info.label("boundary_int");
    }
    let interesting = feats.iter().any(|l| matches!(*l, "match_some_binding" | "match_ok_binding" | "match_err_binding" | "coalesce"))
        || (boundary && feats.iter().any(|l| matches!(*l, "checked_add" | "checked_sub" | "saturating")));
    if deep >= 3 && interesting {
        info.nontrivial();
    }
    Ok(())
}

pub fn base_cfg(depth: u32) -> Cfg {
    Cfg { depth, poison: false, commands: false, never: true, misplace: 0, max_funcs: 4, empty_structs: true }
}

pub fn run(ctx: &Ctx) -> ! {
    let mut rep = Report::new(ctx, "exploration");
    rep.assume("the reference interpreter (interp.rs) is the language semantics: strict left-to-right evaluation, short-circuit && || or, block scoping, add/sub yield None on overflow, saturating_* clamp, structural ==, first matching arm, todo()/failed debug_assert/falling off a function end panic");
    rep.assume("functions are entered at their label with arguments pushed in order (what a Call instruction sees); VM stack exhaustion (100 slots) is skipped and counted");
    let n = ctx.pick(10_000, 200_000);
    rep.explore(
        "functions_depth4",
        "programs of 1-4 acyclic pure functions (0-3 params, let/check/if/match/debug_assert/return, expression depth <=4) over bool/int/string/id/enum/struct/option/result, each function run on 3 argument vectors incl. i64 boundaries; VM result/panic/FFI trace vs reference interpreter; non-trivial = statement depth >=3 and (match with binding or coalesce or checked/saturating arithmetic with a boundary integer)",
        || strategy(base_cfg(4), 600, 3),
        n,
        check,
    );
    rep.explore(
        "functions_depth6",
        "same generator, expression depth <=6, longer choice streams",
        || strategy(base_cfg(6), 1500, 3),
        n / 2,
        check,
    );
    rep.finish()
}
