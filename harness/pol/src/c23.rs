//! C23: untaken operands and branches are never evaluated.
use vcommon::{CaseInfo, CheckResult, Ctx, Report};

use crate::{
    c22::{Case, check_with, strategy},
    pgen::Cfg,
};

fn cfg(depth: u32) -> Cfg {
    Cfg { depth, poison: true, commands: false, never: false, misplace: 0, max_funcs: 3, empty_structs: false }
}

fn check(c: &Case, info: &mut CaseInfo) -> CheckResult {
    check_with(c, info, true)?;
    for p in &c.planted {
        info.label(format!("planted_{p}"));
    }
    if !c.planted.is_empty() {
        info.nontrivial();
    }
    Ok(())
}

pub fn run(ctx: &Ctx) -> ! {
    let mut rep = Report::new(ctx, "exploration");
    rep.assume("guards of the poisoned positions are constant by construction (literals, x == x, x <= MAX, saturating_add(x,0) == x, Some(_) is Some) so the poisoned operand/branch is untaken for every input");
    rep.assume("poison = todo(), a failing check, a failing debug_assert, an early return, or probe::tick/flag with a reserved argument logged by the harness I/O");
    let n = ctx.pick(15_000, 300_000);
    rep.explore(
        "poisoned_programs",
        "C22 programs (depth <=4) with poison planted in the right operand of && / || / or, in untaken if/match expression arms, untaken if/match statement branches and the else of passing checks; result, panic-freeness and foreign-call log vs the reference interpreter, plus: no poison foreign call in the log; non-trivial = at least one planted poison (every case)",
        || strategy(cfg(4), 700, 3),
        n,
        check,
    );
    rep.explore(
        "poisoned_programs_deep",
        "same, depth <=6",
        || strategy(cfg(6), 1500, 3),
        n / 3,
        check,
    );
    rep.finish()
}
