//! C24: policies the compiler accepts do not go wrong in the VM.
use proptest::prelude::*;
use serde::{Deserialize, Serialize};
use vcommon::{CaseInfo, CheckResult, Ctx, Report, fail};

use crate::{
    ast::*,
    interp::Val,
    exec::exec_all,
    pgen::{Cfg, Inputs, Src, build_case},
    vmrun::*,
    walk::{Node, walk_nodes},
};

#[derive(Clone, Debug, Serialize, Deserialize)]
pub struct Case {
    pub prog: Prog,
    pub inputs: Inputs,
    /// description of the single type-perturbing mutation that was applied ("" = none)
    pub mutation: String,
}

fn cfg() -> Cfg {
    Cfg { depth: 3, poison: false, commands: true, never: true, misplace: 0, max_funcs: 3, empty_structs: false }
}

fn odd_exprs(p: &Prog) -> Vec<Expr> {
    let mut v = vec![
        Expr::Int(7),
        Expr::Bool(true),
        Expr::Str("m".into()),
        Expr::None,
        Expr::Some(Box::new(Expr::Int(1))),
        Expr::Some(Box::new(Expr::None)),
        Expr::Ok(Box::new(Expr::Int(1))),
        Expr::Err(Box::new(Expr::Bool(false))),
        Expr::Todo,
        Expr::Return(Box::new(Expr::Int(0))),
        Expr::Return(Box::new(Expr::Todo)),
        Expr::Var("zz".into()),
        Expr::Var("this".into()),
        Expr::Var("envelope".into()),
        Expr::Block(Box::new(Block { stmts: vec![Stmt::Return(Expr::Todo)], value: Expr::Todo })),
    ];
    for s in &p.structs {
        let fs = p.struct_fields(&s.name).unwrap_or_default();
        v.push(Expr::StructLit { name: s.name.clone(), fields: fs.iter().map(|(n, _)| (n.clone(), Expr::Todo)).collect(), sources: vec![] });
        v.push(Expr::StructLit { name: s.name.clone(), fields: vec![], sources: vec![] });
    }
    for e in &p.enums {
        v.push(Expr::EnumRef(e.name.clone(), e.variants[0].clone()));
    }
    v
}

fn all_tys(p: &Prog) -> Vec<Ty> {
    let mut v = vec![Ty::Int, Ty::Bool, Ty::Str, Ty::Id, Ty::Opt(Box::new(Ty::Int)), Ty::Opt(Box::new(Ty::Bool)), Ty::Res(Box::new(Ty::Int), Box::new(Ty::Str))];
    for s in &p.structs {
        v.push(Ty::Struct(s.name.clone()));
        v.push(Ty::Opt(Box::new(Ty::Struct(s.name.clone()))));
    }
    for e in &p.enums {
        v.push(Ty::Enum(e.name.clone()));
    }
    v
}

fn names_in(p: &Prog) -> Vec<String> {
    let mut v: Vec<String> = p.globals.iter().map(|g| g.0.clone()).collect();
    v.extend(["p0", "p1", "v0", "v1", "v2", "b0", "b1", "this", "r0", "a0", "zz"].iter().map(|s| s.to_string()));
    v
}

/// Applies one mutation chosen by `src`; returns its description, or None if it did not apply.
pub fn mutate(p: &mut Prog, src: &mut Src) -> Option<String> {
    let kind = src.below(24);
    // count candidate nodes of each class
    let (mut n_expr, mut n_pat, mut n_stmts, mut n_fact) = (0usize, 0usize, 0usize, 0usize);
    walk_nodes(p, &mut |n| match n {
        Node::Expr(_) => n_expr += 1,
        Node::Pat(_) => n_pat += 1,
        Node::Stmts(_) => n_stmts += 1,
        Node::Fact(_) => n_fact += 1,
    });
    let odd = odd_exprs(p);
    let tys = all_tys(p);
    let names = names_in(p);
    let struct_names: Vec<String> = p.structs.iter().map(|s| s.name.clone()).chain(p.commands.iter().map(|c| c.name.clone())).chain(p.effects.iter().map(|c| c.name.clone())).collect();
    let pick = src.next();
    let pick2 = src.next();
    let pick3 = src.next();
    let mut done: Option<String> = None;
    // mutate the k-th node satisfying `pred` among expression nodes
    let on_expr = |p: &mut Prog, pred: &dyn Fn(&Expr) -> bool, act: &mut dyn FnMut(&mut Expr) -> String| -> Option<String> {
        let mut total = 0;
        walk_nodes(p, &mut |n| {
            if let Node::Expr(e) = n {
                if pred(e) {
                    total += 1;
                }
            }
        });
        if total == 0 {
            return None;
        }
        let target = vcommon::idx(pick, total);
        let mut i = 0;
        let mut out = None;
        walk_nodes(p, &mut |n| {
            if let Node::Expr(e) = n {
                if pred(e) {
                    if i == target && out.is_none() {
                        out = Some(act(e));
                    }
                    i += 1;
                }
            }
        });
        out
    };
    let _ = (n_expr, n_stmts);
    match kind {
        0 | 1 => {
            // replace an arbitrary sub-expression by an expression of (probably) another type
            let r = odd[vcommon::idx(pick2, odd.len())].clone();
            done = on_expr(p, &|_| true, &mut |e| {
                let d = format!("replace `{}` by `{}`", print_expr(e, 0), print_expr(&r, 0));
                *e = r.clone();
                d
            });
        }
        2 => {
            done = on_expr(p, &|e| matches!(e, Expr::Call(..) | Expr::Ffi(..)), &mut |e| {
                let (Expr::Call(n, a) | Expr::Ffi(n, a)) = e else { return String::new() };
                if pick2 % 2 == 0 && !a.is_empty() {
                    a.pop();
                    format!("drop last argument of call to {n}")
                } else {
                    a.push(Expr::Int(1));
                    format!("extra argument in call to {n}")
                }
            });
        }
        3 | 4 => {
            // recall arity / argument type (statement and expression forms)
            let mut cands = 0;
            walk_nodes(p, &mut |n| match n {
                Node::Expr(Expr::Recall(..)) => cands += 1,
                Node::Stmts(v) => cands += v.iter().filter(|s| matches!(s, Stmt::Recall(..))).count(),
                _ => {}
            });
            if cands > 0 {
                let target = vcommon::idx(pick, cands);
                let mut i = 0;
                let edit = |name: &str, a: &mut Vec<Expr>| -> String {
                    match pick2 % 3 {
                        0 if !a.is_empty() => {
                            a.pop();
                            format!("drop last argument of recall {name}")
                        }
                        1 => {
                            a.push(Expr::Int(1));
                            format!("extra argument in recall {name}")
                        }
                        _ => {
                            a.clear();
                            format!("no arguments in recall {name}")
                        }
                    }
                };
                walk_nodes(p, &mut |n| match n {
                    Node::Expr(Expr::Recall(name, a)) => {
                        if i == target && done.is_none() {
                            done = Some(edit(name, a));
                        }
                        i += 1;
                    }
                    Node::Stmts(v) => {
                        for s in v.iter_mut() {
                            if let Stmt::Recall(name, a) = s {
                                if i == target && done.is_none() {
                                    done = Some(edit(name, a));
                                }
                                i += 1;
                            }
                        }
                    }
                    _ => {}
                });
            }
        }
        5 => {
            // rename a let binder to another name (shadowing / redefinition)
            let new = names[vcommon::idx(pick2, names.len())].clone();
            let mut total = 0;
            walk_nodes(p, &mut |n| {
                if let Node::Stmts(v) = n {
                    total += v.iter().filter(|s| matches!(s, Stmt::Let(..))).count();
                }
            });
            if total > 0 {
                let target = vcommon::idx(pick, total);
                let mut i = 0;
                walk_nodes(p, &mut |n| {
                    if let Node::Stmts(v) = n {
                        for s in v.iter_mut() {
                            if let Stmt::Let(name, _) = s {
                                if i == target && done.is_none() {
                                    done = Some(format!("let {name} renamed to {new}"));
                                    *name = new.clone();
                                }
                                i += 1;
                            }
                        }
                    }
                });
            }
        }
        6 | 7 => {
            // struct literal: drop a field, add an unknown field, duplicate a field
            done = on_expr(p, &|e| matches!(e, Expr::StructLit { .. }), &mut |e| {
                let Expr::StructLit { name, fields, .. } = e else { return String::new() };
                match pick2 % 3 {
                    0 if !fields.is_empty() => {
                        let i = vcommon::idx(pick3, fields.len());
                        let f = fields.remove(i);
                        format!("struct literal {name}: field {} dropped", f.0)
                    }
                    1 => {
                        fields.push(("fzz".into(), Expr::Int(1)));
                        format!("struct literal {name}: unknown field added")
                    }
                    _ => {
                        if let Some(f) = fields.first().cloned() {
                            fields.push(f);
                        }
                        format!("struct literal {name}: field duplicated")
                    }
                }
            });
        }
        8 | 9 => {
            // patterns: alternation mixing a binding with another variant, literal after binding,
            // non-literal pattern, dropped default, duplicated arm value
            if n_pat > 0 {
                let target = vcommon::idx(pick, n_pat);
                let mut i = 0;
                walk_nodes(p, &mut |n| {
                    if let Node::Pat(pt) = n {
                        if i == target && done.is_none() {
                            done = Some(match pt {
                                Pat::Vals(vs) => {
                                    let has_some = vs.iter().any(|v| matches!(v, PatVal::SomeBind(_)));
                                    let has_ok = vs.iter().any(|v| matches!(v, PatVal::OkBind(_)));
                                    let has_err = vs.iter().any(|v| matches!(v, PatVal::ErrBind(_)));
                                    if has_some {
                                        vs.push(PatVal::Lit(Expr::None));
                                        "pattern Some(x) | None".to_string()
                                    } else if has_ok {
                                        if pick2 % 2 == 0 {
                                            vs.push(PatVal::ErrBind("bz".into()));
                                            "pattern Ok(x) | Err(y)".to_string()
                                        } else {
                                            vs.push(PatVal::Lit(Expr::Err(Box::new(Expr::Int(1)))));
                                            "pattern Ok(x) | Err(1)".to_string()
                                        }
                                    } else if has_err {
                                        vs.push(PatVal::OkBind("bz".into()));
                                        "pattern Err(e) | Ok(x)".to_string()
                                    } else {
                                        match pick2 % 3 {
                                            0 => {
                                                vs.push(PatVal::Lit(Expr::Var("v0".into())));
                                                "identifier as pattern".to_string()
                                            }
                                            1 => {
                                                vs.push(PatVal::SomeBind("bz".into()));
                                                "Some(x) added to a literal arm".to_string()
                                            }
                                            _ => {
                                                vs.push(PatVal::Lit(Expr::Int(1)));
                                                "int literal added to an arm".to_string()
                                            }
                                        }
                                    }
                                }
                                Pat::Default => {
                                    *pt = Pat::Vals(vec![PatVal::Lit(Expr::None)]);
                                    "default arm replaced by None".to_string()
                                }
                            });
                        }
                        i += 1;
                    }
                });
            }
        }
        10 => {
            // declared types: parameter, return, struct field, command field, recall parameter
            let t = tys[vcommon::idx(pick2, tys.len())].clone();
            let mut slots: Vec<(&mut Ty, String)> = Vec::new();
            for f in &mut p.funcs {
                let name = f.name.clone();
                for (pn, pt) in &mut f.params {
                    slots.push((pt, format!("{name} parameter {pn}")));
                }
                slots.push((&mut f.ret, format!("{name} return type")));
            }
            for s in &mut p.structs {
                let name = s.name.clone();
                for it in &mut s.items {
                    if let Item::Field(n, ft) = it {
                        slots.push((ft, format!("struct {name} field {n}")));
                    }
                }
            }
            for c in &mut p.commands {
                for r in &mut c.recalls {
                    let rn = r.name.clone();
                    for (pn, pt) in &mut r.params {
                        slots.push((pt, format!("recall {rn} parameter {pn}")));
                    }
                }
            }
            for f in &mut p.finish_fns {
                let name = f.name.clone();
                for (pn, pt) in &mut f.params {
                    slots.push((pt, format!("{name} parameter {pn}")));
                }
            }
            for f in &mut p.effects {
                let name = f.name.clone();
                for (pn, pt) in &mut f.fields {
                    slots.push((pt, format!("effect {name} field {pn}")));
                }
            }
            for f in &mut p.facts {
                let name = f.name.clone();
                for (pn, pt) in f.keys.iter_mut().chain(f.vals.iter_mut()) {
                    slots.push((pt, format!("fact {name} field {pn}")));
                }
            }
            if !slots.is_empty() {
                let n = slots.len();
                let (slot, what) = &mut slots[vcommon::idx(pick, n)];
                done = Some(format!("{what}: {} -> {}", print_ty(slot), print_ty(&t)));
                **slot = t;
            }
        }
        11 => {
            // variable reference swapped for another name
            let new = names[vcommon::idx(pick2, names.len())].clone();
            done = on_expr(p, &|e| matches!(e, Expr::Var(_)), &mut |e| {
                let d = format!("reference `{}` -> `{new}`", print_expr(e, 0));
                *e = Expr::Var(new.clone());
                d
            });
        }
        12 => {
            // field name / cast target / substruct target
            let fnames = ["fa", "fb", "fc", "fd", "fe", "ff", "n1", "c0", "x0", "fzz"];
            let nf = fnames[vcommon::idx(pick2, fnames.len())].to_string();
            let ns = if struct_names.is_empty() { "S9".to_string() } else { struct_names[vcommon::idx(pick3, struct_names.len())].clone() };
            done = on_expr(p, &|e| matches!(e, Expr::Dot(..) | Expr::Cast(..) | Expr::Substruct(..)), &mut |e| match e {
                Expr::Dot(_, f) => {
                    let d = format!("field .{f} -> .{nf}");
                    *f = nf.clone();
                    d
                }
                Expr::Cast(_, n) | Expr::Substruct(_, n) => {
                    let d = format!("cast/substruct target {n} -> {ns}");
                    *n = ns.clone();
                    d
                }
                _ => String::new(),
            });
        }
        13 | 14 => {
            // statement lists: swap two adjacent statements, drop one, duplicate one
            let mut total = 0;
            walk_nodes(p, &mut |n| {
                if let Node::Stmts(v) = n {
                    if !v.is_empty() {
                        total += 1;
                    }
                }
            });
            if total > 0 {
                let target = vcommon::idx(pick, total);
                let mut i = 0;
                walk_nodes(p, &mut |n| {
                    if let Node::Stmts(v) = n {
                        if v.is_empty() {
                            return;
                        }
                        if i == target && done.is_none() {
                            let k = vcommon::idx(pick2, v.len());
                            done = Some(match pick3 % 3 {
                                0 if k + 1 < v.len() => {
                                    v.swap(k, k + 1);
                                    format!("statements {k} and {} swapped", k + 1)
                                }
                                1 => {
                                    v.remove(k);
                                    format!("statement {k} dropped")
                                }
                                _ => {
                                    let s = v[k].clone();
                                    v.insert(k, s);
                                    format!("statement {k} duplicated")
                                }
                            });
                        }
                        i += 1;
                    }
                });
            }
        }
        15 => {
            // fact literals: drop a key / value, reorder keys
            if n_fact > 0 {
                let target = vcommon::idx(pick, n_fact);
                let mut i = 0;
                walk_nodes(p, &mut |n| {
                    if let Node::Fact(fl) = n {
                        if i == target && done.is_none() {
                            done = Some(match pick2 % 3 {
                                0 if !fl.keys.is_empty() => {
                                    fl.keys.pop();
                                    "fact literal: last key dropped".to_string()
                                }
                                1 if fl.vals.as_ref().is_some_and(|v| !v.is_empty()) => {
                                    fl.vals.as_mut().map(|v| v.pop());
                                    "fact literal: last value dropped".to_string()
                                }
                                _ => {
                                    fl.keys.reverse();
                                    "fact literal: keys reversed".to_string()
                                }
                            });
                        }
                        i += 1;
                    }
                });
            }
        }
        16 => {
            // definitions: drop a struct field / enum variant / command field
            match pick2 % 3 {
                0 if !p.structs.is_empty() => {
                    let k = vcommon::idx(pick, p.structs.len());
                    let s = &mut p.structs[k];
                    if !s.items.is_empty() {
                        let j = vcommon::idx(pick3, s.items.len());
                        s.items.remove(j);
                        done = Some(format!("struct {}: item {j} removed from the definition", s.name));
                    }
                }
                1 if !p.enums.is_empty() => {
                    let k = vcommon::idx(pick, p.enums.len());
                    let e = &mut p.enums[k];
                    if e.variants.len() > 1 {
                        e.variants.pop();
                        done = Some(format!("enum {}: last variant removed", e.name));
                    }
                }
                _ => {
                    if let Some(c) = p.commands.first_mut() {
                        if !c.fields.is_empty() {
                            c.fields.pop();
                            done = Some(format!("command {}: last field removed", c.name));
                        }
                    }
                }
            }
        }
        17 => {
            // Some/Ok/Err/None constructors swapped
            done = on_expr(p, &|e| matches!(e, Expr::Some(_) | Expr::Ok(_) | Expr::Err(_) | Expr::None), &mut |e| {
                let d = format!("constructor of `{}` changed", print_expr(e, 0));
                *e = match std::mem::replace(e, Expr::Todo) {
                    Expr::Some(x) => Expr::Ok(x),
                    Expr::Ok(x) => Expr::Err(x),
                    Expr::Err(x) => Expr::Some(x),
                    _ => Expr::Some(Box::new(Expr::None)),
                };
                d
            });
        }
        18 => {
            // operands of a binary / coalesce / arithmetic node swapped or one replaced by None
            done = on_expr(p, &|e| matches!(e, Expr::Bin(..) | Expr::Coalesce(..) | Expr::Arith(..)), &mut |e| {
                let d = format!("operands of `{}` perturbed", print_expr(e, 0).chars().take(60).collect::<String>());
                match e {
                    Expr::Coalesce(a, b) => std::mem::swap(a, b),
                    Expr::Bin(_, a, _) | Expr::Arith(_, a, _) => **a = Expr::None,
                    _ => {}
                }
                d
            });
        }
        20 | 21 => {
            // a declared type that contains a result/option: one component (preferably the error type) changed
            // components in a fixed order; the error type of a result is listed twice (double weight)
            fn count(t: &Ty) -> usize {
                match t {
                    Ty::Res(a, b) => 3 + count(a) + count(b),
                    Ty::Opt(a) => 1 + count(a),
                    _ => 0,
                }
            }
            fn apply(t: &mut Ty, n: &mut usize, new: &Ty) -> Option<String> {
                let hit = |slot: &mut Ty, what: &str, n: &mut usize| -> Option<String> {
                    if *n == 0 {
                        *n = usize::MAX;
                        if slot == new {
                            return Some(String::new());
                        }
                        let d = format!("{what}: {} -> {}", print_ty(slot), print_ty(new));
                        *slot = new.clone();
                        return Some(d);
                    }
                    *n -= 1;
                    None
                };
                match t {
                    Ty::Res(a, b) => hit(b, "error type", n)
                        .or_else(|| hit(b, "error type", n))
                        .or_else(|| hit(a, "ok type", n))
                        .or_else(|| apply(a, n, new))
                        .or_else(|| apply(b, n, new)),
                    Ty::Opt(a) => hit(a, "option payload type", n).or_else(|| apply(a, n, new)),
                    _ => None,
                }
            }
            let t = tys[vcommon::idx(pick2, tys.len())].clone();
            let mut slots: Vec<(&mut Ty, String)> = Vec::new();
            for f in &mut p.funcs {
                let name = f.name.clone();
                for (pn, pt) in &mut f.params {
                    slots.push((pt, format!("{name} parameter {pn}")));
                }
                slots.push((&mut f.ret, format!("{name} return type")));
            }
            for s in &mut p.structs {
                let name = s.name.clone();
                for it in &mut s.items {
                    if let Item::Field(n, ft) = it {
                        slots.push((ft, format!("struct {name} field {n}")));
                    }
                }
            }
            for c in &mut p.commands {
                let cn = c.name.clone();
                for (pn, pt) in &mut c.fields {
                    slots.push((pt, format!("command {cn} field {pn}")));
                }
                for r in &mut c.recalls {
                    let rn = r.name.clone();
                    for (pn, pt) in &mut r.params {
                        slots.push((pt, format!("recall {rn} parameter {pn}")));
                    }
                }
            }
            for f in &mut p.finish_fns {
                let name = f.name.clone();
                for (pn, pt) in &mut f.params {
                    slots.push((pt, format!("{name} parameter {pn}")));
                }
            }
            for a in &mut p.actions {
                let name = a.name.clone();
                for (pn, pt) in &mut a.params {
                    slots.push((pt, format!("{name} parameter {pn}")));
                }
            }
            let total: usize = slots.iter().map(|(t, _)| count(t)).sum();
            if total > 0 {
                let mut n = vcommon::idx(pick, total);
                for (slot, what) in slots {
                    let c = count(slot);
                    if n < c {
                        if let Some(d) = apply(slot, &mut n, &t) {
                            if !d.is_empty() {
                                done = Some(format!("result/option component changed: {what}, {d}"));
                            }
                        }
                        break;
                    }
                    n -= c;
                }
            }
        }
        22 => {
            // a match on an option/result without default arm loses one constructor arm
            let is_ctor_pat = |pt: &Pat| matches!(pt, Pat::Vals(vs) if vs.iter().all(|v| matches!(v, PatVal::SomeBind(_) | PatVal::OkBind(_) | PatVal::ErrBind(_) | PatVal::Lit(Expr::None))));
            let mut total = 0;
            let visit = |n: Node<'_>, act: Option<(usize, usize)>, total: &mut usize, done: &mut Option<String>| {
                let mut handle = |pats: Vec<Pat>, remove: &mut dyn FnMut(usize)| {
                    if pats.len() >= 2 && !pats.iter().any(|p| matches!(p, Pat::Default)) && pats.iter().any(is_ctor_pat) {
                        if let Some((target, k)) = act {
                            if *total == target && done.is_none() {
                                let cands: Vec<usize> = (0..pats.len()).filter(|i| is_ctor_pat(&pats[*i])).collect();
                                let i = cands[k % cands.len()];
                                let Pat::Vals(vs) = &pats[i] else { unreachable!() };
                                *done = Some(format!("constructor arm removed: `{}` from a match without default", print_patval(&vs[0])));
                                remove(i);
                            }
                        }
                        *total += 1;
                    }
                };
                match n {
                    Node::Expr(Expr::Match(_, arms)) => {
                        let pats = arms.iter().map(|a| a.0.clone()).collect();
                        handle(pats, &mut |i| {
                            arms.remove(i);
                        });
                    }
                    Node::Stmts(v) => {
                        for s in v.iter_mut() {
                            if let Stmt::Match(_, arms) = s {
                                let pats = arms.iter().map(|a| a.0.clone()).collect();
                                handle(pats, &mut |i| {
                                    arms.remove(i);
                                });
                            }
                        }
                    }
                    _ => {}
                }
            };
            walk_nodes(p, &mut |n| visit(n, None, &mut total, &mut done));
            if total > 0 {
                let target = vcommon::idx(pick, total);
                let mut i = 0;
                walk_nodes(p, &mut |n| visit(n, Some((target, pick2 as usize)), &mut i, &mut done));
            }
        }
        23 => {
            // the payload of an Ok / Err / Some constructor replaced by an expression of (probably) another type
            let r = odd[vcommon::idx(pick2, 8.min(odd.len()))].clone();
            done = on_expr(p, &|e| matches!(e, Expr::Ok(_) | Expr::Err(_) | Expr::Some(_)), &mut |e| {
                let d = format!("constructor payload replaced: `{}` now holds `{}`", print_expr(e, 0).chars().take(40).collect::<String>(), print_expr(&r, 0));
                if let Expr::Ok(x) | Expr::Err(x) | Expr::Some(x) = e {
                    **x = r.clone();
                }
                d
            });
        }
        _ => {
            // struct composition: add a source
            let new = names[vcommon::idx(pick2, names.len())].clone();
            done = on_expr(p, &|e| matches!(e, Expr::StructLit { .. }), &mut |e| {
                let Expr::StructLit { name, fields, sources } = e else { return String::new() };
                if pick3 % 2 == 0 && !fields.is_empty() {
                    fields.pop();
                }
                sources.push(new.clone());
                format!("struct literal {name}: source ...{new} added")
            });
        }
    }
    done
}

fn strategy(mutated: bool) -> impl Strategy<Value = Case> {
    prop::collection::vec(any::<u16>(), 0..2500).prop_map(move |mut data| {
        let mdata: Vec<u16> = if data.len() > 8 { data.split_off(data.len() - 8) } else { vec![] };
        let (mut prog, inputs, _) = build_case(data, cfg(), 2);
        let mutation = if mutated { mutate(&mut prog, &mut Src::new(mdata)).unwrap_or_default() } else { String::new() };
        let inputs = if mutation.is_empty() { inputs } else { conform_inputs(&prog, &inputs) };
        Case { prog, inputs, mutation }
    })
}

pub const SIG_RECALL_ARITY: &str = "recall with fewer arguments than the recall block declares is accepted";

/// `recall name(args)` sites whose argument count is below the block's parameter count.
fn short_recall(p: &Prog) -> bool {
    let mut q = p.clone();
    let sigs: Vec<(String, usize)> = p.commands.iter().flat_map(|c| c.recalls.iter().map(|r| (r.name.clone(), r.params.len()))).collect();
    let mut found = false;
    walk_nodes(&mut q, &mut |n| match n {
        Node::Expr(Expr::Recall(name, a)) => {
            if sigs.iter().any(|(n, k)| n == name && a.len() < *k) {
                found = true;
            }
        }
        Node::Stmts(v) => {
            for s in v.iter() {
                if let Stmt::Recall(name, a) = s {
                    if sigs.iter().any(|(n, k)| n == name && a.len() < *k) {
                        found = true;
                    }
                }
            }
        }
        _ => {}
    });
    found
}

pub const SIG_INCOMPLETE_STRUCT: &str = "struct literal omitting a declared field is accepted";

/// Struct type name of an expression, as far as it can be read off syntactically.
fn struct_name_of(p: &Prog, e: &Expr, lets: &[(String, Expr)], params: &[(String, Ty)], depth: u32) -> Option<String> {
    if depth > 8 {
        return None;
    }
    let of_ty = |t: &Ty| if let Ty::Struct(n) = t { Some(n.clone()) } else { None };
    match e {
        Expr::StructLit { name, .. } => Some(name.clone()),
        Expr::Substruct(_, n) | Expr::Cast(_, n) => Some(n.clone()),
        Expr::Var(v) => {
            if let Some((_, t)) = params.iter().find(|(n, _)| n == v) {
                return of_ty(t);
            }
            if let Some((_, g)) = p.globals.iter().find(|(n, _)| n == v) {
                return struct_name_of(p, g, lets, params, depth + 1);
            }
            lets.iter().filter(|(n, _)| n == v).find_map(|(_, x)| struct_name_of(p, x, lets, params, depth + 1))
        }
        Expr::Call(f, _) => p.func(f).and_then(|f| of_ty(&f.ret)),
        Expr::Dot(x, f) => {
            let s = struct_name_of(p, x, lets, params, depth + 1)?;
            p.struct_fields(&s)?.iter().find(|(n, _)| n == f).and_then(|(_, t)| of_ty(t))
        }
        Expr::If(_, t, f) => struct_name_of(p, &t.value, lets, params, depth + 1).or_else(|| struct_name_of(p, &f.value, lets, params, depth + 1)),
        Expr::Block(b) => struct_name_of(p, &b.value, lets, params, depth + 1),
        Expr::Match(_, arms) => arms.iter().find_map(|(_, x)| struct_name_of(p, x, lets, params, depth + 1)),
        Expr::Coalesce(_, b) => struct_name_of(p, b, lets, params, depth + 1),
        _ => None,
    }
}

/// A struct literal that, after resolving its `...source` compositions as far as the source
/// types can be read off the program, sets fewer fields than its definition has.
fn incomplete_struct_literal(p: &Prog) -> bool {
    let mut found = false;
    let mut scan = |body: &Vec<Stmt>, params: &[(String, Ty)]| {
        let mut b = body.clone();
        let mut lets: Vec<(String, Expr)> = Vec::new();
        let mut lits: Vec<Expr> = Vec::new();
        let mut visit = |n: Node<'_>| match n {
            Node::Stmts(v) => {
                for s in v.iter() {
                    if let Stmt::Let(n, e) = s {
                        lets.push((n.clone(), e.clone()));
                    }
                }
            }
            Node::Expr(e) => {
                if matches!(e, Expr::StructLit { .. }) {
                    lits.push(e.clone());
                }
            }
            _ => {}
        };
        crate::walk::walk_body(&mut b, &mut visit);
        for l in &lits {
            let Expr::StructLit { name, fields, sources } = l else { continue };
            let Some(def) = p.struct_fields(name) else { continue };
            let mut have: Vec<String> = fields.iter().map(|f| f.0.clone()).collect();
            let mut unknown = false;
            for s in sources {
                match struct_name_of(p, &Expr::Var(s.clone()), &lets, params, 0).and_then(|n| p.struct_fields(&n)) {
                    Some(fs) => have.extend(fs.into_iter().map(|f| f.0)),
                    None => unknown = true,
                }
            }
            if !unknown && def.iter().any(|(d, _)| !have.contains(d)) {
                found = true;
            }
        }
    };
    for f in &p.funcs {
        scan(&f.body, &f.params);
    }
    for f in &p.finish_fns {
        scan(&f.body, &f.params);
    }
    for c in &p.commands {
        let this = vec![("this".to_string(), Ty::Struct(c.name.clone()))];
        scan(&c.policy, &this);
        for r in &c.recalls {
            let mut ps = r.params.clone();
            ps.extend(this.clone());
            scan(&r.body, &ps);
        }
    }
    for a in &p.actions {
        scan(&a.body, &a.params);
    }
    found
}

pub const SIG_BINDING_ALT: &str = "match arm alternation containing a binding pattern is accepted";

fn binding_in_alternation(p: &Prog) -> bool {
    let mut q = p.clone();
    let mut found = false;
    walk_nodes(&mut q, &mut |n| {
        if let Node::Pat(Pat::Vals(vs)) = n {
            if vs.len() > 1 && vs.iter().any(|v| !matches!(v, PatVal::Lit(_))) {
                found = true;
            }
        }
    });
    found
}

fn check(c: &Case, info: &mut CaseInfo) -> CheckResult {
    check_prog(&c.prog, &c.inputs, &c.mutation, info)
}

fn check_join(c: &crate::c24j::JCase, info: &mut CaseInfo) -> CheckResult {
    for t in &c.tags {
        info.label(t.clone());
    }
    check_prog(&c.prog, &c.inputs, &c.mutation, info)
}

fn join_strategy(mutated: bool) -> impl Strategy<Value = crate::c24j::JCase> {
    (prop::collection::vec(any::<u16>(), 0..400), prop::collection::vec(any::<u16>(), 8)).prop_map(move |(data, mdata)| crate::c24j::build(data, mdata, mutated))
}

/// The oracle shared by all parts: compile; if accepted, run every entry point on its inputs.
fn check_prog(prog: &Prog, inputs: &Inputs, mutation: &str, info: &mut CaseInfo) -> CheckResult {
    struct C<'a> {
        prog: &'a Prog,
        inputs: &'a Inputs,
        mutation: &'a str,
    }
    let c = C { prog, inputs, mutation };
    let text = print_prog(&c.prog);
    let module = match compile_module(&text) {
        Ok(m) => m,
        Err(CompileOutcome::Panicked(m)) => fail!("front end panicked", "{m}\n{text}"),
        Err(_) => {
            info.label("rejected");
            return Ok(());
        }
    };
    info.label("accepted");
    if !c.mutation.is_empty() {
        info.nontrivial();
        let kind: String = c.mutation.split(|ch: char| ch == ':' || ch == '`').next().unwrap_or("").split_whitespace().take(3).filter(|w| !w.chars().any(|c| c.is_ascii_digit())).collect::<Vec<_>>().join(" ");
        info.label(format!("accepted: {kind}"));
    }
    let machine = machine_of(module);
    for r in exec_all(c.prog, c.inputs, &machine) {
        match &r.out.end {
            RunEnd::Exit(_) => {}
            RunEnd::Error(msg, kind) => match kind {
                ErrKind::Io | ErrKind::Ffi | ErrKind::StackOverflow | ErrKind::InvalidFact => info.label(format!("allowed_error_{kind:?}")),
                k => {
                    let sig = match k {
                        ErrKind::TypeMismatch => "accepted program ends in a VM type mismatch",
                        ErrKind::BadJump => "accepted program ends in an unresolved or invalid jump",
                        ErrKind::StackUnderflow => "accepted program ends in a stack underflow",
                        ErrKind::UndefinedVar => "accepted program ends in an undefined name",
                        ErrKind::RedefinedVar => "accepted program ends in a redefined name",
                        ErrKind::UnknownMember => "accepted program ends in an unknown struct member",
                        _ => "accepted program ends in another machine error",
                    };
                    let sig = if matches!(k, ErrKind::StackUnderflow | ErrKind::TypeMismatch | ErrKind::UnknownMember | ErrKind::UndefinedVar) && short_recall(c.prog) {
                        SIG_RECALL_ARITY
                    } else if matches!(k, ErrKind::TypeMismatch | ErrKind::UnknownMember | ErrKind::Other) && (incomplete_struct_literal(c.prog) || c.mutation.starts_with("struct literal")) {
                        SIG_INCOMPLETE_STRUCT
                    } else if matches!(k, ErrKind::TypeMismatch | ErrKind::UndefinedVar) && binding_in_alternation(c.prog) {
                        SIG_BINDING_ALT
                    } else {
                        sig
                    };
                    fail!(sig, "{}: {msg}\nmutation: {}\n{text}", r.what, c.mutation);
                }
            },
        }
    }
    Ok(())
}

pub fn run(ctx: &Ctx) -> ! {
    let mut rep = Report::new(ctx, "exploration");
    rep.assume("allowed ends: any ExitReason, I/O errors (incl. InvalidFact = update of a missing/mismatching fact), FFI errors, stack exhaustion; every other MachineError of an accepted program is a violation");
    let n = ctx.pick(20_000, 400_000);
    rep.explore(
        "well_typed",
        "all generated programs (functions, commands with recall blocks, finish functions, actions), every entry point executed on generated inputs and initial facts; the VM must not end in a machine error other than I/O / FFI / stack exhaustion",
        || strategy(false),
        n / 4,
        check,
    );
    rep.explore(
        "type_perturbed",
        "the same programs after one mutation (sub-expression replaced by one of another type or by todo()/return, call / recall argument dropped or added, let renamed onto an existing name, struct literal field dropped/added/duplicated/source added, pattern alternation mixing bindings and other variants, declared type changed, reference/field/cast target swapped, statements swapped/dropped/duplicated, fact literal keys/values dropped, definition items removed, constructors swapped, one component of a declared result/option type changed, a constructor arm removed from an option/result match without default, a constructor payload replaced); rejected programs are counted and dropped, accepted ones executed; non-trivial = mutated program accepted by the compiler",
        || strategy(true),
        n,
        check,
    );
    let dom = "small programs around ONE result/option value built by joining the branches of an if / match expression (selectors: int, enum, bool, option and result parameters; 2-4 branches, nested joins and nested constructor payloads; Ok-first and Err-first orders; join types result[A, E] and option[A] with A, E from int, bool, string, enum, two structs, option[..], result[..]) and handed to its consumer through a function return type, a parameter type, a struct field type, a let or directly as a match scrutinee; the consumer matches on it (Ok/Err/Some/None arms in either order, second arm sometimes `_`), binds the payloads and uses them in operations the VM type-checks (saturating arithmetic, comparison, if/!/&&, field access, nested match, `is None`, `or`); every function is run on the full product of the selector values the join reads (k in 0..4, 3 enum variants, both bools, None/Some, Ok and Err values), so every branch of the join is executed";
    rep.explore(
        "result_option_joins_well_typed",
        &format!("{dom}. Unperturbed programs; labels say how often the inputs drive the join to both constructors"),
        || join_strategy(false),
        n / 10,
        check_join,
    );
    rep.explore(
        "result_option_joins_perturbed",
        &format!("{dom}. One perturbation per program: declared join type changed (error type / ok type / result->option; the consumer follows the declaration), one constructor payload replaced by a literal of another type, one constructor swapped (Ok<->Err, Some->Ok, None->Err), one bound payload consumed at another type, one constructor arm removed from a consumer match without default (only where the scrutinee's static type contains no `never`), the pattern constructor swapped in a consumer match with a default arm; rejected programs are counted and dropped; non-trivial = perturbed program accepted by the compiler"),
        || join_strategy(true),
        n * 2 / 5,
        check_join,
    );
    rep.finish()
}

// ---------------------------------------------------------------------------------------------
// after a mutation of declarations the generated inputs must be made to fit the new types

fn default_val(p: &Prog, t: &Ty, depth: u32) -> Val {
    match t {
        Ty::Int => Val::Int(0),
        Ty::Bool => Val::Bool(false),
        Ty::Str => Val::Str(String::new()),
        Ty::Id => Val::Id(0),
        Ty::Enum(n) => {
            let v = p.enums.iter().find(|e| e.name == *n).and_then(|e| e.variants.first().cloned()).unwrap_or_default();
            Val::Enum(n.clone(), v)
        }
        Ty::Struct(n) => {
            let mut m = std::collections::BTreeMap::new();
            if depth < 6 {
                for (f, ft) in p.struct_fields(n).unwrap_or_default() {
                    m.insert(f, default_val(p, &ft, depth + 1));
                }
            }
            Val::Struct(n.clone(), m)
        }
        Ty::Opt(_) => Val::Opt(None),
        Ty::Res(a, _) => Val::Res(Ok(Box::new(default_val(p, a, depth + 1)))),
    }
}

fn conform(p: &Prog, t: &Ty, v: &Val) -> Val {
    match (t, v) {
        (Ty::Int, Val::Int(_)) | (Ty::Bool, Val::Bool(_)) | (Ty::Str, Val::Str(_)) | (Ty::Id, Val::Id(_)) => v.clone(),
        (Ty::Enum(n), Val::Enum(m, var)) if n == m && p.enums.iter().any(|e| e.name == *n && e.variants.contains(var)) => v.clone(),
        (Ty::Struct(n), Val::Struct(m, fields)) if n == m => {
            let mut out = std::collections::BTreeMap::new();
            for (f, ft) in p.struct_fields(n).unwrap_or_default() {
                let fv = fields.get(&f).map(|x| conform(p, &ft, x)).unwrap_or_else(|| default_val(p, &ft, 0));
                out.insert(f, fv);
            }
            Val::Struct(n.clone(), out)
        }
        (Ty::Opt(_), Val::Opt(None)) => v.clone(),
        (Ty::Opt(i), Val::Opt(Some(x))) => Val::Opt(Some(Box::new(conform(p, i, x)))),
        (Ty::Res(a, _), Val::Res(Ok(x))) => Val::Res(Ok(Box::new(conform(p, a, x)))),
        (Ty::Res(_, b), Val::Res(Err(x))) => Val::Res(Err(Box::new(conform(p, b, x)))),
        _ => default_val(p, t, 0),
    }
}

fn conform_list(p: &Prog, tys: &[(String, Ty)], vals: &[Val]) -> Vec<Val> {
    tys.iter().enumerate().map(|(i, (_, t))| vals.get(i).map(|v| conform(p, t, v)).unwrap_or_else(|| default_val(p, t, 0))).collect()
}

pub fn conform_inputs(p: &Prog, inp: &Inputs) -> Inputs {
    let mut out = inp.clone();
    for (fi, f) in p.funcs.iter().enumerate() {
        if let Some(sets) = out.fn_args.get_mut(fi) {
            for a in sets.iter_mut() {
                *a = conform_list(p, &f.params, a);
            }
        }
    }
    for (ci, c) in p.commands.iter().enumerate() {
        if let Some(sets) = out.cmd_fields.get_mut(ci) {
            for a in sets.iter_mut() {
                *a = conform_list(p, &c.fields, a);
            }
        }
    }
    for (ai, c) in p.actions.iter().enumerate() {
        if let Some(sets) = out.action_args.get_mut(ai) {
            for a in sets.iter_mut() {
                *a = conform_list(p, &c.params, a);
            }
        }
    }
    out.facts = out
        .facts
        .iter()
        .filter_map(|(n, k, v)| {
            let d = p.facts.iter().find(|f| f.name == *n)?;
            // fact keys must stay hashable: drop facts whose key types are no longer simple
            if d.keys.iter().any(|(_, t)| !matches!(t, Ty::Int | Ty::Bool | Ty::Str | Ty::Id | Ty::Enum(_))) {
                return None;
            }
            Some((n.clone(), conform_list(p, &d.keys, k), conform_list(p, &d.vals, v)))
        })
        .collect();
    out
}
