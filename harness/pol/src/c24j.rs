//! C24, focused generator: `result` / `option` values built by JOINING the branches of one `if` / `match`
//! expression (the type checker unifies the branch types), handed to a consumer through a declared type (function
//! return, parameter, struct field) or an inferred one (`let`, direct scrutinee), and consumed by matches that bind
//! the `Ok` / `Err` / `Some` payloads and use them in operations the VM type-checks at run time.
//!
//! Every program is well typed by construction; the perturbed variant differs in exactly one place that concerns
//! the join: the declared join type, the type of one constructor payload, one constructor, the type a bound payload
//! is used at, one removed constructor arm, or one pattern constructor. The oracle is the one of the other C24
//! parts: whatever the compiler accepts is executed and must not end in a machine error of the excluded kinds. The
//! inputs are the full product of the selector values the join reads, so every branch of the join (in particular
//! the `Err` / `None` ones) is executed.
use serde::{Deserialize, Serialize};

use crate::{
    ast::*,
    interp::{Interp, Outcome, Val},
    pgen::{Inputs, Src},
};

#[derive(Clone, Debug, Serialize, Deserialize)]
pub struct JCase {
    pub prog: Prog,
    pub inputs: Inputs,
    /// description of the single join-related perturbation that was applied ("" = none)
    pub mutation: String,
    /// facts about the case computed by the generator (shape, branch order, which constructors the inputs reach)
    pub tags: Vec<String>,
}

/// Types as the type checker infers them: `Never` stands for the payload type of a constructor that does not occur.
#[derive(Clone, Debug, PartialEq)]
enum ITy {
    Never,
    Base(Ty),
    Opt(Box<ITy>),
    Res(Box<ITy>, Box<ITy>),
}

impl ITy {
    fn of(t: &Ty) -> ITy {
        match t {
            Ty::Opt(a) => ITy::Opt(Box::new(ITy::of(a))),
            Ty::Res(a, b) => ITy::Res(Box::new(ITy::of(a)), Box::new(ITy::of(b))),
            t => ITy::Base(t.clone()),
        }
    }
    /// The join of two branch types by the language's rules; `None` = the branches do not unify.
    fn unify(a: &ITy, b: &ITy) -> Option<ITy> {
        match (a, b) {
            (x, ITy::Never) => Some(x.clone()),
            (ITy::Never, y) => Some(y.clone()),
            (ITy::Opt(x), ITy::Opt(y)) => Some(ITy::Opt(Box::new(ITy::unify(x, y)?))),
            (ITy::Res(a1, e1), ITy::Res(a2, e2)) => Some(ITy::Res(Box::new(ITy::unify(a1, a2)?), Box::new(ITy::unify(e1, e2)?))),
            (ITy::Base(x), ITy::Base(y)) if x == y => Some(a.clone()),
            _ => None,
        }
    }
    /// No `Never` anywhere: the static type says everything about the value.
    fn solid(&self) -> bool {
        match self {
            ITy::Never => false,
            ITy::Base(_) => true,
            ITy::Opt(a) => a.solid(),
            ITy::Res(a, b) => a.solid() && b.solid(),
        }
    }
    fn opt_inner(&self) -> ITy {
        if let ITy::Opt(a) = self { (**a).clone() } else { ITy::Never }
    }
    fn res_sides(&self) -> (ITy, ITy) {
        if let ITy::Res(a, b) = self { ((**a).clone(), (**b).clone()) } else { (ITy::Never, ITy::Never) }
    }
}

const K_NONE: u8 = 0;
const K_DECL: u8 = 1;
const K_PAY: u8 = 2;
const K_CTOR: u8 = 3;
const K_USE: u8 = 4;
const K_ARM: u8 = 5;
const K_PATCTOR: u8 = 6;
/// weights of the perturbation kinds 1..=6
const KIND_WEIGHTS: [u32; 6] = [3, 4, 1, 4, 4, 1];

fn e0() -> Ty {
    Ty::Enum("E0".into())
}
fn s0() -> Ty {
    Ty::Struct("S0".into())
}
fn s1() -> Ty {
    Ty::Struct("S1".into())
}
fn var(n: &str) -> Expr {
    Expr::Var(n.into())
}
fn blk(e: Expr) -> Box<Block> {
    Box::new(Block { stmts: vec![], value: e })
}

struct G {
    src: Src,
    msrc: Src,
    kind: u8,
    target: Option<usize>,
    seen: usize,
    applied: Option<String>,
    /// payload variables in scope: name, declared type
    scope: Vec<(String, Ty)>,
    uid: usize,
    /// selectors the join reads: k, sel, b, o, q
    used: [bool; 5],
    jdecl: Ty,
    tags: Vec<String>,
    /// > 0 while generating a constructor payload (nested constructors are not branches of the top join)
    pay_depth: u32,
    /// constructors of the top-level join's branches in source order (true = Ok/Some)
    top_ctors: Vec<bool>,
    join_depth: u32,
}

impl G {
    fn new(data: Vec<u16>, mdata: Vec<u16>, kind: u8, target: Option<usize>) -> G {
        G {
            src: Src::new(data),
            msrc: Src::new(mdata),
            kind,
            target,
            seen: 0,
            applied: None,
            scope: Vec::new(),
            uid: 0,
            used: [false; 5],
            jdecl: Ty::Int,
            tags: Vec::new(),
            pay_depth: 0,
            top_ctors: Vec::new(),
            join_depth: 0,
        }
    }

    /// A site where the perturbation of kind `k` could be applied; true exactly at the chosen one.
    fn site(&mut self, k: u8) -> bool {
        if self.kind != k || self.applied.is_some() {
            return false;
        }
        let hit = self.target == Some(self.seen);
        self.seen += 1;
        hit
    }

    fn fresh(&mut self, p: &str) -> String {
        self.uid += 1;
        format!("{p}{}", self.uid)
    }

    // ------------------------------------------------------------------ types and literals

    fn pty(&mut self, depth: u32) -> Ty {
        let deep = u32::from(depth > 0);
        match self.src.weighted(&[5, 4, 2, 1, 3, 1, 3 * deep, deep]) {
            0 => Ty::Int,
            1 => Ty::Bool,
            2 => Ty::Str,
            3 => e0(),
            4 => s0(),
            5 => s1(),
            6 => Ty::Opt(Box::new(self.pty(depth - 1))),
            _ => Ty::Res(Box::new(self.pty(depth - 1)), Box::new(self.pty(depth - 1))),
        }
    }

    /// A type different from `t`, biased towards types whose uses the VM checks (int, bool, struct, option, result).
    fn other_ty(&mut self, t: &Ty) -> Ty {
        let pool = [
            Ty::Int,
            Ty::Bool,
            s0(),
            Ty::Opt(Box::new(Ty::Int)),
            Ty::Int,
            Ty::Bool,
            Ty::Str,
            s1(),
            Ty::Res(Box::new(Ty::Int), Box::new(Ty::Bool)),
            e0(),
            Ty::Opt(Box::new(Ty::Bool)),
        ];
        let start = self.msrc.below(pool.len());
        for i in 0..pool.len() {
            let c = &pool[(start + i) % pool.len()];
            if c != t {
                return c.clone();
            }
        }
        Ty::Int
    }

    /// A literal of type `t`. `concrete`: avoid `None` / one-sided results so that the literal's own type is `t`.
    fn lit(&mut self, t: &Ty, concrete: bool) -> (Expr, ITy) {
        match t {
            Ty::Int => (Expr::Int([0i64, 1, 5, -3, 100, i64::MAX][self.src.below(6)]), ITy::of(t)),
            Ty::Bool => (Expr::Bool(self.src.chance(50)), ITy::of(t)),
            Ty::Str => (Expr::Str(["a", "zz", ""][self.src.below(3)].into()), ITy::of(t)),
            Ty::Id => (Expr::Todo, ITy::Never),
            Ty::Enum(n) => (Expr::EnumRef(n.clone(), format!("A{}", self.src.below(3))), ITy::of(t)),
            Ty::Struct(n) if n == "S0" => {
                let a = [0i64, 2, -1][self.src.below(3)];
                let b = self.src.chance(50);
                (Expr::StructLit { name: n.clone(), fields: vec![("fa".into(), Expr::Int(a)), ("fb".into(), Expr::Bool(b))], sources: vec![] }, ITy::of(t))
            }
            Ty::Struct(n) => {
                let s = ["a", "q"][self.src.below(2)];
                (Expr::StructLit { name: n.clone(), fields: vec![("fc".into(), Expr::Str(s.into()))], sources: vec![] }, ITy::of(t))
            }
            Ty::Opt(a) => {
                if concrete || self.src.chance(60) {
                    let (x, xi) = self.lit(a, concrete);
                    (Expr::Some(Box::new(x)), ITy::Opt(Box::new(xi)))
                } else {
                    (Expr::None, ITy::Opt(Box::new(ITy::Never)))
                }
            }
            Ty::Res(a, b) => {
                if self.src.chance(50) {
                    let (x, xi) = self.lit(a, concrete);
                    (Expr::Ok(Box::new(x)), ITy::Res(Box::new(xi), Box::new(ITy::Never)))
                } else {
                    let (x, xi) = self.lit(b, concrete);
                    (Expr::Err(Box::new(x)), ITy::Res(Box::new(ITy::Never), Box::new(xi)))
                }
            }
        }
    }

    // ------------------------------------------------------------------ producer: joins

    fn cond(&mut self) -> Expr {
        match self.src.below(7) {
            0 => {
                self.used[0] = true;
                Expr::Bin(BinOp::Eq, Box::new(var("k")), Box::new(Expr::Int(self.src.below(3) as i64)))
            }
            1 => {
                self.used[0] = true;
                Expr::Bin(BinOp::Gt, Box::new(var("k")), Box::new(Expr::Int(self.src.below(3) as i64)))
            }
            2 => {
                self.used[2] = true;
                var("b")
            }
            3 => {
                self.used[2] = true;
                Expr::Not(Box::new(var("b")))
            }
            4 => {
                self.used[1] = true;
                Expr::Bin(BinOp::Eq, Box::new(var("sel")), Box::new(Expr::EnumRef("E0".into(), format!("A{}", self.src.below(3)))))
            }
            5 => {
                self.used[3] = true;
                Expr::Is(Box::new(var("o")), false)
            }
            _ => {
                self.used[3] = true;
                Expr::Is(Box::new(var("o")), true)
            }
        }
    }

    /// A constructor payload of type `t`.
    fn pay(&mut self, t: &Ty, depth: u32) -> (Expr, ITy) {
        if self.site(K_PAY) {
            let t2 = self.other_ty(t);
            let (e, i) = self.lit(&t2, true);
            self.applied = Some(format!("join payload type changed: a payload of type {} became `{}` of type {}", print_ty(t), print_expr(&e, 0), print_ty(&t2)));
            return (e, i);
        }
        let vars: Vec<String> = self.scope.iter().filter(|(_, vt)| vt == t).map(|(n, _)| n.clone()).collect();
        let nested = matches!(t, Ty::Opt(_) | Ty::Res(..)) && depth > 0;
        match self.src.weighted(&[3, u32::from(!vars.is_empty()) * 4, u32::from(nested) * 4]) {
            0 => self.lit(t, false),
            1 => (var(&vars[self.src.below(vars.len())]), ITy::of(t)),
            _ => {
                self.pay_depth += 1;
                let r = self.branch(t, depth - 1);
                self.pay_depth -= 1;
                r
            }
        }
    }

    /// One branch of a join producing a value of the option/result type `t`.
    fn branch(&mut self, t: &Ty, depth: u32) -> (Expr, ITy) {
        let q_ok = *t == self.jdecl;
        match self.src.weighted(&[6, u32::from(depth > 0) * 2, u32::from(q_ok)]) {
            0 => self.ctor(t, depth),
            1 => self.join(t, depth - 1),
            _ => {
                self.used[4] = true;
                (var("q"), ITy::of(t))
            }
        }
    }

    fn ctor(&mut self, t: &Ty, depth: u32) -> (Expr, ITy) {
        let top = self.join_depth == 1 && self.pay_depth == 0;
        match t {
            Ty::Res(a, e) => {
                let is_ok = self.src.chance(50);
                let swapped = self.site(K_CTOR);
                let (p, pi) = self.pay(if is_ok { a } else { e }, depth);
                if swapped {
                    self.applied = Some(format!("join constructor changed: {} became {}", if is_ok { "Ok" } else { "Err" }, if is_ok { "Err" } else { "Ok" }));
                }
                if top {
                    self.top_ctors.push(is_ok ^ swapped);
                }
                if is_ok ^ swapped {
                    (Expr::Ok(Box::new(p)), ITy::Res(Box::new(pi), Box::new(ITy::Never)))
                } else {
                    (Expr::Err(Box::new(p)), ITy::Res(Box::new(ITy::Never), Box::new(pi)))
                }
            }
            Ty::Opt(a) => {
                let some = self.src.chance(55);
                let swapped = self.site(K_CTOR);
                if top {
                    self.top_ctors.push(some);
                }
                if some {
                    let (p, pi) = self.pay(a, depth);
                    if swapped {
                        self.applied = Some("join constructor changed: Some became Ok".into());
                        (Expr::Ok(Box::new(p)), ITy::Res(Box::new(pi), Box::new(ITy::Never)))
                    } else {
                        (Expr::Some(Box::new(p)), ITy::Opt(Box::new(pi)))
                    }
                } else if swapped {
                    self.applied = Some("join constructor changed: None became Err(0)".into());
                    (Expr::Err(Box::new(Expr::Int(0))), ITy::Res(Box::new(ITy::Never), Box::new(ITy::Base(Ty::Int))))
                } else {
                    (Expr::None, ITy::Opt(Box::new(ITy::Never)))
                }
            }
            t => self.lit(t, false),
        }
    }

    fn with_var<R>(&mut self, name: &str, t: Ty, f: impl FnOnce(&mut Self) -> R) -> R {
        self.scope.push((name.to_string(), t));
        let r = f(self);
        self.scope.pop();
        r
    }

    /// An `if` / `match` expression whose branches are joined into a value of the option/result type `t`.
    fn join(&mut self, t: &Ty, depth: u32) -> (Expr, ITy) {
        self.join_depth += 1;
        let q_match = *t == self.jdecl && matches!(t, Ty::Opt(_) | Ty::Res(..));
        let shape = self.src.weighted(&[5, 3, 3, 2, 3, u32::from(q_match) * 3]);
        let mut tys: Vec<ITy> = Vec::new();
        let e = match shape {
            0 => {
                let c = self.cond();
                let (a, ai) = self.branch(t, depth);
                let (b, bi) = self.branch(t, depth);
                tys.extend([ai, bi]);
                Expr::If(Box::new(c), blk(a), blk(b))
            }
            1 => {
                self.used[0] = true;
                let n = 1 + self.src.below(3);
                let mut arms = Vec::new();
                for i in 0..n {
                    let (x, xi) = self.branch(t, depth);
                    tys.push(xi);
                    arms.push((Pat::Vals(vec![PatVal::Lit(Expr::Int(i as i64))]), x));
                }
                let (x, xi) = self.branch(t, depth);
                tys.push(xi);
                arms.push((Pat::Default, x));
                Expr::Match(Box::new(var("k")), arms)
            }
            2 => {
                self.used[1] = true;
                let explicit = 1 + self.src.below(3);
                let mut arms = Vec::new();
                for i in 0..explicit {
                    let (x, xi) = self.branch(t, depth);
                    tys.push(xi);
                    arms.push((Pat::Vals(vec![PatVal::Lit(Expr::EnumRef("E0".into(), format!("A{i}")))]), x));
                }
                if explicit < 3 {
                    let (x, xi) = self.branch(t, depth);
                    tys.push(xi);
                    arms.push((Pat::Default, x));
                }
                Expr::Match(Box::new(var("sel")), arms)
            }
            3 => {
                self.used[2] = true;
                let first = self.src.chance(50);
                let (x, xi) = self.branch(t, depth);
                let (y, yi) = self.branch(t, depth);
                tys.extend([xi, yi]);
                Expr::Match(
                    Box::new(var("b")),
                    vec![(Pat::Vals(vec![PatVal::Lit(Expr::Bool(first))]), x), (Pat::Vals(vec![PatVal::Lit(Expr::Bool(!first))]), y)],
                )
            }
            4 => {
                self.used[3] = true;
                let x = self.fresh("x");
                let some_first = self.src.chance(50);
                let mut arms = Vec::new();
                for some in [some_first, !some_first] {
                    if some {
                        let (e, ei) = self.with_var(&x.clone(), Ty::Int, |g| g.branch(t, depth));
                        tys.push(ei);
                        arms.push((Pat::Vals(vec![PatVal::SomeBind(x.clone())]), e));
                    } else {
                        let (e, ei) = self.branch(t, depth);
                        tys.push(ei);
                        arms.push((Pat::Vals(vec![PatVal::Lit(Expr::None)]), e));
                    }
                }
                Expr::Match(Box::new(var("o")), arms)
            }
            _ => {
                // map-like: `match q { Ok(x) => .., Err(e) => .. }` / `match q { Some(x) => .., None => .. }`
                self.used[4] = true;
                let first = self.src.chance(50);
                let mut arms = Vec::new();
                match t.clone() {
                    Ty::Res(a, e) => {
                        for ok in [first, !first] {
                            let n = self.fresh("x");
                            let side = if ok { (*a).clone() } else { (*e).clone() };
                            let (x, xi) = self.with_var(&n.clone(), side, |g| g.branch(t, depth));
                            tys.push(xi);
                            arms.push((Pat::Vals(vec![if ok { PatVal::OkBind(n) } else { PatVal::ErrBind(n) }]), x));
                        }
                    }
                    Ty::Opt(a) => {
                        for some in [first, !first] {
                            if some {
                                let n = self.fresh("x");
                                let (x, xi) = self.with_var(&n.clone(), (*a).clone(), |g| g.branch(t, depth));
                                tys.push(xi);
                                arms.push((Pat::Vals(vec![PatVal::SomeBind(n)]), x));
                            } else {
                                let (x, xi) = self.branch(t, depth);
                                tys.push(xi);
                                arms.push((Pat::Vals(vec![PatVal::Lit(Expr::None)]), x));
                            }
                        }
                    }
                    _ => unreachable!("q_match"),
                }
                Expr::Match(Box::new(var("q")), arms)
            }
        };
        self.join_depth -= 1;
        // left-to-right join of the branch types; a mismatch (only possible in a perturbed program) keeps the left type
        let mut it = tys[0].clone();
        for x in &tys[1..] {
            it = ITy::unify(&it, x).unwrap_or(it);
        }
        (e, it)
    }

    // ------------------------------------------------------------------ consumer

    fn int_if(c: Expr, a: i64, b: i64) -> Expr {
        Expr::If(Box::new(c), blk(Expr::Int(a)), blk(Expr::Int(b)))
    }

    /// An int-valued expression that consumes `v`, a value of declared type `t` whose inferred type is `it`.
    fn consume(&mut self, v: Expr, t: &Ty, it: &ITy) -> Expr {
        if self.site(K_USE) {
            let t2 = self.other_ty(t);
            self.applied = Some(format!("join consumer type changed: `{}` of type {} used as {}", print_expr(&v, 0).chars().take(24).collect::<String>(), print_ty(t), print_ty(&t2)));
            let i2 = ITy::of(&t2);
            return self.consume(v, &t2, &i2);
        }
        match t {
            Ty::Int => match self.src.weighted(&[3, 3, 1, 2]) {
                0 => Expr::Arith(Arith::SatAdd, Box::new(v), Box::new(Expr::Int(1))),
                1 => Self::int_if(Expr::Bin(BinOp::Gt, Box::new(v), Box::new(Expr::Int(3))), 1, 2),
                2 => v,
                _ => Expr::Arith(Arith::SatSub, Box::new(Expr::Int(10)), Box::new(v)),
            },
            Ty::Bool => match self.src.below(3) {
                0 => Self::int_if(v, 1, 2),
                1 => Self::int_if(Expr::Not(Box::new(v)), 3, 4),
                _ => Self::int_if(Expr::Bin(BinOp::And, Box::new(v), Box::new(var("b"))), 5, 6),
            },
            Ty::Str => Self::int_if(Expr::Bin(BinOp::Eq, Box::new(v), Box::new(Expr::Str("a".into()))), 7, 8),
            Ty::Id => Expr::Int(0),
            Ty::Enum(n) => {
                if self.src.chance(50) {
                    Expr::Match(
                        Box::new(v),
                        vec![(Pat::Vals(vec![PatVal::Lit(Expr::EnumRef(n.clone(), "A0".into()))]), Expr::Int(9)), (Pat::Default, Expr::Int(10))],
                    )
                } else {
                    Self::int_if(Expr::Bin(BinOp::Eq, Box::new(v), Box::new(Expr::EnumRef(n.clone(), "A1".into()))), 11, 12)
                }
            }
            Ty::Struct(n) if n == "S0" => {
                if self.src.chance(50) {
                    let i = ITy::Base(Ty::Int);
                    self.consume(Expr::Dot(Box::new(v), "fa".into()), &Ty::Int, &i)
                } else {
                    let i = ITy::Base(Ty::Bool);
                    self.consume(Expr::Dot(Box::new(v), "fb".into()), &Ty::Bool, &i)
                }
            }
            Ty::Struct(n) if n == "S1" => {
                let i = ITy::Base(Ty::Str);
                self.consume(Expr::Dot(Box::new(v), "fc".into()), &Ty::Str, &i)
            }
            Ty::Struct(_) => Expr::Int(0),
            Ty::Opt(a) => {
                let simple = !matches!(**a, Ty::Opt(_) | Ty::Res(..));
                match self.src.weighted(&[6, 1, u32::from(simple) * 2]) {
                    0 => self.consume_match(v, t, it),
                    1 => Self::int_if(Expr::Is(Box::new(v), false), 13, 14),
                    _ => {
                        let (d, _) = self.lit(a, true);
                        let i = it.opt_inner();
                        self.consume(Expr::Coalesce(Box::new(v), Box::new(d)), a, &i)
                    }
                }
            }
            Ty::Res(..) => self.consume_match(v, t, it),
        }
    }

    /// `match v { Ok(x) => .., Err(e) => .. }` / `match v { Some(x) => .., None => .. }`, arms in either order, the
    /// second arm sometimes a default.
    fn consume_match(&mut self, v: Expr, t: &Ty, it: &ITy) -> Expr {
        let first = self.src.chance(50);
        let with_default = self.src.chance(25);
        let mut arms: Vec<(Pat, Expr)> = Vec::new();
        match t {
            Ty::Res(a, e) => {
                let (ai, ei) = it.res_sides();
                for ok in [first, !first] {
                    let n = self.fresh("y");
                    let (side, si) = if ok { ((**a).clone(), ai.clone()) } else { ((**e).clone(), ei.clone()) };
                    let body = self.with_var(&n.clone(), side.clone(), |g| g.consume(var(&n), &side, &si));
                    arms.push((Pat::Vals(vec![if ok { PatVal::OkBind(n) } else { PatVal::ErrBind(n) }]), body));
                }
            }
            Ty::Opt(a) => {
                let ai = it.opt_inner();
                for some in [first, !first] {
                    if some {
                        let n = self.fresh("y");
                        let side = (**a).clone();
                        let body = self.with_var(&n.clone(), side.clone(), |g| g.consume(var(&n), &side, &ai));
                        arms.push((Pat::Vals(vec![PatVal::SomeBind(n)]), body));
                    } else {
                        arms.push((Pat::Vals(vec![PatVal::Lit(Expr::None)]), Expr::Int(15 + self.src.below(3) as i64)));
                    }
                }
            }
            _ => unreachable!("consume_match on option/result only"),
        }
        if with_default {
            arms[1] = (Pat::Default, Expr::Int(20));
            // the remaining constructor arm now names the other constructor
            if matches!(&arms[0].0, Pat::Vals(v) if !matches!(v[0], PatVal::Lit(_))) && self.site(K_PATCTOR) {
                let Pat::Vals(vs) = &mut arms[0].0 else { unreachable!() };
                let (new, d) = match vs[0].clone() {
                    PatVal::OkBind(n) => (PatVal::ErrBind(n), "Ok(x) became Err(x)"),
                    PatVal::ErrBind(n) => (PatVal::OkBind(n), "Err(x) became Ok(x)"),
                    PatVal::SomeBind(n) => (PatVal::OkBind(n), "Some(x) became Ok(x)"),
                    p => (p, "unchanged"),
                };
                vs[0] = new;
                self.applied = Some(format!("join consumer pattern changed: {d} in a match with a default arm"));
            }
        } else if it.solid() && self.site(K_ARM) {
            // only where the scrutinee's static type is fully known: a match on a value whose type still contains
            // `never` (e.g. the literal `None`) is a separate, already reported weakness of the exhaustiveness test
            let i = self.msrc.below(2);
            let (p, _) = arms.remove(i);
            let Pat::Vals(vs) = &p else { unreachable!() };
            self.applied = Some(format!("join consumer arm removed: the `{}` arm of a match on {}", print_patval(&vs[0]), print_ty(t)));
        }
        Expr::Match(Box::new(v), arms)
    }

    // ------------------------------------------------------------------ whole program

    fn program(&mut self) -> (Prog, Inputs, Option<Func>) {
        // the join type: result[A, E] (A possibly an option, E any payload type) or option[A]
        let jprod = if self.src.chance(75) { Ty::Res(Box::new(self.pty(1)), Box::new(self.pty(1))) } else { Ty::Opt(Box::new(self.pty(1))) };
        self.jdecl = jprod.clone();
        if self.site(K_DECL) {
            self.jdecl = match &jprod {
                Ty::Res(a, e) => match self.msrc.weighted(&[4, 2, 1]) {
                    0 => Ty::Res(a.clone(), Box::new(self.other_ty(e))),
                    1 => Ty::Res(Box::new(self.other_ty(a)), e.clone()),
                    _ => Ty::Opt(a.clone()),
                },
                Ty::Opt(a) => Ty::Opt(Box::new(self.other_ty(a))),
                t => t.clone(),
            };
            self.applied = Some(format!("join declared type changed: a join producing {} is declared and consumed as {}", print_ty(&jprod), print_ty(&self.jdecl)));
        }
        let jdecl = self.jdecl.clone();
        let params: Vec<(String, Ty)> = vec![
            ("k".into(), Ty::Int),
            ("sel".into(), e0()),
            ("b".into(), Ty::Bool),
            ("o".into(), Ty::Opt(Box::new(Ty::Int))),
            ("q".into(), jdecl.clone()),
        ];
        let pass: Vec<Expr> = params.iter().map(|(n, _)| var(n)).collect();
        let shape = self.src.weighted(&[4, 4, 3, 3, 2]);
        let depth = 1 + self.src.below(2) as u32;
        let (join, jity) = self.join(&jprod, depth);
        let probe = Func { name: "jp".into(), params: params.clone(), ret: jdecl.clone(), body: vec![Stmt::Return(join.clone())] };
        let declared = ITy::of(&jdecl);
        let mut funcs: Vec<Func> = Vec::new();
        let mut structs = vec![
            StructDef { name: "S0".into(), items: vec![Item::Field("fa".into(), Ty::Int), Item::Field("fb".into(), Ty::Bool)] },
            StructDef { name: "S1".into(), items: vec![Item::Field("fc".into(), Ty::Str)] },
        ];
        // statement-level consumer: the top match as a statement whose arms return
        let cons_body = |g: &mut G, pre: Vec<Stmt>, v: Expr, it: &ITy| -> Vec<Stmt> {
            let mut body = pre;
            let e = g.consume(v, &jdecl, it);
            match e {
                Expr::Match(s, arms) if g.src.chance(35) => {
                    body.push(Stmt::Match(*s, arms.into_iter().map(|(p, x)| (p, vec![Stmt::Return(x)])).collect()));
                    body.push(Stmt::Return(Expr::Int(0)));
                }
                e => body.push(Stmt::Return(e)),
            }
            body
        };
        let shape_name;
        match shape {
            0 => {
                shape_name = "join returned from a function with a declared type";
                funcs.push(Func { name: "mk".into(), params: params.clone(), ret: jdecl.clone(), body: vec![Stmt::Return(join)] });
                let body = cons_body(self, vec![Stmt::Let("r".into(), Expr::Call("mk".into(), pass.clone()))], var("r"), &declared);
                funcs.push(Func { name: "cons".into(), params: params.clone(), ret: Ty::Int, body });
            }
            1 => {
                shape_name = "join bound by let (inferred type)";
                let body = cons_body(self, vec![Stmt::Let("r".into(), join)], var("r"), &jity);
                funcs.push(Func { name: "cons".into(), params: params.clone(), ret: Ty::Int, body });
            }
            2 => {
                shape_name = "join consumed directly (inferred type)";
                let body = cons_body(self, vec![], join, &jity);
                funcs.push(Func { name: "cons".into(), params: params.clone(), ret: Ty::Int, body });
            }
            3 => {
                shape_name = "join passed as an argument of a declared type";
                let body = cons_body(self, vec![], var("r"), &declared);
                let mut sp = params.clone();
                sp.insert(0, ("r".into(), jdecl.clone()));
                funcs.push(Func { name: "sink".into(), params: sp, ret: Ty::Int, body });
                let mut args = vec![join];
                args.extend(pass.clone());
                funcs.push(Func { name: "cons".into(), params: params.clone(), ret: Ty::Int, body: vec![Stmt::Return(Expr::Call("sink".into(), args))] });
            }
            _ => {
                shape_name = "join stored in a struct field of a declared type";
                structs.push(StructDef { name: "W".into(), items: vec![Item::Field("w".into(), jdecl.clone())] });
                let lit = Expr::StructLit { name: "W".into(), fields: vec![("w".into(), join)], sources: vec![] };
                let body = cons_body(self, vec![Stmt::Let("r".into(), lit)], Expr::Dot(Box::new(var("r")), "w".into()), &declared);
                funcs.push(Func { name: "cons".into(), params: params.clone(), ret: Ty::Int, body });
            }
        }
        self.tags.push(format!("shape: {shape_name}"));
        if !self.top_ctors.is_empty() {
            let first = self.top_ctors[0];
            let mixed = self.top_ctors.iter().any(|c| *c != first);
            self.tags.push(
                match (mixed, first) {
                    (false, true) => "top join: only Ok/Some branches",
                    (false, false) => "top join: only Err/None branches",
                    (true, true) => "top join: Ok/Some branch first, Err/None later",
                    (true, false) => "top join: Err/None branch first, Ok/Some later",
                }
                .to_string(),
            );
        }
        if matches!(&jprod, Ty::Res(a, _) if matches!(**a, Ty::Opt(_) | Ty::Res(..))) || matches!(&jprod, Ty::Opt(a) if matches!(**a, Ty::Opt(_) | Ty::Res(..))) {
            self.tags.push("nested join type (option/result inside the Ok/Some side)".into());
        }
        if matches!(&jprod, Ty::Res(_, e) if matches!(**e, Ty::Opt(_) | Ty::Res(..))) {
            self.tags.push("nested join type (option/result as the error type)".into());
        }
        let prog = Prog { enums: vec![EnumDef { name: "E0".into(), variants: vec!["A0".into(), "A1".into(), "A2".into()] }], structs, funcs, ..Prog::default() };

        // ---- inputs: the full product of the values of every selector the program reads
        let sel_vals: Vec<Vec<Val>> = vec![
            if self.used[0] { (0..4).map(Val::Int).collect() } else { vec![Val::Int(0)] },
            if self.used[1] { (0..3).map(|i| Val::Enum("E0".into(), format!("A{i}"))).collect() } else { vec![Val::Enum("E0".into(), "A0".into())] },
            // `b` is also read by some consumers
            vec![Val::Bool(true), Val::Bool(false)],
            if self.used[3] { vec![Val::Opt(None), Val::Opt(Some(Box::new(Val::Int(7))))] } else { vec![Val::Opt(None)] },
            if self.used[4] { vals_of(&jdecl, 3) } else { vals_of(&jdecl, 1) },
        ];
        let mut product: Vec<Vec<Val>> = vec![vec![]];
        for vs in &sel_vals {
            product = product.iter().flat_map(|p| vs.iter().map(move |v| p.iter().cloned().chain([v.clone()]).collect::<Vec<Val>>())).collect();
        }
        let fn_args: Vec<Vec<Vec<Val>>> = prog
            .funcs
            .iter()
            .map(|f| match f.name.as_str() {
                "sink" => vals_of(&jdecl, 4).into_iter().map(|r| [r].into_iter().chain(product[0].iter().cloned()).collect()).collect(),
                _ => product.clone(),
            })
            .collect();
        (prog, Inputs { fn_args, cmd_fields: vec![], action_args: vec![], facts: vec![] }, Some(probe))
    }
}

/// Up to `n` values of type `t`, the first ones covering every constructor of options and results.
fn vals_of(t: &Ty, n: usize) -> Vec<Val> {
    let mut v = match t {
        Ty::Int => vec![Val::Int(5), Val::Int(0), Val::Int(-2)],
        Ty::Bool => vec![Val::Bool(true), Val::Bool(false)],
        Ty::Str => vec![Val::Str("a".into()), Val::Str("zz".into())],
        Ty::Id => vec![Val::Id(1)],
        Ty::Enum(n) => vec![Val::Enum(n.clone(), "A1".into()), Val::Enum(n.clone(), "A0".into())],
        Ty::Struct(n) if n == "S0" => [(3, true), (0, false)]
            .iter()
            .map(|(a, b)| Val::Struct(n.clone(), [("fa".to_string(), Val::Int(*a)), ("fb".to_string(), Val::Bool(*b))].into_iter().collect()))
            .collect(),
        Ty::Struct(n) => vec![Val::Struct(n.clone(), [("fc".to_string(), Val::Str("a".into()))].into_iter().collect())],
        Ty::Opt(a) => {
            let mut v = vec![Val::Opt(None)];
            v.extend(vals_of(a, 2).into_iter().map(|x| Val::Opt(Some(Box::new(x)))));
            v.swap(0, 1);
            v
        }
        Ty::Res(a, e) => {
            let oks = vals_of(a, 2);
            let errs = vals_of(e, 2);
            let mut v = Vec::new();
            for i in 0..2 {
                if let Some(x) = oks.get(i) {
                    v.push(Val::Res(Ok(Box::new(x.clone()))));
                }
                if let Some(x) = errs.get(i) {
                    v.push(Val::Res(Err(Box::new(x.clone()))));
                }
            }
            v
        }
    };
    v.truncate(n.max(1));
    v
}

/// Builds one case from the choice stream. `mdata`: choices of the perturbation (kind, site, details).
pub fn build(data: Vec<u16>, mdata: Vec<u16>, mutated: bool) -> JCase {
    let mut ms = Src::new(mdata.clone());
    let kind = if mutated { 1 + ms.weighted(&KIND_WEIGHTS) as u8 } else { K_NONE };
    let pick = ms.next();
    let rest: Vec<u16> = mdata.iter().skip(2).copied().collect();
    // first pass: count the sites of the chosen kind
    let mut g = G::new(data.clone(), rest.clone(), kind, None);
    let _ = g.program();
    let target = if kind != K_NONE && g.seen > 0 { Some(vcommon::idx(pick, g.seen)) } else { None };
    let mut g = G::new(data, rest, kind, target);
    let (prog, inputs, probe) = g.program();
    let mut tags = std::mem::take(&mut g.tags);
    // which constructors does the join yield on the inputs (reference interpreter on the join alone)
    if let Some(probe) = probe {
        let pp = Prog { enums: prog.enums.clone(), structs: prog.structs.clone(), funcs: vec![probe], ..Prog::default() };
        if let Ok(mut it) = Interp::new(&pp) {
            let (mut pos, mut neg) = (0, 0);
            for args in inputs.fn_args.last().map(|v| v.as_slice()).unwrap_or(&[]) {
                match it.run_function("jp", args) {
                    Outcome::Value(Val::Res(Ok(_)) | Val::Opt(Some(_))) => pos += 1,
                    Outcome::Value(Val::Res(Err(_)) | Val::Opt(None)) => neg += 1,
                    _ => {}
                }
            }
            tags.push(
                match (pos > 0, neg > 0) {
                    (true, true) => "inputs: the join yields both constructors",
                    (true, false) => "inputs: the join yields Ok/Some only",
                    (false, true) => "inputs: the join yields Err/None only",
                    _ => "inputs: join not evaluated by the model",
                }
                .to_string(),
            );
        }
    }
    JCase { prog, inputs, mutation: g.applied.unwrap_or_default(), tags }
}
