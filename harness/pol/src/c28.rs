//! C28: compiling is deterministic; modules survive their serialized forms.
use std::fmt::Write as _;

use aranya_crypto::policy::CmdId;
use aranya_policy_module::Module;
use aranya_policy_vm::{CommandContext, Machine, OpenContext, SealContext, Struct, Value};
use proptest::prelude::*;
use serde::{Deserialize, Serialize};
use vcommon::{CaseInfo, CheckResult, Ctx, Report, ensure, fail};

use crate::{
    c22::{Case, strategy},
    exec::exec_all,
    pgen::{Cfg, Src},
    vmrun::*,
};

/// Every text is compiled several times: `HashMap`s get fresh
/// hasher keys per instance and per thread, so an emission order that depends on one coincides
/// between two compilations with probability 1/(number of orders); several repeats, some of them
/// in a fresh thread, make a coincidence unlikely.
///
/// Compiles `text` `same` more times in this thread and `fresh` times in a fresh thread and
/// requires every module to equal `m1`.
fn recompile_equal(text: &str, m1: &Module, same: usize, fresh: usize) -> CheckResult {
    for i in 1..=same {
        match compile_module(text) {
            Ok(m) => ensure!(m == *m1, "two compilations of the same text differ", "compilation #{i} (same thread)\n{text}"),
            Err(e) => fail!("second compilation of the same text failed", "#{i}: {e:?}\n{text}"),
        }
    }
    if fresh == 0 {
        return Ok(());
    }
    let others: Vec<Result<Module, CompileOutcome>> = std::thread::scope(|sc| {
        sc.spawn(|| (0..fresh).map(|_| compile_module(text)).collect())
            .join()
            .unwrap_or_else(|_| vec![Err(CompileOutcome::Panicked("compiler thread panicked".into()))])
    });
    for (i, r) in others.into_iter().enumerate() {
        match r {
            Ok(m) => ensure!(m == *m1, "two compilations of the same text differ", "compilation #{i} (fresh thread)\n{text}"),
            Err(e) => fail!("second compilation of the same text failed", "fresh thread #{i}: {e:?}\n{text}"),
        }
    }
    Ok(())
}

pub fn cfg(depth: u32) -> Cfg {
    Cfg { depth, poison: false, commands: true, never: true, misplace: 0, max_funcs: 3, empty_structs: false }
}

fn via_cbor(m: &Module) -> Result<Module, String> {
    let mut buf = Vec::new();
    ciborium::into_writer(m, &mut buf).map_err(|e| format!("encode: {e}"))?;
    ciborium::from_reader(&buf[..]).map_err(|e| format!("decode: {e}"))
}

fn via_rkyv(m: &Module) -> Result<Module, String> {
    let bytes = rkyv::to_bytes::<rkyv::rancor::Error>(m).map_err(|e| format!("encode: {e}"))?;
    rkyv::from_bytes::<Module, rkyv::rancor::Error>(&bytes).map_err(|e| format!("decode: {e}"))
}

fn via_json(m: &Module) -> Result<Module, String> {
    let s = serde_json::to_string(m).map_err(|e| format!("encode: {e}"))?;
    serde_json::from_str(&s).map_err(|e| format!("decode: {e}"))
}

fn via_postcard(m: &Module) -> Result<Module, String> {
    let b = postcard::to_stdvec(m).map_err(|e| format!("encode: {e}"))?;
    postcard::from_bytes(&b).map_err(|e| format!("decode: {e}"))
}

fn check(c: &Case, info: &mut CaseInfo) -> CheckResult {
    let text = crate::c22::text_of(c);
    let m1 = match compile_module(&text) {
        Ok(m) => m,
        Err(CompileOutcome::Panicked(m)) => fail!("front end panicked", "{m}\n{text}"),
        Err(_) => {
            info.label("rejected_by_compiler");
            return Ok(());
        }
    };
    // 4 compilations in total, a 5th and 6th in a fresh thread for every 16th text (thread start-up dominates otherwise)
    let fresh = if text.len() % 16 == 0 { 2 } else { 0 };
    recompile_equal(&text, &m1, 3, fresh)?;
    if fresh > 0 {
        info.label("also_compiled_in_fresh_thread");
    }
    let machine = Machine::from_module(m1.clone()).map_err(|e| vcommon::Failure::new("from_module failed", e.to_string()))?;
    let base = exec_all(&c.prog, &c.inputs, &machine);
    // re-running on the same machine gives the same results
    let again = exec_all(&c.prog, &c.inputs, &machine);
    ensure!(base == again, "re-execution on the same machine differs", "{text}");
    let forms: [(&str, fn(&Module) -> Result<Module, String>, bool); 4] = [
        ("cbor", via_cbor, true),
        ("rkyv", via_rkyv, true),
        // serde formats the code base does not use for modules: tried, counted when they cannot
        // represent a module at all (map keys / internally tagged enum), checked when they can
        ("json", via_json, false),
        ("postcard", via_postcard, false),
    ];
    for (name, f, required) in forms {
        let back = match f(&m1) {
            Ok(b) => b,
            Err(e) if !required => {
                info.label(format!("{name}_cannot_represent_module"));
                let _ = e;
                continue;
            }
            Err(e) => fail!("module does not survive a serialized form", "{name}: {e}\n{text}"),
        };
        info.label(format!("{name}_roundtrip"));
        ensure!(back == m1, "decoded module differs", "{name}\n{text}");
        let mach2 = Machine::from_module(back).map_err(|e| vcommon::Failure::new("from_module failed", e.to_string()))?;
        ensure!(mach2 == machine, "machine from decoded module differs", "{name}\n{text}");
        let runs = exec_all(&c.prog, &c.inputs, &mach2);
        if runs != base {
            let i = runs.iter().zip(&base).position(|(a, b)| a != b).unwrap_or(0);
            fail!("execution on the decoded module differs", "{name}: {:?} vs {:?}\n{text}", runs.get(i), base.get(i));
        }
    }
    let n_cmd = base.iter().filter(|r| r.what.starts_with("command")).count();
    let n_act = base.iter().filter(|r| r.what.starts_with("action")).count();
    for r in &base {
        let kind = r.what.split(' ').next().unwrap_or("");
        match &r.out.end {
            RunEnd::Exit(x) => info.label(format!("{kind}_exit_{x:?}")),
            RunEnd::Error(e, _) => info.label(format!("{kind}_error_{}", e.split(':').next().unwrap_or(""))),
        }
    }
    if n_cmd > 0 && n_act > 0 && m1_has_code(&m1) {
        info.nontrivial();
    }
    Ok(())
}

fn m1_has_code(m: &Module) -> bool {
    let aranya_policy_module::ModuleData::V0(v) = &m.data;
    v.progmem.len() > 20
}

// ---------------------------------------------------------------------------------------------
// wide policies: many definitions of every kind, struct literals composed from several sources
// in every kind of body. Text is generated directly (the AST of ast.rs has no seal/open bodies,
// attributes or finish-function composition).

#[derive(Clone, Debug, PartialEq, Serialize, Deserialize)]
pub enum WVal {
    Int(i64),
    Bool(bool),
    Str(String),
    Enum(String, i64),
    OptInt(Option<i64>),
}

#[derive(Clone, Debug, Serialize, Deserialize)]
pub enum WCall {
    Function { name: String, n: i64 },
    Action { name: String, n: i64 },
    Policy { cmd: String, this: Vec<(String, WVal)> },
    Seal { cmd: String, this: Vec<(String, WVal)> },
    Open { cmd: String, this: Vec<(String, WVal)> },
}

#[derive(Clone, Debug, Serialize, Deserialize)]
pub struct WideCase {
    pub text: String,
    pub calls: Vec<WCall>,
    /// one entry "<site kind>/<number of contributing sources>" per struct literal with sources
    pub comps: Vec<String>,
    /// number of top-level definitions
    pub defs: u32,
}

#[derive(Clone, PartialEq)]
enum FT {
    Int,
    Bool,
    Str,
    Enum(usize),
    OptInt,
}

#[derive(Clone)]
struct Comp {
    /// all fields of the target, in definition order (indexes into the pool)
    fields: Vec<usize>,
    /// fields given explicitly in the literal
    explicit: Vec<usize>,
    /// source piece structs, in the order they are written in the literal
    srcs: Vec<usize>,
}

struct WGen {
    s: Src,
    enums: Vec<usize>,
    pool: Vec<(String, FT)>,
    /// piece structs `P<i>`: field lists in definition order
    pieces: Vec<Vec<usize>>,
    comps: Vec<Comp>,
    var: usize,
    sites: Vec<String>,
}

impl WGen {
    fn shuffle<T>(&mut self, v: &mut [T]) {
        for i in (1..v.len()).rev() {
            let j = self.s.below(i + 1);
            v.swap(i, j);
        }
    }

    fn ty(&self, t: &FT) -> String {
        match t {
            FT::Int => "int".into(),
            FT::Bool => "bool".into(),
            FT::Str => "string".into(),
            FT::Enum(i) => format!("enum En{i}"),
            FT::OptInt => "option[int]".into(),
        }
    }

    /// A value expression of type `t`; `n` is an int expression in scope. `plain`: only literals
    /// and `n` itself (finish contexts).
    fn val(&mut self, t: &FT, n: &str, plain: bool) -> String {
        match t {
            FT::Int => match self.s.below(if plain { 3 } else { 4 }) {
                0 => n.to_string(),
                1 => ["0", "1", "-3", "42", "9223372036854775807"][self.s.below(5)].to_string(),
                2 => format!("{}", self.s.below(1000)),
                _ => format!("saturating_add({n}, {})", self.s.below(9)),
            },
            FT::Bool => if self.s.chance(50) { "true" } else { "false" }.to_string(),
            FT::Str => format!("\"s{}\"", self.s.below(7)),
            FT::Enum(i) => {
                let nv = self.enums[*i];
                format!("En{i}::V{}", self.s.below(nv))
            }
            FT::OptInt => {
                if self.s.chance(40) {
                    "None".into()
                } else {
                    format!("Some({n})")
                }
            }
        }
    }

    fn make_comp(&mut self) -> Comp {
        let mut idx: Vec<usize> = (0..self.pool.len()).collect();
        self.shuffle(&mut idx);
        let m = 3 + self.s.below(8);
        idx.truncate(m);
        let ns = self.s.weighted(&[1, 2, 6, 5, 3]).min(m);
        let mut fields = idx.clone();
        self.shuffle(&mut fields);
        if ns == 0 {
            return Comp { fields, explicit: idx, srcs: vec![] };
        }
        let e = self.s.below(m - ns + 1);
        let explicit: Vec<usize> = idx[..e].to_vec();
        let rest: Vec<usize> = idx[e..].to_vec();
        let mut sizes = vec![1usize; ns];
        for _ in 0..rest.len() - ns {
            let k = self.s.below(ns);
            sizes[k] += 1;
        }
        let mut srcs = Vec::new();
        let mut at = 0;
        for sz in sizes {
            let mut pf: Vec<usize> = rest[at..at + sz].to_vec();
            at += sz;
            if e > 0 && self.s.chance(25) {
                // a source may also carry a field that is given explicitly (the explicit one wins)
                pf.push(explicit[self.s.below(e)]);
            }
            self.shuffle(&mut pf);
            let pi = match self.pieces.iter().position(|p| *p == pf) {
                Some(i) => i,
                None => {
                    self.pieces.push(pf);
                    self.pieces.len() - 1
                }
            };
            srcs.push(pi);
        }
        self.shuffle(&mut srcs);
        Comp { fields, explicit, srcs }
    }

    /// `let` statements that build one variable per source of `c`; returns (text, variable names).
    fn piece_lets(&mut self, c: &Comp, n: &str, ind: &str) -> (String, Vec<String>) {
        let mut o = String::new();
        let mut names = Vec::new();
        // the variables are created in an order unrelated to their order in the literal
        let mut order: Vec<usize> = (0..c.srcs.len()).collect();
        self.shuffle(&mut order);
        let mut by_pos = vec![String::new(); c.srcs.len()];
        for pos in order {
            let pi = c.srcs[pos];
            let v = format!("p{}", self.var);
            self.var += 1;
            let fs: Vec<String> = self.pieces[pi]
                .clone()
                .into_iter()
                .map(|f| {
                    let (name, t) = self.pool[f].clone();
                    format!("{name}: {}", self.val(&t, n, false))
                })
                .collect();
            let _ = writeln!(o, "{ind}let {v} = P{pi} {{ {} }}", fs.join(", "));
            by_pos[pos] = v;
        }
        names.extend(by_pos);
        (o, names)
    }

    /// The literal `target { explicit..., ...srcs }`.
    fn lit(&mut self, target: &str, c: &Comp, n: &str, plain: bool, src_names: &[String], site: &str) -> String {
        let mut parts: Vec<String> = c
            .explicit
            .clone()
            .into_iter()
            .map(|f| {
                let (name, t) = self.pool[f].clone();
                format!("{name}: {}", self.val(&t, n, plain))
            })
            .collect();
        parts.extend(src_names.iter().map(|v| format!("...{v}")));
        if !c.srcs.is_empty() {
            self.sites.push(format!("{site}/{}", c.srcs.len()));
        }
        format!("{target} {{ {} }}", parts.join(", "))
    }

    fn pick_comp(&mut self) -> usize {
        let n = self.comps.len();
        self.s.below(n)
    }

    fn fields_decl(&self, fs: &[usize]) -> String {
        fs.iter().map(|f| format!("{} {}", self.pool[*f].0, self.ty(&self.pool[*f].1))).collect::<Vec<_>>().join(", ")
    }

    fn this_vals(&mut self, fs: &[usize], int: i64) -> Vec<(String, WVal)> {
        fs.iter()
            .map(|f| {
                let (name, t) = self.pool[*f].clone();
                let v = match t {
                    FT::Int => WVal::Int(int),
                    FT::Bool => WVal::Bool(self.s.chance(50)),
                    FT::Str => WVal::Str(format!("t{}", self.s.below(3))),
                    FT::Enum(i) => WVal::Enum(format!("En{i}"), self.s.below(self.enums[i]) as i64),
                    FT::OptInt => WVal::OptInt(if self.s.chance(50) { Some(int) } else { None }),
                };
                (name, v)
            })
            .collect()
    }
}

pub fn build_wide(data: Vec<u16>) -> WideCase {
    let mut g = WGen { s: Src::new(data), enums: vec![], pool: vec![], pieces: vec![], comps: vec![], var: 0, sites: vec![] };
    let n_enum = 2 + g.s.below(6);
    for _ in 0..n_enum {
        let nv = 2 + g.s.below(4);
        g.enums.push(nv);
    }
    for i in 0..14u8 {
        let t = match g.s.weighted(&[5, 3, 2, 2, 1]) {
            0 => FT::Int,
            1 => FT::Bool,
            2 => FT::Str,
            3 => FT::Enum(g.s.below(n_enum)),
            _ => FT::OptInt,
        };
        g.pool.push((format!("f{}", (b'a' + i) as char), t));
    }
    let n_comp = 4 + g.s.below(9);
    for _ in 0..n_comp {
        let c = g.make_comp();
        g.comps.push(c);
    }
    let n_cmd = 1 + g.s.below(3).min(n_comp - 1);
    let n_fact = 1 + g.s.below(6);
    let n_fill = g.s.below(10);
    let n_glob = g.s.below(8);
    let n_fun = 2 + g.s.below(8);
    let n_ff = g.s.below(4);

    let mut o = String::new();
    let mut defs = 0u32;
    for (i, nv) in g.enums.iter().enumerate() {
        let vs: Vec<String> = (0..*nv).map(|v| format!("V{v}")).collect();
        let _ = writeln!(o, "enum En{i} {{ {} }}", vs.join(", "));
        defs += 1;
    }
    for (i, p) in g.pieces.iter().enumerate() {
        let _ = writeln!(o, "struct P{i} {{ {} }}", g.fields_decl(p));
        defs += 1;
    }
    for (i, c) in g.comps.iter().enumerate() {
        let _ = writeln!(o, "struct W{i} {{ {} }}", g.fields_decl(&c.fields));
        let _ = writeln!(o, "effect Ef{i} {{ {} }}", g.fields_decl(&c.fields));
        defs += 2;
    }
    for i in 0..n_fill {
        let k = 1 + g.s.below(5);
        let start = g.s.below(14);
        let fs: Vec<usize> = (0..k).map(|j| (start + j) % 14).collect();
        if g.s.chance(50) && i > 0 {
            let _ = writeln!(o, "struct X{i} {{ +X{}, x{i} int }}", 0);
        } else if i == 0 {
            let _ = writeln!(o, "struct X0 {{ y0 int }}");
        } else {
            let _ = writeln!(o, "struct X{i} {{ {} }}", g.fields_decl(&fs));
        }
        defs += 1;
    }
    // which facts have a second key
    let mut fact_two: Vec<bool> = Vec::new();
    for i in 0..n_fact {
        let two = g.s.chance(40);
        let _ = writeln!(o, "fact Fc{i}[k int{}]=>{{v int, w bool}}", if two { ", j string" } else { "" });
        fact_two.push(two);
        defs += 1;
    }
    let n_piece = g.pieces.len();
    for i in 0..n_glob {
        let line = match g.s.below(4) {
            0 => format!("let G{i} = {}", g.s.below(100)),
            1 => format!("let G{i} = \"g{}\"", g.s.below(9)),
            2 => format!("let G{i} = En0::V{}", g.s.below(g.enums[0])),
            _ if n_piece > 0 => {
                let pi = g.s.below(n_piece);
                let fs: Vec<String> = g.pieces[pi]
                    .clone()
                    .into_iter()
                    .map(|f| {
                        let (name, t) = g.pool[f].clone();
                        format!("{name}: {}", g.val(&t, "7", true))
                    })
                    .collect();
                format!("let G{i} = P{pi} {{ {} }}", fs.join(", "))
            }
            _ => format!("let G{i} = true"),
        };
        let _ = writeln!(o, "{line}");
        defs += 1;
    }
    o.push('\n');

    let mut calls = Vec::new();
    for i in 0..n_fun {
        let ci = g.pick_comp();
        let c = g.comps[ci].clone();
        let _ = writeln!(o, "function f{i}(n int) struct W{ci} {{");
        if g.s.chance(40) {
            let cj = g.pick_comp();
            let c2 = g.comps[cj].clone();
            let (lets, names) = g.piece_lets(&c2, "n", "    ");
            o.push_str(&lets);
            let target = if g.s.chance(50) { format!("W{cj}") } else { format!("Ef{cj}") };
            let l = g.lit(&target, &c2, "n", false, &names, "function");
            let _ = writeln!(o, "    let x{} = {l}", g.var);
            g.var += 1;
        }
        let (lets, names) = g.piece_lets(&c, "n", "    ");
        o.push_str(&lets);
        let l = g.lit(&format!("W{ci}"), &c, "n", false, &names, "function");
        let _ = writeln!(o, "    return {l}\n}}\n");
        defs += 1;
        for n in [0i64, -5] {
            calls.push(WCall::Function { name: format!("f{i}"), n });
        }
    }

    // finish functions: parameters are the sources of the composition they emit
    let mut ffs: Vec<(usize, usize)> = Vec::new(); // (index, comp)
    for i in 0..n_ff {
        let ci = g.pick_comp();
        let c = g.comps[ci].clone();
        let names: Vec<String> = (0..c.srcs.len()).map(|k| format!("q{k}")).collect();
        let params: Vec<String> = c.srcs.iter().zip(&names).map(|(pi, q)| format!("{q} struct P{pi}")).collect();
        let _ = writeln!(o, "finish function ff{i}({}) {{", params.join(", "));
        let l = g.lit(&format!("Ef{ci}"), &c, "3", true, &names, "finish_function");
        let _ = writeln!(o, "    emit {l}");
        let fi = g.s.below(n_fact);
        let _ = writeln!(o, "    create Fc{fi}[k: {}{}]=>{{v: 1, w: true}}", 100 + i, if fact_two[fi] { ", j: \"ff\"" } else { "" });
        let _ = writeln!(o, "}}\n");
        ffs.push((i, ci));
        defs += 1;
    }

    for j in 0..n_cmd {
        let own = g.comps[j].clone();
        let n_expr = own.fields.iter().find(|f| g.pool[**f].1 == FT::Int).map(|f| format!("this.{}", g.pool[*f].0)).unwrap_or_else(|| "7".into());
        let _ = writeln!(o, "command C{j} {{");
        let na = g.s.below(4);
        if na > 0 {
            let attrs: Vec<String> = (0..na)
                .map(|a| match g.s.below(3) {
                    0 => format!("a{a}: {}", g.s.below(50)),
                    1 => format!("a{a}: \"v{}\"", g.s.below(5)),
                    _ => format!("a{a}: En0::V{}", g.s.below(g.enums[0])),
                })
                .collect();
            let _ = writeln!(o, "    attributes {{ {} }}", attrs.join(", "));
        }
        let _ = writeln!(o, "    fields {{ {} }}", g.fields_decl(&own.fields));
        for blk in ["seal", "open"] {
            let _ = writeln!(o, "    {blk} {{");
            // `this` is not in scope in `open`
            let n = if blk == "seal" { n_expr.as_str() } else { "11" };
            let (ci, target) = if g.s.chance(50) { (j, format!("C{j}")) } else { let ci = g.pick_comp(); (ci, format!("W{ci}")) };
            let c = g.comps[ci].clone();
            let (lets, names) = g.piece_lets(&c, n, "        ");
            o.push_str(&lets);
            let l = g.lit(&target, &c, n, false, &names, blk);
            let _ = writeln!(o, "        let x{} = {l}", g.var);
            g.var += 1;
            let _ = writeln!(o, "        return todo()\n    }}");
        }
        let n_recall = g.s.below(3);
        // policy
        let _ = writeln!(o, "    policy {{");
        let k = 1 + g.s.below(3);
        for _ in 0..k {
            let ci = g.pick_comp();
            let c = g.comps[ci].clone();
            let (lets, names) = g.piece_lets(&c, &n_expr, "        ");
            o.push_str(&lets);
            let target = if g.s.chance(50) { format!("W{ci}") } else { format!("Ef{ci}") };
            let l = g.lit(&target, &c, &n_expr, false, &names, "policy");
            let _ = writeln!(o, "        let x{} = {l}", g.var);
            g.var += 1;
        }
        // sources for the finish block are built here, outside of it
        let ci = g.pick_comp();
        let c = g.comps[ci].clone();
        let (lets, names) = g.piece_lets(&c, &n_expr, "        ");
        o.push_str(&lets);
        let ff_use = if ffs.is_empty() || g.s.chance(30) { None } else { Some(ffs[g.s.below(ffs.len())]) };
        let mut ff_args = Vec::new();
        if let Some((_, fc)) = ff_use {
            let c2 = g.comps[fc].clone();
            let (lets, names2) = g.piece_lets(&c2, &n_expr, "        ");
            o.push_str(&lets);
            ff_args = names2;
        }
        if n_recall > 0 {
            let _ = writeln!(o, "        check {n_expr} >= 0 else recall r{}()", g.s.below(n_recall));
        }
        let _ = writeln!(o, "        finish {{");
        let l = g.lit(&format!("Ef{ci}"), &c, "5", true, &names, "finish_block");
        let _ = writeln!(o, "            emit {l}");
        if let Some((fi, _)) = ff_use {
            let _ = writeln!(o, "            ff{fi}({})", ff_args.join(", "));
        }
        let fi = g.s.below(n_fact);
        let _ = writeln!(o, "            create Fc{fi}[k: {}{}]=>{{v: 2, w: false}}", j, if fact_two[fi] { ", j: \"p\"" } else { "" });
        let _ = writeln!(o, "        }}\n    }}");
        for r in 0..n_recall {
            let _ = writeln!(o, "    recall r{r}() {{");
            let ci = g.pick_comp();
            let c = g.comps[ci].clone();
            let (lets, names) = g.piece_lets(&c, &n_expr, "        ");
            o.push_str(&lets);
            if g.s.chance(50) {
                let l = g.lit(&format!("W{ci}"), &c, &n_expr, false, &names, "recall");
                let _ = writeln!(o, "        let x{} = {l}", g.var);
                g.var += 1;
            }
            let l = g.lit(&format!("Ef{ci}"), &c, "6", true, &names, "recall_finish_block");
            let _ = writeln!(o, "        finish {{\n            emit {l}\n        }}\n    }}");
        }
        let _ = writeln!(o, "}}\n");
        defs += 1;
        for int in [3i64, -2] {
            let this = g.this_vals(&own.fields, int);
            calls.push(WCall::Policy { cmd: format!("C{j}"), this });
        }
        let this = g.this_vals(&own.fields, 4);
        calls.push(WCall::Seal { cmd: format!("C{j}"), this: this.clone() });
        calls.push(WCall::Open { cmd: format!("C{j}"), this });
    }

    for j in 0..n_cmd {
        let own = g.comps[j].clone();
        let _ = writeln!(o, "action act{j}(n int) {{");
        if g.s.chance(50) {
            let ci = g.pick_comp();
            let c = g.comps[ci].clone();
            let (lets, names) = g.piece_lets(&c, "n", "    ");
            o.push_str(&lets);
            let l = g.lit(&format!("W{ci}"), &c, "n", false, &names, "action");
            let _ = writeln!(o, "    let x{} = {l}", g.var);
            g.var += 1;
        }
        let (lets, names) = g.piece_lets(&own, "n", "    ");
        o.push_str(&lets);
        let l = g.lit(&format!("C{j}"), &own, "n", false, &names, "action");
        let _ = writeln!(o, "    publish {l}\n}}\n");
        defs += 1;
        calls.push(WCall::Action { name: format!("act{j}"), n: 1 });
    }
    WideCase { text: o, calls, comps: g.sites, defs }
}

fn wide_strategy(len: usize) -> impl Strategy<Value = WideCase> {
    prop::collection::vec(any::<u16>(), 0..len).prop_map(build_wide)
}

fn wval(v: &WVal) -> Value {
    match v {
        WVal::Int(n) => Value::Int(*n),
        WVal::Bool(b) => Value::Bool(*b),
        WVal::Str(s) => Value::String(s.parse().expect("no NUL")),
        WVal::Enum(n, i) => Value::Enum(ident_of(n), *i),
        WVal::OptInt(o) => Value::Option(o.map(|n| Box::new(Value::Int(n)))),
    }
}

fn wthis(cmd: &str, this: &[(String, WVal)]) -> Struct {
    Struct { name: ident_of(cmd), fields: this.iter().map(|(n, v)| (ident_of(n), wval(v))).collect() }
}

fn run_seal_open(machine: &Machine, io: &mut RecIo, this: Struct, seal: bool) -> RunOut {
    let name = this.name.clone();
    let ev0 = io.events.len();
    io.ffi_log.borrow_mut().clear();
    let ctx = if seal {
        CommandContext::Seal(SealContext { name, head_id: CmdId::default() })
    } else {
        CommandContext::Open(OpenContext { name })
    };
    let (end, stack) = {
        let mut rs = machine.create_run_state(io, ctx);
        let r = if seal { rs.call_seal(this, vec![1, 2, 3]) } else { rs.call_open(this, vec![1, 2, 3], envelope()) };
        let end = match r {
            Ok(x) => RunEnd::Exit(x),
            Err(e) => RunEnd::Error(format!("{}: {}", err_name(&e.err_type), e.err_type), classify(&e.err_type)),
        };
        (end, rs.stack.as_slice().to_vec())
    };
    RunOut { end, stack, ffi: io.ffi_log.borrow().clone(), events: io.events[ev0..].to_vec(), write_before_finish: None, events_at_recall: None }
}

/// Every entry point of a wide case: (what, outcome, fact store afterwards).
fn exec_wide(c: &WideCase, machine: &Machine) -> Vec<(String, RunOut, String)> {
    c.calls
        .iter()
        .map(|call| {
            let mut io = RecIo::new();
            let (what, out) = match call {
                WCall::Function { name, n } => (format!("function {name}({n})"), run_function(machine, &mut io, name, vec![Value::Int(*n)])),
                WCall::Action { name, n } => (format!("action {name}({n})"), run_action(machine, &mut io, name, vec![Value::Int(*n)])),
                WCall::Policy { cmd, this } => (format!("policy {cmd}"), run_command(machine, &mut io, wthis(cmd, this))),
                WCall::Seal { cmd, this } => (format!("seal {cmd}"), run_seal_open(machine, &mut io, wthis(cmd, this), true)),
                WCall::Open { cmd, this } => (format!("open {cmd}"), run_seal_open(machine, &mut io, wthis(cmd, this), false)),
            };
            (what, out, format!("{:?}", io.facts))
        })
        .collect()
}

fn check_wide(c: &WideCase, info: &mut CaseInfo) -> CheckResult {
    let text = &c.text;
    let m1 = match compile_module(text) {
        Ok(m) => m,
        Err(CompileOutcome::Panicked(m)) => fail!("front end panicked", "{m}\n{text}"),
        // the generator's claim is that these texts are valid: a rejection would make the part vacuous
        Err(e) => fail!("generated wide policy rejected", "{e:?}\n{text}"),
    };
    recompile_equal(text, &m1, 3, 2)?;
    let machine = Machine::from_module(m1.clone()).map_err(|e| vcommon::Failure::new("from_module failed", e.to_string()))?;
    let base = exec_wide(c, &machine);
    let again = exec_wide(c, &machine);
    ensure!(base == again, "re-execution on the same machine differs", "{text}");
    let forms: [(&str, fn(&Module) -> Result<Module, String>); 2] = [("cbor", via_cbor), ("rkyv", via_rkyv)];
    for (name, f) in forms {
        let back = match f(&m1) {
            Ok(b) => b,
            Err(e) => fail!("module does not survive a serialized form", "{name}: {e}\n{text}"),
        };
        ensure!(back == m1, "decoded module differs", "{name}\n{text}");
        let mach2 = Machine::from_module(back).map_err(|e| vcommon::Failure::new("from_module failed", e.to_string()))?;
        ensure!(mach2 == machine, "machine from decoded module differs", "{name}\n{text}");
        let runs = exec_wide(c, &mach2);
        if runs != base {
            let i = runs.iter().zip(&base).position(|(a, b)| a != b).unwrap_or(0);
            fail!("execution on the decoded module differs", "{name}: {:?} vs {:?}\n{text}", runs.get(i), base.get(i));
        }
    }
    let mut multi = false;
    for s in &c.comps {
        let (site, k) = s.split_once('/').unwrap_or((s, "0"));
        if k != "1" {
            multi = true;
            info.label(format!("multi_source_in_{site}"));
        }
        info.label(format!("sources_{k}"));
    }
    info.label(format!("defs_{}x", c.defs / 10 * 10));
    for (what, out, _) in &base {
        let kind = what.split(' ').next().unwrap_or("");
        match &out.end {
            RunEnd::Exit(x) => info.label(format!("{kind}_exit_{x:?}")),
            RunEnd::Error(e, _) => info.label(format!("{kind}_error_{}", e.split(':').next().unwrap_or(""))),
        }
    }
    if multi && m1_has_code(&m1) {
        info.nontrivial();
    }
    Ok(())
}

pub fn run(ctx: &Ctx) -> ! {
    let mut rep = Report::new(ctx, "exploration");
    rep.assume("serialized forms of a Module in the code base: ciborium (policy-compiler CLI, VM test) and the rkyv derives; serde_json and postcard are also tried and only counted when they cannot encode a Module at all");
    rep.assume("'same results' = exit reason or machine error, final data stack, foreign-call trace, fact/effect I/O events and final fact store of every function, command policy and action run");
    let n = ctx.pick(6_000, 120_000);
    rep.explore(
        "modules",
        "generated policies (types, globals, 1-3 functions, facts, effects, finish functions, 1-2 commands with recall blocks, one action): compile 4-6 times (also in a fresh thread) => equal Modules; cbor / rkyv (json, postcard when representable) round-trip => equal Module, equal Machine, identical execution of every entry point; non-trivial = program with >=1 command run, >=1 action run and >20 instructions",
        || strategy(cfg(4), 2500, 2),
        n,
        check,
    );
    rep.assume("every text is compiled 4 times in the worker thread; every wide text and every 16th text of part modules 2 more times in a fresh thread (6 in total); all Modules must be equal");
    rep.explore(
        "wide_modules",
        "generated wide policies: 2-7 enums, 4-12 composed struct/effect pairs plus their source structs, 0-9 filler structs (with +insertion), 1-6 facts, 0-7 globals, \
         2-9 functions, 0-3 finish functions, 1-3 commands (attributes, seal, open, policy with finish block and finish-function call, 0-2 recall blocks), one action per command; \
         struct literals composed from 0-4 `...source` entries with disjoint contributed field sets (sources written in an order unrelated to definition/creation order, \
         optionally overlapping an explicit field) in function, action, seal, open, policy, recall bodies, finish blocks and finish functions; \
         oracle: 6 compilations => equal Module; cbor / rkyv round trip => equal Module, equal Machine, identical execution of every function, action, command policy, seal and open block; \
         non-trivial = at least one literal with >=2 sources and >20 instructions",
        || wide_strategy(3000),
        ctx.pick(600, 30_000),
        check_wide,
    );
    rep.finish()
}
