//! C28: compiling is deterministic; modules survive their serialized forms.
use aranya_policy_module::Module;
use aranya_policy_vm::Machine;
use vcommon::{CaseInfo, CheckResult, Ctx, Report, ensure, fail};

use crate::{
    c22::{Case, strategy},
    exec::exec_all,
    pgen::Cfg,
    vmrun::*,
};

pub fn cfg(depth: u32) -> Cfg {
    Cfg { depth, poison: false, commands: true, never: true, misplace: 0, max_funcs: 3, empty_structs: false }
}

fn via_cbor(m: &Module) -> Result<Module, String> {
    let mut buf = Vec::new();
    ciborium::into_writer(m, &mut buf).map_err(|e| format!("encode: {e}"))?;
    ciborium::from_reader(&buf[..]).map_err(|e| format!("decode: {e}"))
}

fn via_rkyv(m: &Module) -> Result<Module, String> {
    let bytes = rkyv::to_bytes::<rkyv::rancor::Error>(m).map_err(|e| format!("encode: {e}"))?;
    rkyv::from_bytes::<Module, rkyv::rancor::Error>(&bytes).map_err(|e| format!("decode: {e}"))
}

fn via_json(m: &Module) -> Result<Module, String> {
    let s = serde_json::to_string(m).map_err(|e| format!("encode: {e}"))?;
    serde_json::from_str(&s).map_err(|e| format!("decode: {e}"))
}

fn via_postcard(m: &Module) -> Result<Module, String> {
    let b = postcard::to_stdvec(m).map_err(|e| format!("encode: {e}"))?;
    postcard::from_bytes(&b).map_err(|e| format!("decode: {e}"))
}

fn check(c: &Case, info: &mut CaseInfo) -> CheckResult {
    let text = crate::c22::text_of(c);
    let m1 = match compile_module(&text) {
        Ok(m) => m,
        Err(CompileOutcome::Panicked(m)) => fail!("front end panicked", "{m}\n{text}"),
        Err(_) => {
            info.label("rejected_by_compiler");
            return Ok(());
        }
    };
    let m2 = match compile_module(&text) {
        Ok(m) => m,
        Err(e) => fail!("second compilation of the same text failed", "{e:?}\n{text}"),
    };
    ensure!(m1 == m2, "two compilations of the same text differ", "{text}");
    let machine = Machine::from_module(m1.clone()).map_err(|e| vcommon::Failure::new("from_module failed", e.to_string()))?;
    let base = exec_all(&c.prog, &c.inputs, &machine);
    // re-running on the same machine gives the same results
    let again = exec_all(&c.prog, &c.inputs, &machine);
    ensure!(base == again, "re-execution on the same machine differs", "{text}");
    let forms: [(&str, fn(&Module) -> Result<Module, String>, bool); 4] = [
        ("cbor", via_cbor, true),
        ("rkyv", via_rkyv, true),
        // serde formats the code base does not use for modules: tried, counted when they cannot
        // represent a module at all (map keys / internally tagged enum), checked when they can
        ("json", via_json, false),
        ("postcard", via_postcard, false),
    ];
    for (name, f, required) in forms {
        let back = match f(&m1) {
            Ok(b) => b,
            Err(e) if !required => {
                info.label(format!("{name}_cannot_represent_module"));
                let _ = e;
                continue;
            }
            Err(e) => fail!("module does not survive a serialized form", "{name}: {e}\n{text}"),
        };
        info.label(format!("{name}_roundtrip"));
        ensure!(back == m1, "decoded module differs", "{name}\n{text}");
        let mach2 = Machine::from_module(back).map_err(|e| vcommon::Failure::new("from_module failed", e.to_string()))?;
        ensure!(mach2 == machine, "machine from decoded module differs", "{name}\n{text}");
        let runs = exec_all(&c.prog, &c.inputs, &mach2);
        if runs != base {
            let i = runs.iter().zip(&base).position(|(a, b)| a != b).unwrap_or(0);
            fail!("execution on the decoded module differs", "{name}: {:?} vs {:?}\n{text}", runs.get(i), base.get(i));
        }
    }
    let n_cmd = base.iter().filter(|r| r.what.starts_with("command")).count();
    let n_act = base.iter().filter(|r| r.what.starts_with("action")).count();
    for r in &base {
        let kind = r.what.split(' ').next().unwrap_or("");
        match &r.out.end {
            RunEnd::Exit(x) => info.label(format!("{kind}_exit_{x:?}")),
            RunEnd::Error(e, _) => info.label(format!("{kind}_error_{}", e.split(':').next().unwrap_or(""))),
        }
    }
    if n_cmd > 0 && n_act > 0 && m1_has_code(&m1) {
        info.nontrivial();
    }
    Ok(())
}

fn m1_has_code(m: &Module) -> bool {
    let aranya_policy_module::ModuleData::V0(v) = &m.data;
    v.progmem.len() > 20
}

pub fn run(ctx: &Ctx) -> ! {
    let mut rep = Report::new(ctx, "exploration");
    rep.assume("serialized forms of a Module in the code base: ciborium (policy-compiler CLI, VM test) and the rkyv derives; serde_json and postcard are also tried and only counted when they cannot encode a Module at all");
    rep.assume("'same results' = exit reason or machine error, final data stack, foreign-call trace, fact/effect I/O events and final fact store of every function, command policy and action run");
    let n = ctx.pick(6_000, 120_000);
    rep.explore(
        "modules",
        "generated policies (types, globals, 1-3 functions, facts, effects, finish functions, 1-2 commands with recall blocks, one action): compile twice => equal Module; cbor / rkyv (json, postcard when representable) round-trip => equal Module, equal Machine, identical execution of every entry point; non-trivial = program with >=1 command run, >=1 action run and >20 instructions",
        || strategy(cfg(4), 2500, 2),
        n,
        check,
    );
    rep.finish()
}
