//! C30: facts and effects change only inside finish blocks; recalled effects are marked.
use aranya_policy_vm::ExitReason;
use vcommon::{CaseInfo, CheckResult, Ctx, Report, ensure, fail};

use crate::{
    ast::*,
    c22::{Case, strategy},
    pgen::Cfg,
    vmrun::*,
};

fn cfg(misplace: u32) -> Cfg {
    Cfg { depth: 3, poison: false, commands: true, never: true, misplace, max_funcs: 2, empty_structs: false }
}

fn is_write(s: &Stmt) -> bool {
    matches!(s, Stmt::Create(_) | Stmt::Update(..) | Stmt::Delete(_) | Stmt::Emit(_) | Stmt::CallFinish(..))
}

/// Does a policy / recall statement list contain a finish-only statement outside `finish`, or a
/// `finish` that is not the last statement of its list?
fn misplaced(v: &[Stmt]) -> bool {
    for (i, s) in v.iter().enumerate() {
        match s {
            s if is_write(s) => return true,
            Stmt::Finish(_) if i + 1 != v.len() => return true,
            Stmt::If(bs, fb) => {
                if bs.iter().any(|(_, b)| misplaced(b)) || fb.as_ref().is_some_and(|b| misplaced(b)) {
                    return true;
                }
            }
            Stmt::Match(_, arms) => {
                if arms.iter().any(|(_, b)| misplaced(b)) {
                    return true;
                }
            }
            _ => {}
        }
    }
    false
}

fn check(c: &Case, info: &mut CaseInfo) -> CheckResult {
    let text = crate::c22::text_of(c);
    let any_misplaced = c.prog.commands.iter().any(|c| misplaced(&c.policy) || c.recalls.iter().any(|r| misplaced(&r.body)));
    let module = match compile_module(&text) {
        Ok(m) => m,
        Err(CompileOutcome::Panicked(m)) => fail!("front end panicked", "{m}\n{text}"),
        Err(_) => {
            info.label(if any_misplaced { "rejected_misplaced" } else { "rejected_other" });
            return Ok(());
        }
    };
    if any_misplaced {
        info.label("accepted_with_misplaced_statement");
    }
    let machine = machine_of(module);
    let mut saw_events = false;
    let mut saw_recalled = false;
    for (ci, cmd) in c.prog.commands.iter().enumerate() {
        for vals in c.inputs.cmd_fields.get(ci).map(|v| v.as_slice()).unwrap_or(&[]) {
            let this = this_struct(&c.prog, cmd, vals);
            let mut io = io_with_facts(&c.prog, &c.inputs);
            let facts_before = io.facts.clone();
            let out = run_command(&machine, &mut io, this.clone());
            let ctx = |what: &str| format!("{what}: command {} this={vals:?} end={:?} events={:?}\n{text}", cmd.name, out.end, out.events);
            // the stepping driver and the public one-shot entry point must agree
            let mut io2 = io_with_facts(&c.prog, &c.inputs);
            let one = run_command_oneshot(&machine, &mut io2, this);
            ensure!(one == out.end && io2.events == io.events, "stepped run differs from call_command_policy", "{}", ctx(&format!("oneshot={one:?}")));
            if let Some(w) = &out.write_before_finish {
                fail!("fact write or effect executed before any finish marker", "{}", ctx(w));
            }
            let effects: Vec<bool> = out.events.iter().filter_map(|e| if let IoEvent::Effect(_, _, r) = e { Some(*r) } else { None }).collect();
            match &out.end {
                RunEnd::Exit(ExitReason::Panic) => {
                    info.label("exit_panic");
                    ensure!(out.events.is_empty(), "policy panic after fact writes or effects", "{}", ctx("panic"));
                    ensure!(io.facts == facts_before, "policy panic changed facts", "{}", ctx("panic"));
                }
                RunEnd::Exit(ExitReason::Check) => {
                    info.label("exit_check");
                    ensure!(out.events_at_recall.is_some(), "check exit without a recall", "{}", ctx("check"));
                    ensure!(effects.iter().all(|r| *r), "effect emitted while handling a recall is not marked recalled", "{}", ctx("check"));
                    if !effects.is_empty() {
                        saw_recalled = true;
                        info.label("recalled_effects");
                    }
                }
                RunEnd::Exit(ExitReason::Normal) => {
                    info.label("exit_normal");
                    ensure!(out.events_at_recall.is_none(), "normal exit after a recall", "{}", ctx("normal"));
                    ensure!(effects.iter().all(|r| !*r), "effect of an accepted command is marked recalled", "{}", ctx("normal"));
                }
                RunEnd::Exit(r) => fail!("unexpected exit reason for a command policy", "{}", ctx(&format!("{r:?}"))),
                RunEnd::Error(e, _) => info.label(format!("error_{}", e.split(':').next().unwrap_or(""))),
            }
            // position of the recall in the event stream: nothing before it, everything after it recalled
            if let Some(n) = out.events_at_recall {
                ensure!(n == 0, "fact writes or effects happened before the recall", "{}", ctx("recall"));
                ensure!(effects.iter().all(|r| *r), "effect after recall not marked recalled", "{}", ctx("recall"));
            }
            if !out.events.is_empty() {
                saw_events = true;
                info.label("writes_or_effects");
            }
        }
    }
    // pure functions never perform fact / effect I/O
    for (fi, f) in c.prog.funcs.iter().enumerate() {
        for args in c.inputs.fn_args.get(fi).map(|v| v.as_slice()).unwrap_or(&[]) {
            let mut io = io_with_facts(&c.prog, &c.inputs);
            let out = run_function(&machine, &mut io, &f.name, args.iter().map(|a| to_vm(&c.prog, a)).collect());
            ensure!(out.events.is_empty() && out.write_before_finish.is_none(), "pure function performed fact/effect I/O", "{}: {:?}\n{text}", f.name, out.events);
        }
    }
    if saw_events && (saw_recalled || c.prog.commands.iter().any(|c| !c.recalls.is_empty())) {
        info.nontrivial();
    }
    Ok(())
}

pub fn run(ctx: &Ctx) -> ! {
    let mut rep = Report::new(ctx, "exploration");
    rep.assume("in this language version `check` requires a terminal else expression, so ExitReason::Check is reachable only through `recall`; the clause 'failed check without recall changes nothing' has no reachable instance and is covered by the panic clause (check … else todo())");
    rep.assume("runs that end in an I/O error (create of an existing fact, delete/update of a missing one) are not constrained by the statement beyond 'no write before a finish marker'");
    let n = ctx.pick(12_000, 240_000);
    rep.explore(
        "command_policies",
        "generated command policies (let/check-else-recall|todo/debug_assert/if/match with finish blocks, recall statements, recall blocks with arguments, finish functions, initial facts) run with a recording I/O: panic => no fact write/effect and unchanged facts; check exit => went through a recall and every effect recalled; normal exit => no recall, no recalled effect; no Create/Update/Delete/Emit instruction before a Meta::Finish marker; stepped run == call_command_policy; non-trivial = a run with I/O events in a program with recall blocks",
        || strategy(cfg(0), 2500, 2),
        n,
        check,
    );
    rep.explore(
        "arbitrary_arrangements",
        "same generator, but finish-only statements and finish blocks are also placed at arbitrary positions of policy/recall blocks; programs the compiler rejects are counted and dropped, accepted ones are held to the same oracle",
        || strategy(cfg(12), 2500, 2),
        n / 2,
        check,
    );
    rep.finish()
}
