//! Runs every entry point of a generated program in the VM.
use aranya_policy_vm::Machine;

use crate::{ast::Prog, pgen::Inputs, vmrun::*};

#[derive(Clone, Debug, PartialEq)]
pub struct EntryRun {
    pub what: String,
    pub out: RunOut,
    /// fact store after the run, rendered
    pub facts_after: String,
}

/// Every function on its argument vectors, every command policy on its `this` values (each from
/// the initial facts), every action on its argument vectors.
pub fn exec_all(prog: &Prog, inputs: &Inputs, machine: &Machine) -> Vec<EntryRun> {
    let mut v = Vec::new();
    for (fi, f) in prog.funcs.iter().enumerate() {
        for args in inputs.fn_args.get(fi).map(|v| v.as_slice()).unwrap_or(&[]) {
            let mut io = io_with_facts(prog, inputs);
            let out = run_function(machine, &mut io, &f.name, args.iter().map(|a| to_vm(prog, a)).collect());
            v.push(EntryRun { what: format!("function {} {args:?}", f.name), out, facts_after: format!("{:?}", io.facts) });
        }
    }
    for (ci, c) in prog.commands.iter().enumerate() {
        for vals in inputs.cmd_fields.get(ci).map(|v| v.as_slice()).unwrap_or(&[]) {
            let mut io = io_with_facts(prog, inputs);
            let out = run_command(machine, &mut io, this_struct(prog, c, vals));
            v.push(EntryRun { what: format!("command {} {vals:?}", c.name), out, facts_after: format!("{:?}", io.facts) });
        }
    }
    for (ai, a) in prog.actions.iter().enumerate() {
        for args in inputs.action_args.get(ai).map(|v| v.as_slice()).unwrap_or(&[]) {
            let mut io = io_with_facts(prog, inputs);
            let out = run_action(machine, &mut io, &a.name, args.iter().map(|x| to_vm(prog, x)).collect());
            v.push(EntryRun { what: format!("action {} {args:?}", a.name), out, facts_after: format!("{:?}", io.facts) });
        }
    }
    v
}
