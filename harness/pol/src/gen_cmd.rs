// Facts, effects, finish functions, commands, actions and the top-level program (included into pgen.rs).

/// Inputs for one generated program.
#[derive(Clone, Debug, PartialEq, serde::Serialize, serde::Deserialize)]
pub struct Inputs {
    /// per function: argument vectors
    pub fn_args: Vec<Vec<Vec<Val>>>,
    /// per command: `this` field values (in field order), several runs
    #[serde(default)]
    pub cmd_fields: Vec<Vec<Vec<Val>>>,
    /// per action: argument vectors
    #[serde(default)]
    pub action_args: Vec<Vec<Vec<Val>>>,
    /// initial facts: (fact name, key values, value values)
    #[serde(default)]
    pub facts: Vec<(String, Vec<Val>, Vec<Val>)>,
}

impl Gen {
    fn key_ty(&mut self) -> Ty {
        self.simple_ty()
    }

    fn gen_fact_defs(&mut self) {
        let n = 1 + self.src.below(2);
        for i in 0..n {
            let nk = self.src.below(3);
            let nv = self.src.below(3);
            let keys = (0..nk).map(|j| (format!("k{j}"), self.key_ty())).collect();
            let vals = (0..nv)
                .map(|j| {
                    let t = if self.src.chance(25) { Ty::Opt(Box::new(self.simple_ty())) } else { self.simple_ty() };
                    (format!("x{j}"), t)
                })
                .collect();
            self.prog.facts.push(FactDef { name: format!("F{i}"), keys, vals });
        }
        let n = 1 + self.src.below(2);
        for i in 0..n {
            let nf = self.src.below(3);
            let fields = (0..nf)
                .map(|j| {
                    let t = match self.src.below(4) {
                        0 => Ty::Opt(Box::new(self.simple_ty())),
                        _ => self.simple_ty(),
                    };
                    (format!("e{j}"), t)
                })
                .collect();
            self.prog.effects.push(EffectDef { name: format!("X{i}"), fields });
        }
    }

    /// An expression allowed inside finish blocks: literal, identifier, field access, Some/None,
    /// enum reference, struct literal.
    fn finish_expr(&mut self, t: &Ty, env: &Env) -> Expr {
        let vs = self.vars_of(t, env);
        let dots = self.fields_of_type(t, env).into_iter().filter(|(s, _)| env.vars.iter().any(|v| v.ty == Ty::Struct(s.clone()))).collect::<Vec<_>>();
        match self.src.weighted(&[3, u32::from(!vs.is_empty()) * 4, u32::from(!dots.is_empty()) * 3]) {
            1 => Expr::Var(vs[self.src.below(vs.len())].name.clone()),
            2 => {
                let (s, f) = dots[self.src.below(dots.len())].clone();
                let holders: Vec<String> = env.vars.iter().filter(|v| v.ty == Ty::Struct(s.clone())).map(|v| v.name.clone()).collect();
                Expr::Dot(Box::new(Expr::Var(holders[self.src.below(holders.len())].clone())), f)
            }
            _ => match t {
                Ty::Opt(i) if self.src.chance(50) => Expr::Some(Box::new(self.finish_expr(i, env))),
                _ => self.lit(t, env),
            },
        }
    }

    fn fact_lit(&mut self, f: &FactDef, env: &Env, with_vals: bool) -> FactLit {
        let keys = f.keys.iter().map(|(n, t)| (n.clone(), self.small_key(t, env))).collect();
        let vals = if with_vals { Some(f.vals.iter().map(|(n, t)| (n.clone(), self.finish_expr(t, env))).collect()) } else { None };
        FactLit { name: f.name.clone(), keys, vals }
    }

    /// Key expressions come from a tiny value range so that creates / deletes / updates collide
    /// with the initial facts often.
    fn small_key(&mut self, t: &Ty, env: &Env) -> Expr {
        match t {
            Ty::Int if self.src.chance(70) => Expr::Int(self.src.below(3) as i64),
            Ty::Str if self.src.chance(70) => Expr::Str(["a", "abc"][self.src.below(2)].into()),
            _ => self.finish_expr(t, env),
        }
    }

    fn finish_stmt(&mut self, env: &Env) -> Stmt {
        let nf = self.prog.facts.len();
        let ne = self.prog.effects.len();
        let nff = self.prog.finish_fns.len();
        match self.src.weighted(&[3, 2, 2, 4, u32::from(nff > 0) * 2]) {
            0 => {
                let f = self.prog.facts[self.src.below(nf)].clone();
                Stmt::Create(self.fact_lit(&f, env, true))
            }
            1 => {
                let f = self.prog.facts[self.src.below(nf)].clone();
                let with_vals = self.src.chance(30);
                let lit = self.fact_lit(&f, env, with_vals);
                let to = f.vals.iter().map(|(n, t)| (n.clone(), self.finish_expr(t, env))).collect();
                Stmt::Update(lit, to)
            }
            2 => {
                let f = self.prog.facts[self.src.below(nf)].clone();
                Stmt::Delete(self.fact_lit(&f, env, false))
            }
            3 => {
                let e = self.prog.effects[self.src.below(ne)].clone();
                let fields = e.fields.iter().map(|(n, t)| (n.clone(), self.finish_expr(t, env))).collect();
                Stmt::Emit(Expr::StructLit { name: e.name.clone(), fields, sources: vec![] })
            }
            _ => {
                let ff = self.prog.finish_fns[self.src.below(nff)].clone();
                let args = ff.params.iter().map(|(_, t)| self.finish_expr(t, env)).collect();
                Stmt::CallFinish(ff.name.clone(), args)
            }
        }
    }

    fn finish_block(&mut self, env: &Env) -> Vec<Stmt> {
        let n = self.src.below(4);
        (0..n).map(|_| self.finish_stmt(env)).collect()
    }

    fn gen_finish_fns(&mut self) {
        let n = self.src.below(2);
        for i in 0..n {
            let mut env = self.empty_env(Ctx::Function);
            let np = self.src.below(3);
            let mut params = Vec::new();
            for j in 0..np {
                let t = self.simple_ty();
                env.add(format!("q{j}"), t.clone(), true);
                params.push((format!("q{j}"), t));
            }
            let body = self.finish_block(&env);
            self.prog.finish_fns.push(FinishFn { name: format!("ff{i}"), params, body });
        }
    }

    /// Statements of a policy / recall block. `tail`: this list is in tail position of the block,
    /// so it may end with `finish` / `recall`.
    fn policy_stmts(&mut self, d: u32, env: &mut Env, tail: bool) -> Vec<Stmt> {
        env.enter();
        let mut out = Vec::new();
        let n = self.src.below(4);
        for _ in 0..n {
            if self.cfg.misplace > 0 && self.src.chance(self.cfg.misplace) {
                // an arrangement the compiler is expected to reject (or that must stay harmless)
                let s = match self.src.below(3) {
                    0 => self.finish_stmt(env),
                    1 => Stmt::Finish(self.finish_block(env)),
                    _ => {
                        let nf = self.prog.facts.len();
                        let f = self.prog.facts[self.src.below(nf)].clone();
                        Stmt::Create(self.fact_lit(&f, env, true))
                    }
                };
                out.push(s);
                continue;
            }
            let s = match self.src.weighted(&[5, 3, 1, if d > 0 { 3 } else { 0 }, if d > 0 { 2 } else { 0 }]) {
                0 => self.let_stmt(d.min(2), env),
                1 => {
                    // bias checks towards passing so that finish blocks are reached often
                    let c = if self.src.chance(55) { self.const_guard(true, env) } else { self.expr(&Ty::Bool, d.min(2), env, false) };
                    let e = self.check_else(d.min(2), env);
                    Stmt::Check(c, e)
                }
                2 => Stmt::DebugAssert(if self.src.chance(70) { self.const_guard(true, env) } else { self.expr(&Ty::Bool, 1, env, false) }),
                3 => {
                    let c = self.expr(&Ty::Bool, d.min(2), env, false);
                    let a = self.policy_stmts(d - 1, env, true);
                    let fb = if self.src.chance(50) { Some(self.policy_stmts(d - 1, env, true)) } else { None };
                    Stmt::If(vec![(c, a)], fb)
                }
                _ => {
                    let st = self.scrutinee_ty(env);
                    let (scrut, arms) = self.match_head(&st, d.min(2), env);
                    let mut o = Vec::new();
                    for (p, bind) in arms {
                        env.enter();
                        if let Some((n, bt)) = bind {
                            env.add(n, bt, true);
                        }
                        let body = self.policy_stmts(d - 1, env, true);
                        env.exit();
                        o.push((p, body));
                    }
                    Stmt::Match(scrut, o)
                }
            };
            out.push(s);
        }
        if tail {
            match self.src.weighted(&[10, 1, if env.ctx == Ctx::Policy && !env.recalls.is_empty() { 3 } else { 0 }, 1]) {
                1 => {}
                0 => out.push(Stmt::Finish(self.finish_block(env))),
                2 => {
                    let (n, args) = self.recall_call(2, env);
                    out.push(Stmt::Recall(n, args));
                }
                _ => out.push(Stmt::Let(env.fresh("v"), Expr::Todo)),
            }
        }
        env.exit();
        out
    }

    fn gen_commands(&mut self) {
        let n = 1 + self.src.below(2);
        let callable = self.prog.funcs.len();
        for i in 0..n {
            let name = format!("C{i}");
            let nfld = self.src.below(4);
            let fields: Vec<(String, Ty)> = (0..nfld)
                .map(|j| {
                    let t = match self.src.below(5) {
                        0 => Ty::Opt(Box::new(Ty::Int)),
                        1 => Ty::Id,
                        _ => self.simple_ty(),
                    };
                    (format!("c{j}"), t)
                })
                .collect();
            // the command must be visible as a struct type while its blocks are generated
            self.prog.commands.push(Command { name: name.clone(), fields, policy: vec![], recalls: vec![] });
            let nr = if self.src.chance(85) { 1 + self.src.below(2) } else { 0 };
            let mut recalls = Vec::new();
            let mut sigs = Vec::new();
            for r in 0..nr {
                let np = self.src.below(3);
                let params: Vec<(String, Ty)> = (0..np).map(|j| (format!("r{j}"), self.simple_ty())).collect();
                sigs.push((format!("rc{r}"), params.iter().map(|p| p.1.clone()).collect::<Vec<_>>()));
                recalls.push(RecallBlock { name: format!("rc{r}"), params, body: vec![] });
            }
            for rb in &mut recalls {
                let mut env = self.empty_env(Ctx::Recall);
                env.callable = callable;
                for (n, t) in &rb.params {
                    env.add(n.clone(), t.clone(), true);
                }
                env.add("this".into(), Ty::Struct(name.clone()), true);
                self.budget = 30;
                rb.body = self.policy_stmts(2, &mut env, true);
            }
            let mut env = self.empty_env(Ctx::Policy);
            env.callable = callable;
            env.recalls = sigs;
            env.add("this".into(), Ty::Struct(name.clone()), true);
            self.budget = 50;
            let policy = self.policy_stmts(self.cfg.depth.min(3), &mut env, true);
            let c = self.prog.commands.last_mut().expect("pushed");
            c.policy = policy;
            c.recalls = recalls;
        }
    }

    fn gen_actions(&mut self) {
        let callable = self.prog.funcs.len();
        let mut env = self.empty_env(Ctx::Action);
        env.callable = callable;
        let np = self.src.below(3);
        let mut params = Vec::new();
        for j in 0..np {
            let t = self.simple_ty();
            env.add(format!("a{j}"), t.clone(), true);
            params.push((format!("a{j}"), t));
        }
        self.budget = 40;
        let mut body = Vec::new();
        let n = self.src.below(3);
        for _ in 0..n {
            let s = match self.src.below(3) {
                0 => self.check_stmt(2, &mut env),
                _ => self.let_stmt(2, &mut env),
            };
            body.push(s);
        }
        let cmds: Vec<Command> = self.prog.commands.iter().filter(|c| self.makeable(&Ty::Struct(c.name.clone()), &env)).cloned().collect();
        if !cmds.is_empty() {
            let c = &cmds[self.src.below(cmds.len())];
            let fields = c.fields.iter().map(|(n, t)| (n.clone(), self.expr(t, 2, &mut env, false))).collect();
            body.push(Stmt::Publish(Expr::StructLit { name: c.name.clone(), fields, sources: vec![] }));
        }
        self.prog.actions.push(Action { name: "act0".into(), params, body });
    }

    fn gen_inputs(&mut self, per_fn: usize) -> Inputs {
        let funcs = self.prog.funcs.clone();
        let fn_args = funcs
            .iter()
            .map(|f| {
                let n = if f.params.is_empty() { 1 } else { per_fn };
                (0..n).map(|_| f.params.iter().map(|(_, t)| self.value(t)).collect()).collect()
            })
            .collect();
        let cmds = self.prog.commands.clone();
        let cmd_fields = cmds.iter().map(|c| (0..3).map(|_| c.fields.iter().map(|(_, t)| self.value(t)).collect()).collect()).collect();
        let acts = self.prog.actions.clone();
        let action_args = acts.iter().map(|a| (0..2).map(|_| a.params.iter().map(|(_, t)| self.value(t)).collect()).collect()).collect();
        let mut facts = Vec::new();
        let fdefs = self.prog.facts.clone();
        for f in &fdefs {
            let n = self.src.below(4);
            for _ in 0..n {
                let ks: Vec<Val> = f
                    .keys
                    .iter()
                    .map(|(_, t)| match t {
                        Ty::Int => Val::Int(self.src.below(3) as i64),
                        Ty::Str => Val::Str(["a", "abc"][self.src.below(2)].into()),
                        t => self.value(t),
                    })
                    .collect();
                let vs: Vec<Val> = f.vals.iter().map(|(_, t)| self.value(t)).collect();
                if !facts.iter().any(|(n, k, _): &(String, Vec<Val>, Vec<Val>)| *n == f.name && *k == ks) {
                    facts.push((f.name.clone(), ks, vs));
                }
            }
        }
        Inputs { fn_args, cmd_fields, action_args, facts }
    }
}

/// Builds a whole program and its inputs from a choice stream.
pub fn build_case(data: Vec<u16>, cfg: Cfg, per_fn: usize) -> (Prog, Inputs, Vec<String>) {
    let mut g = Gen::new(data, cfg);
    g.gen_types();
    g.gen_globals();
    let nf = 1 + g.src.below(g.cfg.max_funcs);
    for i in 0..nf {
        g.gen_function(i);
    }
    if g.cfg.commands {
        g.gen_fact_defs();
        g.gen_finish_fns();
        g.gen_commands();
        g.gen_actions();
    }
    let inputs = g.gen_inputs(per_fn);
    (g.prog, inputs, g.planted)
}
