// Expression generation (included into pgen.rs).

/// Conservative "the compiler can infer the full type of this expression" test.
fn solid(e: &Expr, env: &Env) -> bool {
    match e {
        Expr::Int(_)
        | Expr::Bool(_)
        | Expr::Str(_)
        | Expr::EnumRef(..)
        | Expr::StructLit { .. }
        | Expr::Call(..)
        | Expr::Ffi(..)
        | Expr::Arith(..)
        | Expr::Bin(..)
        | Expr::Not(_)
        | Expr::Is(..)
        | Expr::Dot(..)
        | Expr::Cast(..)
        | Expr::Substruct(..) => true,
        Expr::Var(v) => env.vars.iter().rev().find(|x| x.name == *v).is_some_and(|x| x.solid),
        Expr::Some(x) => solid(x, env),
        _ => false,
    }
}

#[derive(Clone, Copy, PartialEq, Eq, Debug)]
enum K {
    Leaf,
    If,
    BlockE,
    MatchE,
    CallF,
    DotF,
    Coalesce,
    Never,
    Not,
    And,
    Or,
    Cmp,
    EqE,
    IsE,
    FfiFlag,
    Sat,
    FfiTick,
    Checked,
    SomeE,
    OkE,
    ErrE,
    SLit,
    Compose,
    CastE,
    SubE,
    PoisonAnd,
    PoisonOr,
    PoisonIf,
    PoisonMatch,
    PoisonCoalesce,
}

impl Gen {
    fn vars_of<'e>(&self, t: &Ty, env: &'e Env) -> Vec<&'e VarInfo> {
        env.vars.iter().filter(|v| v.ty == *t).collect()
    }

    fn leaf(&mut self, t: &Ty, env: &Env) -> Expr {
        let vs = self.vars_of(t, env);
        if !vs.is_empty() && (!self.makeable(t, env) || self.src.chance(60)) {
            return Expr::Var(vs[self.src.below(vs.len())].name.clone());
        }
        self.lit(t, env)
    }

    fn callable_returning(&self, t: &Ty, env: &Env) -> Vec<usize> {
        (0..env.callable.min(self.prog.funcs.len()))
            .filter(|i| {
                let f = &self.prog.funcs[*i];
                f.ret == *t && f.params.iter().all(|(_, pt)| self.makeable(pt, env))
            })
            .collect()
    }

    /// (struct name, field name) pairs with a field of type `t` in a makeable struct
    fn fields_of_type(&self, t: &Ty, env: &Env) -> Vec<(String, String)> {
        let mut out = Vec::new();
        for s in &self.prog.structs {
            if let Some(fs) = self.prog.struct_fields(&s.name) {
                if !self.makeable(&Ty::Struct(s.name.clone()), env) {
                    continue;
                }
                for (f, ft) in fs {
                    if ft == *t {
                        out.push((s.name.clone(), f));
                    }
                }
            }
        }
        // `this.f` in command contexts
        for v in &env.vars {
            if v.name == "this" {
                if let Ty::Struct(c) = &v.ty {
                    if let Some(fs) = self.prog.struct_fields(c) {
                        for (f, ft) in fs {
                            if ft == *t {
                                out.push((c.clone(), f));
                            }
                        }
                    }
                }
            }
        }
        out
    }

    fn same_fieldset(&self, a: &str, b: &str) -> bool {
        let (Some(mut x), Some(mut y)) = (self.prog.struct_fields(a), self.prog.struct_fields(b)) else { return false };
        x.sort_by(|p, q| p.0.cmp(&q.0));
        y.sort_by(|p, q| p.0.cmp(&q.0));
        x == y
    }

    fn superset_of(&self, big: &str, small: &str) -> bool {
        let (Some(x), Some(y)) = (self.prog.struct_fields(big), self.prog.struct_fields(small)) else { return false };
        y.iter().all(|f| x.contains(f))
    }

    pub fn expr(&mut self, t: &Ty, d: u32, env: &mut Env, never_ok: bool) -> Expr {
        self.budget -= 1;
        if d == 0 || self.budget <= 0 {
            return self.leaf(t, env);
        }
        let mut ks: Vec<(K, u32)> = vec![(K::Leaf, 4), (K::If, 2), (K::BlockE, 1), (K::MatchE, 2), (K::Coalesce, 2)];
        if !self.callable_returning(t, env).is_empty() {
            ks.push((K::CallF, 4));
        }
        if !self.fields_of_type(t, env).is_empty() {
            ks.push((K::DotF, 3));
        }
        if never_ok && self.cfg.never {
            ks.push((K::Never, 1));
        }
        match t {
            Ty::Bool => {
                ks.extend([(K::Not, 2), (K::And, 3), (K::Or, 3), (K::Cmp, 4), (K::EqE, 4), (K::IsE, 2), (K::FfiFlag, 1)]);
                if self.cfg.poison {
                    ks.extend([(K::PoisonAnd, 5), (K::PoisonOr, 5)]);
                }
            }
            Ty::Int => ks.extend([(K::Sat, 5), (K::FfiTick, 1)]),
            Ty::Opt(i) => {
                if **i == Ty::Int {
                    ks.push((K::Checked, 5));
                }
                if self.makeable(i, env) {
                    ks.push((K::SomeE, 3));
                }
            }
            Ty::Res(a, b) => {
                if self.makeable(a, env) {
                    ks.push((K::OkE, 3));
                }
                if self.makeable(b, env) {
                    ks.push((K::ErrE, 3));
                }
            }
            Ty::Struct(n) => {
                if self.prog.structs.iter().any(|s| s.name == *n) {
                    ks.push((K::SLit, 4));
                    ks.push((K::Compose, 2));
                    if self.prog.structs.iter().any(|s| s.name != *n && self.same_fieldset(&s.name, n)) {
                        ks.push((K::CastE, 3));
                    }
                    if self.prog.structs.iter().any(|s| s.name != *n && self.superset_of(&s.name, n)) {
                        ks.push((K::SubE, 3));
                    }
                }
            }
            _ => {}
        }
        if self.cfg.poison {
            ks.extend([(K::PoisonIf, 4), (K::PoisonMatch, 3), (K::PoisonCoalesce, 3)]);
        }
        let ws: Vec<u32> = ks.iter().map(|k| k.1).collect();
        let k = ks[self.src.weighted(&ws)].0;
        self.build(k, t, d - 1, env, never_ok)
    }

    fn block_of(&mut self, t: &Ty, d: u32, env: &mut Env, never_ok: bool) -> Block {
        env.enter();
        let n = if self.src.chance(30) { 1 + self.src.below(2) } else { 0 };
        let mut stmts = Vec::new();
        for _ in 0..n {
            let s = self.simple_stmt(d, env);
            stmts.push(s);
        }
        let value = self.expr(t, d, env, never_ok);
        env.exit();
        Block { stmts, value }
    }

    fn build(&mut self, k: K, t: &Ty, d: u32, env: &mut Env, never_ok: bool) -> Expr {
        match k {
            K::Leaf => self.leaf(t, env),
            K::If => {
                let c = self.expr(&Ty::Bool, d, env, false);
                // at most one branch may be a never-typed expression
                let first_never = never_ok && self.src.chance(50);
                let a = self.block_of(t, d, env, first_never);
                let b = self.block_of(t, d, env, never_ok && !first_never);
                Expr::If(Box::new(c), Box::new(a), Box::new(b))
            }
            K::BlockE => Expr::Block(Box::new(self.block_of(t, d, env, never_ok))),
            K::MatchE => {
                let st = self.scrutinee_ty(env);
                let (scrut, arms) = self.match_head(&st, d, env);
                let mut out = Vec::new();
                for (i, (p, bind)) in arms.into_iter().enumerate() {
                    env.enter();
                    if let Some((n, bt)) = bind {
                        env.add(n, bt, true);
                    }
                    let body = self.expr(t, d, env, never_ok && i > 0);
                    env.exit();
                    out.push((p, body));
                }
                Expr::Match(Box::new(scrut), out)
            }
            K::CallF => {
                let c = self.callable_returning(t, env);
                let i = c[self.src.below(c.len())];
                let (name, params) = (self.prog.funcs[i].name.clone(), self.prog.funcs[i].params.clone());
                let args = params.iter().map(|(_, pt)| self.expr(pt, d, env, false)).collect();
                Expr::Call(name, args)
            }
            K::DotF => {
                let c = self.fields_of_type(t, env);
                let (s, f) = c[self.src.below(c.len())].clone();
                let lhs = self.expr(&Ty::Struct(s), d, env, false);
                Expr::Dot(Box::new(lhs), f)
            }
            K::Coalesce => {
                let a = self.expr(&Ty::Opt(Box::new(t.clone())), d, env, false);
                let rhs_never = never_ok && solid(&a, env);
                let b = self.expr(t, d, env, rhs_never);
                Expr::Coalesce(Box::new(a), Box::new(b))
            }
            K::Never => match (&env.ret, self.src.chance(50)) {
                (Some(rt), true) => {
                    let rt = rt.clone();
                    Expr::Return(Box::new(self.expr(&rt, d.min(1), env, false)))
                }
                _ => Expr::Todo,
            },
            K::Not => Expr::Not(Box::new(self.expr(&Ty::Bool, d, env, false))),
            K::And | K::Or => {
                let a = self.expr(&Ty::Bool, d, env, false);
                let b = self.expr(&Ty::Bool, d, env, never_ok);
                Expr::Bin(if k == K::And { BinOp::And } else { BinOp::Or }, Box::new(a), Box::new(b))
            }
            K::Cmp => {
                let op = [BinOp::Lt, BinOp::Gt, BinOp::Le, BinOp::Ge][self.src.below(4)];
                let a = self.expr(&Ty::Int, d, env, false);
                let b = self.expr(&Ty::Int, d, env, false);
                Expr::Bin(op, Box::new(a), Box::new(b))
            }
            K::EqE => {
                let ot = self.makeable_ty(2, env);
                let a = self.expr(&ot, d, env, false);
                // make equal operands reasonably likely
                let b = if self.src.chance(25) { a.clone() } else { self.expr(&ot, d, env, false) };
                Expr::Bin(if self.src.chance(50) { BinOp::Eq } else { BinOp::Ne }, Box::new(a), Box::new(b))
            }
            K::IsE => {
                let it = self.makeable_ty(1, env);
                let a = self.expr(&Ty::Opt(Box::new(it)), d, env, false);
                Expr::Is(Box::new(a), self.src.chance(50))
            }
            K::FfiFlag => Expr::Ffi("flag".into(), vec![self.expr(&Ty::Int, d.min(1), env, false)]),
            K::FfiTick => Expr::Ffi("tick".into(), vec![self.expr(&Ty::Int, d.min(1), env, false)]),
            K::Sat | K::Checked => {
                let op = match (k, self.src.chance(50)) {
                    (K::Sat, true) => Arith::SatAdd,
                    (K::Sat, false) => Arith::SatSub,
                    (_, true) => Arith::Add,
                    (_, false) => Arith::Sub,
                };
                let a = self.expr(&Ty::Int, d, env, false);
                let b = self.expr(&Ty::Int, d, env, false);
                Expr::Arith(op, Box::new(a), Box::new(b))
            }
            K::SomeE => {
                let Ty::Opt(i) = t else { return self.leaf(t, env) };
                Expr::Some(Box::new(self.expr(i, d, env, false)))
            }
            K::OkE => {
                let Ty::Res(a, _) = t else { return self.leaf(t, env) };
                Expr::Ok(Box::new(self.expr(a, d, env, false)))
            }
            K::ErrE => {
                let Ty::Res(_, b) = t else { return self.leaf(t, env) };
                Expr::Err(Box::new(self.expr(b, d, env, false)))
            }
            K::SLit => {
                let Ty::Struct(n) = t else { return self.leaf(t, env) };
                if !self.makeable(t, env) {
                    return self.leaf(t, env);
                }
                let mut fs = self.prog.struct_fields(n).unwrap_or_default();
                if fs.len() > 1 && self.src.chance(40) {
                    let i = self.src.below(fs.len());
                    fs.swap(0, i);
                }
                let fields = fs.iter().map(|(f, ft)| (f.clone(), self.expr(ft, d, env, false))).collect();
                Expr::StructLit { name: n.clone(), fields, sources: vec![] }
            }
            K::Compose => {
                let Ty::Struct(n) = t else { return self.leaf(t, env) };
                let fs = self.prog.struct_fields(n).unwrap_or_default();
                // source struct types: non-empty field set strictly inside the target's
                let cands: Vec<String> = self
                    .prog
                    .structs
                    .iter()
                    .filter(|s| {
                        let sf = self.prog.struct_fields(&s.name).unwrap_or_default();
                        !sf.is_empty() && sf.iter().all(|f| fs.contains(f)) && self.makeable(&Ty::Struct(s.name.clone()), env)
                    })
                    .map(|s| s.name.clone())
                    .collect();
                if cands.is_empty() || !self.makeable(t, env) {
                    return self.build(K::SLit, t, d, env, never_ok);
                }
                let sname = cands[self.src.below(cands.len())].clone();
                let sf = self.prog.struct_fields(&sname).unwrap_or_default();
                // explicit fields: everything the source does not provide, plus possibly some it does;
                // at least one field must come from the source (a no-op composition is rejected)
                let mut explicit: Vec<(String, Ty)> = fs.iter().filter(|f| !sf.contains(f)).cloned().collect();
                for f in sf.iter().skip(1) {
                    if self.src.chance(30) {
                        explicit.push(f.clone());
                    }
                }
                let src_ty = Ty::Struct(sname);
                let existing = self.vars_of(&src_ty, env).iter().map(|v| v.name.clone()).collect::<Vec<_>>();
                if !existing.is_empty() && self.src.chance(60) {
                    let v = existing[self.src.below(existing.len())].clone();
                    let fields = explicit.iter().map(|(f, ft)| (f.clone(), self.expr(ft, d, env, false))).collect();
                    Expr::StructLit { name: n.clone(), fields, sources: vec![v] }
                } else {
                    env.enter();
                    let init = self.expr(&src_ty, d, env, false);
                    let v = env.fresh("v");
                    env.add(v.clone(), src_ty, true);
                    let fields = explicit.iter().map(|(f, ft)| (f.clone(), self.expr(ft, d, env, false))).collect();
                    env.exit();
                    Expr::Block(Box::new(Block {
                        stmts: vec![Stmt::Let(v.clone(), init)],
                        value: Expr::StructLit { name: n.clone(), fields, sources: vec![v] },
                    }))
                }
            }
            K::CastE | K::SubE => {
                let Ty::Struct(n) = t else { return self.leaf(t, env) };
                let cands: Vec<String> = self
                    .prog
                    .structs
                    .iter()
                    .filter(|s| {
                        s.name != *n
                            && self.makeable(&Ty::Struct(s.name.clone()), env)
                            && if k == K::CastE { self.same_fieldset(&s.name, n) } else { self.superset_of(&s.name, n) }
                    })
                    .map(|s| s.name.clone())
                    .collect();
                if cands.is_empty() {
                    return self.leaf(t, env);
                }
                let from = cands[self.src.below(cands.len())].clone();
                let lhs = self.expr(&Ty::Struct(from), d, env, false);
                if k == K::CastE { Expr::Cast(Box::new(lhs), n.clone()) } else { Expr::Substruct(Box::new(lhs), n.clone()) }
            }
            K::PoisonAnd | K::PoisonOr | K::PoisonIf | K::PoisonMatch | K::PoisonCoalesce => self.poison_expr(k, t, d, env),
        }
    }

    // ---------------------------------------------------------------- match heads

    fn scrutinee_ty(&mut self, env: &Env) -> Ty {
        for _ in 0..4 {
            let t = self.makeable_ty(2, env);
            let ok = match &t {
                Ty::Id => false,
                Ty::Struct(_) => self.litable(&t),
                _ => true,
            };
            if ok {
                return t;
            }
        }
        Ty::Int
    }

    /// An expression of an option/result type whose static type the compiler knows completely
    /// (so that variables bound by `Some(x)` / `Ok(x)` / `Err(e)` patterns get real types).
    fn solid_source(&mut self, t: &Ty, d: u32, env: &mut Env) -> Option<Expr> {
        let vars: Vec<String> = env.vars.iter().filter(|v| v.ty == *t && v.solid).map(|v| v.name.clone()).collect();
        let calls = self.callable_returning(t, env);
        let dots = self.fields_of_type(t, env);
        let arith = *t == Ty::Opt(Box::new(Ty::Int));
        let wrap = matches!(t, Ty::Opt(i) if !matches!(**i, Ty::Opt(_) | Ty::Res(..)) && self.makeable(i, env));
        let plain = |x: &Ty| !matches!(x, Ty::Opt(_) | Ty::Res(..));
        let both = matches!(t, Ty::Res(a, b) if plain(a) && plain(b) && self.makeable(a, env) && self.makeable(b, env));
        let ws = [
            u32::from(!vars.is_empty()) * 4,
            u32::from(!calls.is_empty()) * 3,
            u32::from(!dots.is_empty()) * 2,
            u32::from(arith) * 3,
            u32::from(wrap) * 2,
            u32::from(both) * 3,
        ];
        if ws.iter().sum::<u32>() == 0 {
            return None;
        }
        Some(match self.src.weighted(&ws) {
            0 => Expr::Var(vars[self.src.below(vars.len())].clone()),
            1 => self.build(K::CallF, t, d, env, false),
            2 => self.build(K::DotF, t, d, env, false),
            3 => self.build(K::Checked, t, d, env, false),
            5 => {
                // `if c { :Ok(x) } else { :Err(y) }` has the full result type
                let Ty::Res(a, b) = t else { return None };
                let c = self.expr(&Ty::Bool, d.min(2), env, false);
                let mut side = |me: &mut Self, st: &Ty| match st {
                    Ty::Struct(_) => me.build(K::SLit, st, 1, env, false),
                    st => {
                        let vs: Vec<String> = env.vars.iter().filter(|v| v.ty == *st && v.solid).map(|v| v.name.clone()).collect();
                        if !vs.is_empty() && me.src.chance(60) { Expr::Var(vs[me.src.below(vs.len())].clone()) } else { me.lit(st, env) }
                    }
                };
                let x = side(self, a);
                let y = side(self, b);
                Expr::If(
                    Box::new(c),
                    Box::new(Block { stmts: vec![], value: Expr::Ok(Box::new(x)) }),
                    Box::new(Block { stmts: vec![], value: Expr::Err(Box::new(y)) }),
                )
            }
            _ => {
                let Ty::Opt(i) = t else { return None };
                let inner = match &**i {
                    Ty::Struct(_) => self.build(K::SLit, i, d, env, false),
                    it => {
                        let vs: Vec<String> = env.vars.iter().filter(|v| v.ty == *it && v.solid).map(|v| v.name.clone()).collect();
                        if !vs.is_empty() && self.src.chance(50) { Expr::Var(vs[self.src.below(vs.len())].clone()) } else { self.lit(it, env) }
                    }
                };
                Expr::Some(Box::new(inner))
            }
        })
    }

    fn distinct_lits(&mut self, t: &Ty, n: usize, env: &Env, seen: &mut Vec<Expr>) -> Vec<Expr> {
        let mut out = Vec::new();
        for _ in 0..n * 3 {
            if out.len() == n {
                break;
            }
            let e = self.lit(t, env);
            if !seen.contains(&e) && !contains_var(&e) {
                seen.push(e.clone());
                out.push(e);
            }
        }
        out
    }

    /// Scrutinee expression and arm patterns (with the variable each arm binds, if any) for a
    /// match on a value of type `st`. The patterns are exhaustive by the language's rules.
    #[allow(clippy::type_complexity)]
    fn match_head(&mut self, st: &Ty, d: u32, env: &mut Env) -> (Expr, Vec<(Pat, Option<(String, Ty)>)>) {
        let lenv = self.empty_env(Ctx::Function);
        let mut seen: Vec<Expr> = Vec::new();
        let mut bias: Vec<Expr> = Vec::new();
        let mut arms: Vec<(Pat, Option<(String, Ty)>)> = Vec::new();
        let mut scrut: Option<Expr> = None;
        match st {
            Ty::Bool => match self.src.below(4) {
                0 => {
                    let first = self.src.chance(50);
                    arms.push((Pat::Vals(vec![PatVal::Lit(Expr::Bool(first))]), None));
                    arms.push((Pat::Vals(vec![PatVal::Lit(Expr::Bool(!first))]), None));
                }
                1 => {
                    arms.push((Pat::Vals(vec![PatVal::Lit(Expr::Bool(self.src.chance(50)))]), None));
                    arms.push((Pat::Default, None));
                }
                2 => arms.push((Pat::Vals(vec![PatVal::Lit(Expr::Bool(true)), PatVal::Lit(Expr::Bool(false))]), None)),
                _ => {
                    arms.push((Pat::Vals(vec![PatVal::Lit(Expr::Bool(false))]), None));
                    arms.push((Pat::Vals(vec![PatVal::Lit(Expr::Bool(true))]), None));
                    arms.push((Pat::Default, None));
                }
            },
            Ty::Enum(n) => {
                let vs = self.prog.enums.iter().find(|e| e.name == *n).map(|e| e.variants.clone()).unwrap_or_default();
                let take = 1 + self.src.below(vs.len());
                let mut rest: Vec<String> = vs.clone();
                let mut covered = 0;
                while covered < take && !rest.is_empty() {
                    let k = (1 + self.src.below(2)).min(rest.len()).min(take - covered);
                    let mut vals = Vec::new();
                    for _ in 0..k {
                        let i = self.src.below(rest.len());
                        vals.push(PatVal::Lit(Expr::EnumRef(n.clone(), rest.remove(i))));
                    }
                    covered += k;
                    arms.push((Pat::Vals(vals), None));
                }
                if !rest.is_empty() || self.src.chance(20) {
                    arms.push((Pat::Default, None));
                }
            }
            Ty::Opt(inner) => {
                let src = self.solid_source(st, d, env);
                let can_bind = src.is_some();
                scrut = src;
                if self.litable(inner) && self.makeable(inner, &lenv) && self.src.chance(40) {
                    let k = 1 + self.src.below(2);
                    let lits = self.distinct_lits(inner, k, &lenv, &mut seen);
                    if !lits.is_empty() {
                        let vals = lits.into_iter().map(|l| PatVal::Lit(Expr::Some(Box::new(l)))).collect();
                        arms.push((Pat::Vals(vals), None));
                    }
                }
                let b = env.fresh("b");
                let some_arm = (Pat::Vals(vec![PatVal::SomeBind(b.clone())]), Some((b, (**inner).clone())));
                let none_arm = (Pat::Vals(vec![PatVal::Lit(Expr::None)]), None);
                match (can_bind, self.src.below(4)) {
                    (true, 0) => {
                        arms.push(some_arm);
                        arms.push(none_arm);
                    }
                    (true, 1) => {
                        arms.push(none_arm);
                        arms.push(some_arm);
                    }
                    (true, 2) => {
                        arms.push(some_arm);
                        arms.push((Pat::Default, None));
                    }
                    _ => {
                        arms.push(none_arm);
                        arms.push((Pat::Default, None));
                    }
                }
            }
            Ty::Res(a, b) => {
                let src = self.solid_source(st, d, env);
                let can_bind = src.is_some();
                scrut = src;
                for (is_ok, side) in [(true, a), (false, b)] {
                    if self.litable(side) && self.makeable(side, &lenv) && self.src.chance(35) {
                        let k = 1 + self.src.below(2);
                        let mut s2 = Vec::new();
                        let lits = self.distinct_lits(side, k, &lenv, &mut s2);
                        if !lits.is_empty() {
                            let vals = lits
                                .into_iter()
                                .map(|l| PatVal::Lit(if is_ok { Expr::Ok(Box::new(l)) } else { Expr::Err(Box::new(l)) }))
                                .collect();
                            arms.push((Pat::Vals(vals), None));
                        }
                    }
                }
                let bo = env.fresh("b");
                let be = env.fresh("b");
                let ok_arm = (Pat::Vals(vec![PatVal::OkBind(bo.clone())]), Some((bo, (**a).clone())));
                let err_arm = (Pat::Vals(vec![PatVal::ErrBind(be.clone())]), Some((be, (**b).clone())));
                match (can_bind, self.src.below(5)) {
                    (true, 0) => {
                        arms.push(ok_arm);
                        arms.push(err_arm);
                    }
                    (true, 1) => {
                        arms.push(err_arm);
                        arms.push(ok_arm);
                    }
                    (true, 2) => {
                        arms.push(ok_arm);
                        arms.push((Pat::Default, None));
                    }
                    (true, 3) => {
                        arms.push(err_arm);
                        arms.push((Pat::Default, None));
                    }
                    _ => arms.push((Pat::Default, None)),
                }
                if arms.len() == 1 {
                    // a lone default arm is legal but dull: put a literal arm in front when possible
                    for (is_ok, side) in [(true, a), (false, b)] {
                        if arms.len() == 1 && self.litable(side) && self.makeable(side, &lenv) {
                            let l = self.lit(side, &lenv);
                            let l = if is_ok { Expr::Ok(Box::new(l)) } else { Expr::Err(Box::new(l)) };
                            arms.insert(0, (Pat::Vals(vec![PatVal::Lit(l)]), None));
                        }
                    }
                }
            }
            // Int, Str, Struct: literal arms and a default
            other => {
                let n_arms = 1 + self.src.below(3);
                for _ in 0..n_arms {
                    let k = 1 + self.src.below(2);
                    let lits = self.distinct_lits(other, k, &lenv, &mut seen);
                    if !lits.is_empty() {
                        bias.extend(lits.iter().cloned());
                        arms.push((Pat::Vals(lits.into_iter().map(PatVal::Lit).collect()), None));
                    }
                }
                arms.push((Pat::Default, None));
            }
        }
        let scrut = match scrut {
            Some(s) => s,
            None => {
                // bias the scrutinee towards values the literal arms mention
                if !bias.is_empty() && self.src.chance(30) {
                    bias[self.src.below(bias.len())].clone()
                } else {
                    self.expr(st, d, env, false)
                }
            }
        };
        (scrut, arms)
    }
}

fn contains_var(e: &Expr) -> bool {
    match e {
        Expr::Var(_) | Expr::Todo => true,
        Expr::Some(x) | Expr::Ok(x) | Expr::Err(x) => contains_var(x),
        Expr::StructLit { fields, .. } => fields.iter().any(|(_, x)| contains_var(x)),
        _ => false,
    }
}

