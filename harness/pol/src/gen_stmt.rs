// Statement / function / poison generation (included into pgen.rs).

impl Gen {
    /// `let` or `debug_assert` or `check` — statements that do not nest blocks.
    fn simple_stmt(&mut self, d: u32, env: &mut Env) -> Stmt {
        match self.src.weighted(&[6, 1, 2]) {
            0 => self.let_stmt(d, env),
            1 => Stmt::DebugAssert(self.expr(&Ty::Bool, d.min(2), env, false)),
            _ => self.check_stmt(d, env),
        }
    }

    fn let_stmt(&mut self, d: u32, env: &mut Env) -> Stmt {
        let t = self.makeable_ty(2, env);
        let e = self.expr(&t, d, env, false);
        let s = solid(&e, env);
        let n = env.fresh("v");
        env.add(n.clone(), t, s);
        Stmt::Let(n, e)
    }

    /// The terminal expression of a `check … else …`.
    fn check_else(&mut self, d: u32, env: &mut Env) -> Expr {
        match env.ctx {
            Ctx::Function => match (&env.ret, self.src.chance(75)) {
                (Some(rt), true) => {
                    let rt = rt.clone();
                    Expr::Return(Box::new(self.expr(&rt, d.min(2), env, false)))
                }
                _ => Expr::Todo,
            },
            Ctx::Policy => {
                if !env.recalls.is_empty() && self.src.chance(80) {
                    let (n, args) = self.recall_call(d, env);
                    Expr::Recall(n, args)
                } else {
                    Expr::Todo
                }
            }
            Ctx::Recall | Ctx::Action => Expr::Todo,
        }
    }

    fn recall_call(&mut self, d: u32, env: &mut Env) -> (String, Vec<Expr>) {
        let i = self.src.below(env.recalls.len());
        let (n, tys) = env.recalls[i].clone();
        let args = tys.iter().map(|t| self.expr(t, d.min(2), env, false)).collect();
        (n, args)
    }

    fn check_stmt(&mut self, d: u32, env: &mut Env) -> Stmt {
        let c = self.expr(&Ty::Bool, d, env, false);
        let e = self.check_else(d, env);
        Stmt::Check(c, e)
    }

    /// A statement list for a nested block of a function / action body. `may_return`: the block
    /// may end with `return`.
    fn block_stmts(&mut self, d: u32, env: &mut Env, may_return: bool) -> Vec<Stmt> {
        env.enter();
        let n = self.src.below(3);
        let mut out = Vec::new();
        for _ in 0..n {
            let s = self.stmt(d, env, may_return);
            out.push(s);
        }
        if may_return && self.src.chance(35) {
            if let Some(rt) = env.ret.clone() {
                out.push(Stmt::Return(self.expr(&rt, d, env, false)));
            }
        }
        env.exit();
        out
    }

    fn stmt(&mut self, d: u32, env: &mut Env, may_return: bool) -> Stmt {
        if d == 0 || self.budget <= 0 {
            return self.let_stmt(0, env);
        }
        let mut ws = vec![6, 2, 1, 3, 3];
        if self.cfg.poison {
            ws.extend([4, 3, 3]);
        }
        match self.src.weighted(&ws) {
            0 => self.let_stmt(d, env),
            1 => self.check_stmt(d, env),
            2 => Stmt::DebugAssert(self.expr(&Ty::Bool, d.min(2), env, false)),
            3 => {
                let nb = 1 + self.src.below(2);
                let mut branches = Vec::new();
                for _ in 0..nb {
                    let c = self.expr(&Ty::Bool, d - 1, env, false);
                    let b = self.block_stmts(d - 1, env, may_return);
                    branches.push((c, b));
                }
                let fallback = if self.src.chance(50) { Some(self.block_stmts(d - 1, env, may_return)) } else { None };
                Stmt::If(branches, fallback)
            }
            4 => {
                let st = self.scrutinee_ty(env);
                let (scrut, arms) = self.match_head(&st, d - 1, env);
                let mut out = Vec::new();
                for (p, bind) in arms {
                    env.enter();
                    if let Some((n, bt)) = bind {
                        env.add(n, bt, true);
                    }
                    let body = self.block_stmts(d - 1, env, may_return);
                    env.exit();
                    out.push((p, body));
                }
                Stmt::Match(scrut, out)
            }
            5 => self.poison_if_stmt(d, env, may_return),
            6 => self.poison_match_stmt(d, env, may_return),
            _ => {
                // `check <true> else <poison>`
                let g = self.const_guard(true, env);
                self.planted.push("check_else".into());
                let p = self.poison_never(env);
                Stmt::Check(g, p)
            }
        }
    }

    pub fn gen_function(&mut self, idx: usize) {
        let np = self.src.below(4);
        let mut env = self.empty_env(Ctx::Function);
        env.callable = idx;
        let mut params = Vec::new();
        for i in 0..np {
            let t = self.ty(2);
            let n = format!("p{i}");
            env.add(n.clone(), t.clone(), true);
            params.push((n, t));
        }
        let ret = self.makeable_ty(2, &env);
        env.ret = Some(ret.clone());
        self.budget = 60;
        let d = self.cfg.depth;
        let n = self.src.below(5);
        let mut body = Vec::new();
        for _ in 0..n {
            let s = self.stmt(d, &mut env, true);
            body.push(s);
        }
        let has_return = format!("{body:?}").contains("Return(");
        if !(has_return && self.src.chance(8)) {
            self.budget = self.budget.max(25);
            body.push(Stmt::Return(self.expr(&ret, d, &mut env, false)));
        }
        if self.cfg.poison && self.planted.is_empty() {
            // guarantee at least one planted poison per program
            if !matches!(body.last(), Some(Stmt::Return(_))) {
                // goes in front of every `let` of the body: the guard may only mention globals
                let genv = self.empty_env(Ctx::Function);
                let g = self.const_guard(false, &genv);
                self.planted.push("if_stmt".into());
                let p = vec![Stmt::Check(Expr::Bool(false), Expr::Todo)];
                body.insert(0, Stmt::If(vec![(g, p)], None));
            } else if let Some(Stmt::Return(e)) = body.pop() {
                let g = self.const_guard(true, &env);
                self.planted.push("if_expr".into());
                let p = self.poison_value(&ret, &mut env);
                body.push(Stmt::Return(Expr::If(
                    Box::new(g),
                    Box::new(Block { stmts: vec![], value: e }),
                    Box::new(Block { stmts: vec![], value: p }),
                )));
            }
        }
        self.prog.funcs.push(Func { name: format!("fn{idx}"), params, ret, body });
    }

    // ---------------------------------------------------------------- poison (C23)

    /// A boolean expression whose value is `want` for every input, by construction.
    fn const_guard(&mut self, want: bool, env: &Env) -> Expr {
        let ints: Vec<String> = env.vars.iter().filter(|v| v.ty == Ty::Int).map(|v| v.name.clone()).collect();
        let anyv: Vec<String> = env.vars.iter().filter(|v| v.name != "envelope").map(|v| v.name.clone()).collect();
        let t = match self.src.below(7) {
            0 => Expr::Bool(true),
            1 => Expr::Not(Box::new(Expr::Bool(false))),
            2 => {
                let k = self.int_lit();
                Expr::Bin(BinOp::Eq, Box::new(Expr::Int(k)), Box::new(Expr::Int(k)))
            }
            3 if !anyv.is_empty() => {
                let v = anyv[self.src.below(anyv.len())].clone();
                Expr::Bin(BinOp::Eq, Box::new(Expr::Var(v.clone())), Box::new(Expr::Var(v)))
            }
            4 if !ints.is_empty() => {
                let v = ints[self.src.below(ints.len())].clone();
                Expr::Bin(BinOp::Le, Box::new(Expr::Var(v)), Box::new(Expr::Int(i64::MAX)))
            }
            5 => Expr::Is(Box::new(Expr::Some(Box::new(Expr::Int(0)))), true),
            6 if !ints.is_empty() => {
                // saturating_add(x, 0) == x
                let v = ints[self.src.below(ints.len())].clone();
                Expr::Bin(
                    BinOp::Eq,
                    Box::new(Expr::Arith(Arith::SatAdd, Box::new(Expr::Var(v.clone())), Box::new(Expr::Int(0)))),
                    Box::new(Expr::Var(v)),
                )
            }
            _ => Expr::Bin(BinOp::Lt, Box::new(Expr::Int(i64::MIN)), Box::new(Expr::Int(0))),
        };
        if want {
            t
        } else {
            match (&t, self.src.chance(50)) {
                (Expr::Bin(BinOp::Eq, a, b), true) => Expr::Bin(BinOp::Ne, a.clone(), b.clone()),
                (Expr::Bool(true), true) => Expr::Bool(false),
                _ => Expr::Not(Box::new(t)),
            }
        }
    }

    fn next_poison(&mut self) -> i64 {
        self.poison_seq += 1;
        crate::vmrun::POISON_TICK + self.poison_seq
    }

    /// A never-typed poison expression (for `check … else`).
    fn poison_never(&mut self, env: &Env) -> Expr {
        let _ = env;
        Expr::Todo
    }

    /// A poison expression of type `t`: evaluating it panics, fails a check, returns early with a
    /// marker, or logs a foreign call with a poison number.
    fn poison_value(&mut self, t: &Ty, env: &mut Env) -> Expr {
        let can_lit = self.makeable(t, env);
        let w_ffi_direct = u32::from(matches!(t, Ty::Int | Ty::Bool));
        match self.src.weighted(&[3, u32::from(can_lit) * 3, u32::from(can_lit) * 3, w_ffi_direct * 3, u32::from(can_lit) * 2]) {
            0 => Expr::Todo,
            1 => {
                // failing check
                let g = self.const_guard(false, env);
                let value = self.lit(t, env);
                Expr::Block(Box::new(Block { stmts: vec![Stmt::Check(g, Expr::Todo)], value }))
            }
            2 => {
                let n = self.next_poison();
                let value = self.lit(t, env);
                let z = env.fresh("z");
                env.next -= 1; // block-local name, released again
                Expr::Block(Box::new(Block {
                    stmts: vec![Stmt::Let(z, Expr::Ffi("tick".into(), vec![Expr::Int(n)]))],
                    value,
                }))
            }
            3 => {
                let n = self.next_poison();
                Expr::Ffi(if *t == Ty::Int { "tick".into() } else { "flag".into() }, vec![Expr::Int(n)])
            }
            _ => {
                let value = self.lit(t, env);
                Expr::Block(Box::new(Block { stmts: vec![Stmt::DebugAssert(self.const_guard(false, env))], value }))
            }
        }
    }

    fn poison_stmts(&mut self, env: &mut Env) -> Vec<Stmt> {
        env.enter();
        let z = env.fresh("z");
        let s = match self.src.below(5) {
            0 => Stmt::Let(z, Expr::Todo),
            1 => Stmt::Check(self.const_guard(false, env), Expr::Todo),
            2 => {
                let n = self.next_poison();
                Stmt::Let(z, Expr::Ffi("tick".into(), vec![Expr::Int(n)]))
            }
            3 => Stmt::DebugAssert(self.const_guard(false, env)),
            _ => match env.ret.clone() {
                Some(rt) if self.makeable(&rt, env) => Stmt::Return(self.lit(&rt, env)),
                _ => Stmt::Let(z, Expr::Todo),
            },
        };
        env.exit();
        vec![s]
    }

    fn poison_expr(&mut self, k: K, t: &Ty, d: u32, env: &mut Env) -> Expr {
        match k {
            K::PoisonAnd => {
                self.planted.push("and_rhs".into());
                let g = if self.src.chance(50) {
                    self.const_guard(false, env)
                } else {
                    // (real && false-guard): still false, with a real left operand in front
                    let r = self.expr(&Ty::Bool, d, env, false);
                    Expr::Bin(BinOp::And, Box::new(r), Box::new(self.const_guard(false, env)))
                };
                let p = self.poison_value(&Ty::Bool, env);
                Expr::Bin(BinOp::And, Box::new(g), Box::new(p))
            }
            K::PoisonOr => {
                self.planted.push("or_rhs".into());
                let g = self.const_guard(true, env);
                let p = self.poison_value(&Ty::Bool, env);
                Expr::Bin(BinOp::Or, Box::new(g), Box::new(p))
            }
            K::PoisonIf => {
                self.planted.push("if_expr".into());
                let taken_first = self.src.chance(50);
                let g = self.const_guard(taken_first, env);
                let real = self.block_of(t, d, env, false);
                env.enter();
                let pv = self.poison_value(t, env);
                env.exit();
                let pb = Block { stmts: vec![], value: pv };
                if taken_first {
                    Expr::If(Box::new(g), Box::new(real), Box::new(pb))
                } else {
                    Expr::If(Box::new(g), Box::new(pb), Box::new(real))
                }
            }
            K::PoisonCoalesce => {
                self.planted.push("coalesce_rhs".into());
                if !self.makeable(t, env) {
                    return self.leaf(t, env);
                }
                let inner = self.expr(t, d, env, false);
                let lhs = if *t == Ty::Int && self.src.chance(30) {
                    // add(x, 0) is always Some
                    Expr::Arith(Arith::Add, Box::new(inner), Box::new(Expr::Int(0)))
                } else {
                    Expr::Some(Box::new(inner))
                };
                let p = self.poison_value(t, env);
                Expr::Coalesce(Box::new(lhs), Box::new(p))
            }
            _ => {
                // match on a known scrutinee: only the matching arm is real
                self.planted.push("match_expr".into());
                let (scrut, pats, hit) = self.known_match(env);
                let mut arms = Vec::new();
                for (i, p) in pats.into_iter().enumerate() {
                    env.enter();
                    let body = if i == hit { self.expr(t, d, env, false) } else { self.poison_value(t, env) };
                    env.exit();
                    arms.push((p, body));
                }
                Expr::Match(Box::new(scrut), arms)
            }
        }
    }

    /// A scrutinee with a known value, arm patterns, and the index of the arm that is taken.
    fn known_match(&mut self, env: &Env) -> (Expr, Vec<Pat>, usize) {
        let _ = env;
        let lit = |e: Expr| Pat::Vals(vec![PatVal::Lit(e)]);
        match self.src.below(5) {
            0 => {
                let k = INTS[self.src.below(4)];
                let other = INTS[4 + self.src.below(4)];
                match self.src.below(3) {
                    0 => (Expr::Int(k), vec![lit(Expr::Int(k)), lit(Expr::Int(other)), Pat::Default], 0),
                    1 => (Expr::Int(k), vec![lit(Expr::Int(other)), lit(Expr::Int(k)), Pat::Default], 1),
                    _ => (Expr::Int(77), vec![lit(Expr::Int(other)), lit(Expr::Int(k)), Pat::Default], 2),
                }
            }
            1 => {
                let b = self.src.chance(50);
                if self.src.chance(50) {
                    (Expr::Bool(b), vec![lit(Expr::Bool(true)), lit(Expr::Bool(false))], usize::from(!b))
                } else {
                    (Expr::Bool(b), vec![lit(Expr::Bool(!b)), Pat::Default], 1)
                }
            }
            2 => {
                // Some(k): literal arm, None arm, default
                let s = Expr::Some(Box::new(Expr::Int(5)));
                match self.src.below(3) {
                    0 => (s.clone(), vec![lit(s), lit(Expr::None), Pat::Default], 0),
                    1 => (Expr::None, vec![lit(s), lit(Expr::None), Pat::Default], 1),
                    _ => (Expr::Some(Box::new(Expr::Int(6))), vec![lit(s), lit(Expr::None), Pat::Default], 2),
                }
            }
            3 if !self.prog.enums.is_empty() => {
                let e = self.prog.enums[self.src.below(self.prog.enums.len())].clone();
                let hit = self.src.below(e.variants.len());
                let pats: Vec<Pat> = e.variants.iter().map(|v| lit(Expr::EnumRef(e.name.clone(), v.clone()))).collect();
                (Expr::EnumRef(e.name.clone(), e.variants[hit].clone()), pats, hit)
            }
            _ => {
                let s = STRS[1 + self.src.below(3)].to_string();
                (Expr::Str(s.clone()), vec![lit(Expr::Str("zz".into())), lit(Expr::Str(s)), Pat::Default], 1)
            }
        }
    }

    fn poison_if_stmt(&mut self, d: u32, env: &mut Env, may_return: bool) -> Stmt {
        self.planted.push("if_stmt".into());
        match self.src.below(3) {
            0 => {
                // if <false> { poison }
                let g = self.const_guard(false, env);
                let p = self.poison_stmts(env);
                Stmt::If(vec![(g, p)], None)
            }
            1 => {
                // if <true> { real } else { poison }
                let g = self.const_guard(true, env);
                let real = self.block_stmts(d - 1, env, may_return);
                let p = self.poison_stmts(env);
                Stmt::If(vec![(g, real)], Some(p))
            }
            _ => {
                // if <false> { poison } else if <true> { real } else { poison }
                let g1 = self.const_guard(false, env);
                let p1 = self.poison_stmts(env);
                let g2 = self.const_guard(true, env);
                let real = self.block_stmts(d - 1, env, may_return);
                let p2 = self.poison_stmts(env);
                Stmt::If(vec![(g1, p1), (g2, real)], Some(p2))
            }
        }
    }

    fn poison_match_stmt(&mut self, d: u32, env: &mut Env, may_return: bool) -> Stmt {
        self.planted.push("match_stmt".into());
        let (scrut, pats, hit) = self.known_match(env);
        let mut arms = Vec::new();
        for (i, p) in pats.into_iter().enumerate() {
            let body = if i == hit { self.block_stmts(d - 1, env, may_return) } else { self.poison_stmts(env) };
            arms.push((p, body));
        }
        Stmt::Match(scrut, arms)
    }
}
