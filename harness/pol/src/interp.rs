//! Big-step reference interpreter over the harness AST, written from the language semantics:
//! strict left-to-right evaluation, short-circuit `&&` / `||` / `or`, lexical block scopes
//! without shadowing, checked arithmetic yielding optionals, saturating arithmetic, structural
//! equality, first-matching-arm `match`, `return` leaving the function, `todo()` /
//! failed `debug_assert` / falling off the end of a function stopping with a panic.
use std::collections::BTreeMap;

use serde::{Deserialize, Serialize};

use crate::ast::*;

#[derive(Clone, Debug, PartialEq, Eq, Serialize, Deserialize)]
pub enum Val {
    Int(i64),
    Bool(bool),
    Str(String),
    /// 32 copies of this byte
    Id(u8),
    /// enum name, variant name
    Enum(String, String),
    Struct(String, BTreeMap<String, Val>),
    Opt(Option<Box<Val>>),
    Res(Result<Box<Val>, Box<Val>>),
}

#[derive(Clone, Debug, PartialEq)]
pub enum Stop {
    Return(Val),
    Panic,
    /// `recall name(args)`: leaves the policy block for the recall block
    Recall(String, Vec<Val>),
    /// The model cannot give this program a meaning (it is not well-typed).
    Stuck(String),
}

type R<T> = Result<T, Stop>;

fn stuck<T>(s: impl Into<String>) -> R<T> {
    Err(Stop::Stuck(s.into()))
}

#[derive(Default)]
pub struct Scope {
    frames: Vec<BTreeMap<String, Val>>,
}

impl Scope {
    pub fn new() -> Self {
        Scope { frames: vec![BTreeMap::new()] }
    }
    fn get(&self, n: &str) -> Option<&Val> {
        self.frames.iter().rev().find_map(|f| f.get(n))
    }
    fn push(&mut self) {
        self.frames.push(BTreeMap::new());
    }
    fn pop(&mut self) {
        self.frames.pop();
    }
}

pub struct Interp<'a> {
    pub prog: &'a Prog,
    pub globals: BTreeMap<String, Val>,
    /// foreign-call trace: (procedure index, argument)
    pub ffi: Vec<(usize, i64)>,
}

/// Outcome of running a function in the model.
#[derive(Clone, Debug, PartialEq)]
pub enum Outcome {
    Value(Val),
    Panic,
    Stuck(String),
}

impl<'a> Interp<'a> {
    pub fn new(prog: &'a Prog) -> Result<Self, String> {
        let mut it = Interp { prog, globals: BTreeMap::new(), ffi: Vec::new() };
        for (n, e) in &prog.globals {
            let mut sc = Scope::new();
            match it.eval(e, &mut sc) {
                Ok(v) => {
                    it.globals.insert(n.clone(), v);
                }
                Err(s) => return Err(format!("global {n}: {s:?}")),
            }
        }
        Ok(it)
    }

    pub fn run_function(&mut self, name: &str, args: &[Val]) -> Outcome {
        self.ffi.clear();
        match self.call(name, args.to_vec()) {
            Ok(v) => Outcome::Value(v),
            Err(Stop::Panic) => Outcome::Panic,
            Err(Stop::Stuck(s)) => Outcome::Stuck(s),
            Err(Stop::Return(_)) => Outcome::Stuck("return escaped".into()),
            Err(Stop::Recall(..)) => Outcome::Stuck("recall in a function".into()),
        }
    }

    fn call(&mut self, name: &str, args: Vec<Val>) -> R<Val> {
        let Some(f) = self.prog.func(name) else { return stuck(format!("no function {name}")) };
        if f.params.len() != args.len() {
            return stuck("arity");
        }
        let mut sc = Scope::new();
        for ((n, _), v) in f.params.iter().zip(args) {
            self.bind(&mut sc, n, v)?;
        }
        match self.exec_block(&f.body, &mut sc) {
            // running off the end of a function body is a panic
            Ok(()) => Err(Stop::Panic),
            Err(Stop::Return(v)) => Ok(v),
            Err(e) => Err(e),
        }
    }

    fn bind(&mut self, sc: &mut Scope, n: &str, v: Val) -> R<()> {
        if self.globals.contains_key(n) || sc.get(n).is_some() {
            return stuck(format!("{n} redefined"));
        }
        sc.frames.last_mut().expect("frame").insert(n.to_string(), v);
        Ok(())
    }

    pub fn exec_block(&mut self, stmts: &[Stmt], sc: &mut Scope) -> R<()> {
        for s in stmts {
            self.exec(s, sc)?;
        }
        Ok(())
    }

    fn scoped<T>(&mut self, sc: &mut Scope, f: impl FnOnce(&mut Self, &mut Scope) -> R<T>) -> R<T> {
        sc.push();
        let r = f(self, sc);
        sc.pop();
        r
    }

    fn truth(&mut self, e: &Expr, sc: &mut Scope) -> R<bool> {
        match self.eval(e, sc)? {
            Val::Bool(b) => Ok(b),
            v => stuck(format!("bool expected, got {v:?}")),
        }
    }

    fn int(&mut self, e: &Expr, sc: &mut Scope) -> R<i64> {
        match self.eval(e, sc)? {
            Val::Int(b) => Ok(b),
            v => stuck(format!("int expected, got {v:?}")),
        }
    }

    fn exec(&mut self, s: &Stmt, sc: &mut Scope) -> R<()> {
        match s {
            Stmt::Let(n, e) => {
                let v = self.eval(e, sc)?;
                self.bind(sc, n, v)
            }
            Stmt::Check(c, e) => {
                if self.truth(c, sc)? {
                    Ok(())
                } else {
                    self.eval(e, sc)?;
                    stuck("check else expression did not leave")
                }
            }
            Stmt::If(branches, fallback) => {
                for (c, b) in branches {
                    if self.truth(c, sc)? {
                        return self.scoped(sc, |me, sc| me.exec_block(b, sc));
                    }
                }
                if let Some(b) = fallback {
                    return self.scoped(sc, |me, sc| me.exec_block(b, sc));
                }
                Ok(())
            }
            Stmt::Match(e, arms) => {
                let v = self.eval(e, sc)?;
                for (p, body) in arms {
                    if let Some(binding) = self.pat_matches(p, &v, sc)? {
                        return self.scoped(sc, |me, sc| {
                            if let Some((n, bv)) = binding {
                                me.bind(sc, &n, bv)?;
                            }
                            me.exec_block(body, sc)
                        });
                    }
                }
                stuck("no match arm")
            }
            Stmt::Return(e) => {
                let v = self.eval(e, sc)?;
                Err(Stop::Return(v))
            }
            Stmt::DebugAssert(e) => {
                if self.truth(e, sc)? {
                    Ok(())
                } else {
                    Err(Stop::Panic)
                }
            }
            Stmt::Recall(n, args) => {
                let mut vs = Vec::new();
                for a in args {
                    vs.push(self.eval(a, sc)?);
                }
                Err(Stop::Recall(n.clone(), vs))
            }
            other => stuck(format!("statement not modelled: {other:?}")),
        }
    }

    /// `None` = no match; `Some(None)` = match without binding; `Some(Some((name, value)))`.
    #[allow(clippy::type_complexity)]
    fn pat_matches(&mut self, p: &Pat, v: &Val, sc: &mut Scope) -> R<Option<Option<(String, Val)>>> {
        match p {
            Pat::Default => Ok(Some(None)),
            Pat::Vals(vals) => {
                for pv in vals {
                    match pv {
                        PatVal::Lit(e) => {
                            let lv = self.eval(e, sc)?;
                            if lv == *v {
                                return Ok(Some(None));
                            }
                        }
                        PatVal::SomeBind(n) => {
                            if let Val::Opt(Some(inner)) = v {
                                return Ok(Some(Some((n.clone(), (**inner).clone()))));
                            }
                        }
                        PatVal::OkBind(n) => {
                            if let Val::Res(Ok(inner)) = v {
                                return Ok(Some(Some((n.clone(), (**inner).clone()))));
                            }
                        }
                        PatVal::ErrBind(n) => {
                            if let Val::Res(Err(inner)) = v {
                                return Ok(Some(Some((n.clone(), (**inner).clone()))));
                            }
                        }
                    }
                }
                Ok(None)
            }
        }
    }

    fn eval_block(&mut self, b: &Block, sc: &mut Scope) -> R<Val> {
        self.scoped(sc, |me, sc| {
            me.exec_block(&b.stmts, sc)?;
            me.eval(&b.value, sc)
        })
    }

    pub fn eval(&mut self, e: &Expr, sc: &mut Scope) -> R<Val> {
        Ok(match e {
            Expr::Int(n) => Val::Int(*n),
            Expr::Bool(b) => Val::Bool(*b),
            Expr::Str(s) => Val::Str(s.clone()),
            Expr::EnumRef(a, b) => {
                let Some(d) = self.prog.enums.iter().find(|d| d.name == *a) else { return stuck("no enum") };
                if !d.variants.contains(b) {
                    return stuck("no variant");
                }
                Val::Enum(a.clone(), b.clone())
            }
            Expr::None => Val::Opt(None),
            Expr::Some(x) => Val::Opt(Some(Box::new(self.eval(x, sc)?))),
            Expr::Ok(x) => Val::Res(Ok(Box::new(self.eval(x, sc)?))),
            Expr::Err(x) => Val::Res(Err(Box::new(self.eval(x, sc)?))),
            Expr::StructLit { name, fields, sources } => {
                let Some(def) = self.prog.struct_fields(name) else { return stuck("no struct") };
                let mut m = BTreeMap::new();
                for (n, x) in fields {
                    if !def.iter().any(|(d, _)| d == n) {
                        return stuck(format!("no field {n} in {name}"));
                    }
                    let v = self.eval(x, sc)?;
                    if m.insert(n.clone(), v).is_some() {
                        return stuck("duplicate field");
                    }
                }
                for s in sources {
                    let Some(sv) = sc.get(s).cloned().or_else(|| self.globals.get(s).cloned()) else {
                        return stuck(format!("no source {s}"));
                    };
                    let Val::Struct(_, sf) = sv else { return stuck("source is not a struct") };
                    for (n, v) in sf {
                        if fields.iter().any(|(f, _)| *f == n) {
                            continue;
                        }
                        if !def.iter().any(|(d, _)| *d == n) {
                            return stuck("source field not in target");
                        }
                        if m.insert(n, v).is_some() {
                            return stuck("field from two sources");
                        }
                    }
                }
                if m.len() != def.len() {
                    return stuck(format!("struct literal {name} does not set every field"));
                }
                Val::Struct(name.clone(), m)
            }
            Expr::Var(n) => match sc.get(n).or_else(|| self.globals.get(n)) {
                Some(v) => v.clone(),
                None => return stuck(format!("unbound {n}")),
            },
            Expr::Not(x) => Val::Bool(!self.truth(x, sc)?),
            Expr::Bin(op, a, b) => match op {
                BinOp::And => Val::Bool(if self.truth(a, sc)? { self.truth(b, sc)? } else { false }),
                BinOp::Or => Val::Bool(if self.truth(a, sc)? { true } else { self.truth(b, sc)? }),
                BinOp::Eq => {
                    let x = self.eval(a, sc)?;
                    let y = self.eval(b, sc)?;
                    Val::Bool(x == y)
                }
                BinOp::Ne => {
                    let x = self.eval(a, sc)?;
                    let y = self.eval(b, sc)?;
                    Val::Bool(x != y)
                }
                BinOp::Lt | BinOp::Gt | BinOp::Le | BinOp::Ge => {
                    let x = self.int(a, sc)?;
                    let y = self.int(b, sc)?;
                    Val::Bool(match op {
                        BinOp::Lt => x < y,
                        BinOp::Gt => x > y,
                        BinOp::Le => x <= y,
                        _ => x >= y,
                    })
                }
            },
            Expr::Coalesce(a, b) => match self.eval(a, sc)? {
                Val::Opt(Some(v)) => *v,
                Val::Opt(None) => self.eval(b, sc)?,
                v => return stuck(format!("optional expected, got {v:?}")),
            },
            Expr::Is(x, some) => match self.eval(x, sc)? {
                Val::Opt(o) => Val::Bool(o.is_some() == *some),
                v => return stuck(format!("optional expected, got {v:?}")),
            },
            Expr::Arith(op, a, b) => {
                let x = self.int(a, sc)?;
                let y = self.int(b, sc)?;
                let wide = match op {
                    Arith::Add | Arith::SatAdd => i128::from(x) + i128::from(y),
                    Arith::Sub | Arith::SatSub => i128::from(x) - i128::from(y),
                };
                let fits = wide >= i128::from(i64::MIN) && wide <= i128::from(i64::MAX);
                match op {
                    Arith::Add | Arith::Sub => {
                        if fits {
                            Val::Opt(Some(Box::new(Val::Int(wide as i64))))
                        } else {
                            Val::Opt(None)
                        }
                    }
                    Arith::SatAdd | Arith::SatSub => {
                        if fits {
                            Val::Int(wide as i64)
                        } else if wide < 0 {
                            Val::Int(i64::MIN)
                        } else {
                            Val::Int(i64::MAX)
                        }
                    }
                }
            }
            Expr::Dot(x, f) => match self.eval(x, sc)? {
                Val::Struct(_, m) => match m.get(f) {
                    Some(v) => v.clone(),
                    None => return stuck(format!("no field {f}")),
                },
                v => return stuck(format!("struct expected, got {v:?}")),
            },
            Expr::Substruct(x, n) => {
                let Some(def) = self.prog.struct_fields(n) else { return stuck("no struct") };
                match self.eval(x, sc)? {
                    Val::Struct(_, m) => {
                        let mut out = BTreeMap::new();
                        for (f, _) in def {
                            match m.get(&f) {
                                Some(v) => {
                                    out.insert(f, v.clone());
                                }
                                None => return stuck("substruct field missing"),
                            }
                        }
                        Val::Struct(n.clone(), out)
                    }
                    v => return stuck(format!("struct expected, got {v:?}")),
                }
            }
            Expr::Cast(x, n) => {
                let Some(def) = self.prog.struct_fields(n) else { return stuck("no struct") };
                match self.eval(x, sc)? {
                    Val::Struct(_, m) => {
                        if m.len() != def.len() || def.iter().any(|(f, _)| !m.contains_key(f)) {
                            return stuck("cast between different field sets");
                        }
                        Val::Struct(n.clone(), m)
                    }
                    v => return stuck(format!("struct expected, got {v:?}")),
                }
            }
            Expr::Call(f, args) => {
                let mut vs = Vec::new();
                for a in args {
                    vs.push(self.eval(a, sc)?);
                }
                self.call(f, vs)?
            }
            Expr::Ffi(f, args) => {
                if args.len() != 1 {
                    return stuck("ffi arity");
                }
                let n = self.int(&args[0], sc)?;
                match f.as_str() {
                    "tick" => {
                        self.ffi.push((0, n));
                        Val::Int(n)
                    }
                    "flag" => {
                        self.ffi.push((1, n));
                        Val::Bool(crate::vmrun::flag_result(n))
                    }
                    _ => return stuck("unknown ffi"),
                }
            }
            Expr::If(c, t, f) => {
                if self.truth(c, sc)? {
                    self.eval_block(t, sc)?
                } else {
                    self.eval_block(f, sc)?
                }
            }
            Expr::Block(b) => self.eval_block(b, sc)?,
            Expr::Match(s, arms) => {
                let v = self.eval(s, sc)?;
                for (p, body) in arms {
                    if let Some(binding) = self.pat_matches(p, &v, sc)? {
                        return self.scoped(sc, |me, sc| {
                            if let Some((n, bv)) = binding {
                                me.bind(sc, &n, bv)?;
                            }
                            me.eval(body, sc)
                        });
                    }
                }
                return stuck("no match arm");
            }
            Expr::Todo => return Err(Stop::Panic),
            Expr::Return(x) => {
                let v = self.eval(x, sc)?;
                return Err(Stop::Return(v));
            }
            Expr::Recall(n, args) => {
                let mut vs = Vec::new();
                for a in args {
                    vs.push(self.eval(a, sc)?);
                }
                return Err(Stop::Recall(n.clone(), vs));
            }
            Expr::Exists(_) => return stuck("exists is not modelled"),
        })
    }
}
