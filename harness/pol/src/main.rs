mod ast;
mod c22;
mod c23;
mod c24;
mod c24j;
mod c28;
mod c30;
mod exec;
mod pgen;
mod interp;
mod vmrun;
mod walk;

fn main() {
    let ctx = vcommon::Ctx::from_args();
    ctx.watchdog(ctx.pick(900, 7200));
    match ctx.prop.as_str() {
        "C22" => c22::run(&ctx),
        "C23" => c23::run(&ctx),
        "C24" => c24::run(&ctx),
        "C28" => c28::run(&ctx),
        "C30" => c30::run(&ctx),
        "SHOW" => {
            // developer aid: print a few generated programs
            let n: usize = std::env::var("N").ok().and_then(|s| s.parse().ok()).unwrap_or(3);
            let mut rng = vcommon::rng_for(ctx.seed, "show");
            use proptest::strategy::{Strategy, ValueTree};
            let mut runner = proptest::test_runner::TestRunner::new_with_rng(Default::default(), rng.clone());
            let _ = &mut rng;
            let cfg = pgen::Cfg { depth: 4, poison: std::env::var("POISON").is_ok(), commands: std::env::var("CMDS").is_ok(), never: true, misplace: 0, max_funcs: 3, empty_structs: false };
            let st = c22::strategy(cfg, 600, 2);
            for _ in 0..n {
                let c = st.new_tree(&mut runner).unwrap().current();
                if std::env::var("WHY").is_ok() {
                    let text = ast::print_prog(&c.prog);
                    let Ok(m) = vmrun::compile_module(&text) else { continue };
                    let machine = vmrun::machine_of(m);
                    for (ci, cmd) in c.prog.commands.iter().enumerate() {
                        for vals in &c.inputs.cmd_fields[ci] {
                            let mut io = vmrun::io_with_facts(&c.prog, &c.inputs);
                            let mut rs = machine.create_run_state(&mut io, vmrun::policy_ctx(vmrun::ident_of(&cmd.name)));
                            let r = rs.call_command_policy(vmrun::this_struct(&c.prog, cmd, vals), vmrun::envelope());
                            println!("{r:?} :: {}", rs.source_location().unwrap_or_default().replace('\n', " ").chars().take(150).collect::<String>());
                        }
                    }
                    continue;
                }
                println!("{}\n// inputs: {:?}\n// ------", c22::text_of(&c), c.inputs);
            }
        }
        "TRY" => {
            // developer aid: FILE=<policy text> [FN=<function> ARGS='[[{"Int":1}],..]'] -> compile verdict and how each run ends
            let text = std::fs::read_to_string(std::env::var("FILE").expect("FILE")).expect("readable");
            match vmrun::compile_module(&text) {
                Err(e) => println!("REJECTED {e:?}"),
                Ok(m) => {
                    println!("ACCEPTED");
                    let machine = vmrun::machine_of(m);
                    if let (Ok(f), Ok(a)) = (std::env::var("FN"), std::env::var("ARGS")) {
                        let sets: Vec<Vec<interp::Val>> = serde_json::from_str(&a).expect("ARGS json");
                        let prog = ast::Prog::default();
                        for args in sets {
                            let mut io = vmrun::RecIo::new();
                            let out = vmrun::run_function(&machine, &mut io, &f, args.iter().map(|v| vmrun::to_vm(&prog, v)).collect());
                            println!("{args:?} -> {:?} stack {:?}", out.end, out.stack);
                        }
                    }
                }
            }
        }
        p => {
            println!("INCONCLUSIVE vh-pol does not serve {p}");
            std::process::exit(2);
        }
    }
}
