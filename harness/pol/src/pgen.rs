//! Typed program generator. A program is built deterministically from a stream of `u16`
//! choices (smaller choice = simpler construct, exhausted stream = simplest), so proptest can
//! shrink the stream while the *case* handed to the oracle is the finished, serializable AST.
use std::collections::BTreeMap;

use crate::{ast::*, interp::Val};

pub struct Src {
    data: Vec<u16>,
    pos: usize,
}

impl Src {
    pub fn new(data: Vec<u16>) -> Self {
        Src { data, pos: 0 }
    }
    pub fn next(&mut self) -> u16 {
        let v = self.data.get(self.pos).copied().unwrap_or(0);
        self.pos += 1;
        v
    }
    pub fn below(&mut self, n: usize) -> usize {
        vcommon::idx(self.next(), n)
    }
    /// true with roughly `pct` percent probability; false when the stream is exhausted.
    pub fn chance(&mut self, pct: u32) -> bool {
        let v = u32::from(self.next());
        v * 100 / 65536 >= 100 - pct.min(100)
    }
    /// index chosen proportionally to weights; 0-weights are never chosen.
    pub fn weighted(&mut self, ws: &[u32]) -> usize {
        let total: u32 = ws.iter().sum();
        if total == 0 {
            return 0;
        }
        let mut x = (u64::from(self.next()) * u64::from(total) >> 16) as u32;
        for (i, w) in ws.iter().enumerate() {
            if x < *w {
                return i;
            }
            x -= w;
        }
        ws.len() - 1
    }
}

#[derive(Clone, Debug)]
pub struct Cfg {
    pub depth: u32,
    /// plant poison in untaken positions (C23)
    pub poison: bool,
    /// generate facts / effects / commands / actions
    pub commands: bool,
    /// allow `todo()` / `return` expressions in value positions
    pub never: bool,
    /// percent chance of a misplaced finish-only statement or similar arrangement (C30)
    pub misplace: u32,
    pub max_funcs: usize,
    /// allow structs without fields
    pub empty_structs: bool,
}

#[derive(Clone, Copy, PartialEq, Eq, Debug)]
pub enum Ctx {
    Function,
    Policy,
    Recall,
    Action,
}

#[derive(Clone, Debug)]
struct VarInfo {
    name: String,
    ty: Ty,
    /// the compiler's inferred type for this variable is fully known (no `never` inside)
    solid: bool,
}

pub struct Env {
    vars: Vec<VarInfo>,
    marks: Vec<(usize, usize)>,
    next: usize,
    /// functions with index < callable may be called
    callable: usize,
    ret: Option<Ty>,
    ctx: Ctx,
    recalls: Vec<(String, Vec<Ty>)>,
}

impl Env {
    fn enter(&mut self) {
        self.marks.push((self.vars.len(), self.next));
    }
    fn exit(&mut self) {
        let (n, c) = self.marks.pop().expect("scope");
        self.vars.truncate(n);
        self.next = c;
    }
    fn fresh(&mut self, prefix: &str) -> String {
        let n = format!("{prefix}{}", self.next);
        self.next += 1;
        n
    }
    fn add(&mut self, name: String, ty: Ty, solid: bool) {
        self.vars.push(VarInfo { name, ty, solid });
    }
    fn has_id(&self) -> bool {
        self.vars.iter().any(|v| v.ty == Ty::Id)
    }
}

pub const INTS: [i64; 14] = [
    0,
    1,
    -1,
    2,
    i64::MAX,
    i64::MIN,
    i64::MAX - 1,
    i64::MIN + 1,
    42,
    -7,
    100,
    i64::MAX / 2 + 1,
    i64::MIN / 2,
    3,
];
const STRS: [&str; 8] = ["", "a", "abc", "a\"b", "back\\slash", "line\nbreak", "ünï", "x y"];

pub struct Gen {
    pub src: Src,
    pub prog: Prog,
    pub cfg: Cfg,
    budget: i32,
    poison_seq: i64,
    pub planted: Vec<String>,
}

fn has_id(t: &Ty, prog: &Prog) -> bool {
    match t {
        Ty::Id => true,
        Ty::Opt(i) => has_id(i, prog),
        Ty::Res(a, b) => has_id(a, prog) || has_id(b, prog),
        Ty::Struct(n) => prog.struct_fields(n).is_some_and(|f| f.iter().any(|(_, t)| has_id(t, prog))),
        _ => false,
    }
}

impl Gen {
    pub fn new(data: Vec<u16>, cfg: Cfg) -> Self {
        Gen { src: Src::new(data), prog: Prog::default(), cfg, budget: 0, poison_seq: 0, planted: Vec::new() }
    }

    // ---------------------------------------------------------------- types

    fn makeable(&self, t: &Ty, env: &Env) -> bool {
        match t {
            Ty::Id => env.has_id(),
            Ty::Struct(n) => self.prog.struct_fields(n).is_some_and(|fs| fs.iter().all(|(_, t)| self.makeable(t, env))),
            Ty::Opt(_) => true,
            Ty::Res(a, b) => self.makeable(a, env) || self.makeable(b, env),
            _ => true,
        }
    }

    /// a literal expression exists for every value of the type (needed for match patterns)
    fn litable(&self, t: &Ty) -> bool {
        !has_id(t, &self.prog)
    }

    fn simple_ty(&mut self) -> Ty {
        let n_enum = self.prog.enums.len();
        match self.src.weighted(&[4, 3, 2, u32::from(n_enum > 0)]) {
            0 => Ty::Int,
            1 => Ty::Bool,
            2 => Ty::Str,
            _ => Ty::Enum(self.prog.enums[self.src.below(n_enum)].name.clone()),
        }
    }

    pub fn ty(&mut self, nest: u32) -> Ty {
        let n_enum = self.prog.enums.len();
        let n_struct = self.prog.structs.len();
        let deep = u32::from(nest > 0);
        match self.src.weighted(&[5, 4, 2, u32::from(n_enum > 0) * 2, u32::from(n_struct > 0) * 3, 3 * deep, 2 * deep, 1]) {
            0 => Ty::Int,
            1 => Ty::Bool,
            2 => Ty::Str,
            3 => Ty::Enum(self.prog.enums[self.src.below(n_enum)].name.clone()),
            4 => Ty::Struct(self.prog.structs[self.src.below(n_struct)].name.clone()),
            5 => Ty::Opt(Box::new(self.ty(nest - 1))),
            6 => Ty::Res(Box::new(self.ty(nest - 1)), Box::new(self.ty(nest - 1))),
            _ => Ty::Id,
        }
    }

    fn makeable_ty(&mut self, nest: u32, env: &Env) -> Ty {
        for _ in 0..4 {
            let t = self.ty(nest);
            if self.makeable(&t, env) {
                return t;
            }
        }
        Ty::Int
    }

    // ---------------------------------------------------------------- declarations

    pub fn gen_types(&mut self) {
        let n_enum = self.src.below(3);
        for i in 0..n_enum {
            let nv = 1 + self.src.below(4);
            self.prog.enums.push(EnumDef { name: format!("E{i}"), variants: (0..nv).map(|j| format!("A{j}")).collect() });
        }
        let n_struct = self.src.below(5);
        if n_struct == 0 {
            return;
        }
        // field pool: a field name has one type in the whole program, so that structs built from
        // sub-/supersets of the pool are substruct / cast / composition compatible
        let mut pool: Vec<(String, Ty)> = Vec::new();
        for i in 0..6 {
            let t = match self.src.weighted(&[6, 2, 1]) {
                0 => self.simple_ty(),
                1 => Ty::Opt(Box::new(self.simple_ty())),
                _ => Ty::Id,
            };
            pool.push((format!("f{}", (b'a' + i as u8) as char), t));
        }
        for i in 0..n_struct {
            let name = format!("S{i}");
            let items: Vec<Item> = match (i, self.src.below(4)) {
                (0, _) | (_, 0) => {
                    // fresh subset of the pool (possibly with a field of an earlier struct type)
                    let k = if self.cfg.empty_structs && self.src.chance(6) { 0 } else { 1 + self.src.below(3) };
                    let start = self.src.below(pool.len());
                    let mut items: Vec<Item> =
                        (0..k).map(|j| pool[(start + j * 2 + j / 3) % pool.len()].clone()).map(|(n, t)| Item::Field(n, t)).collect();
                    items.dedup_by(|a, b| a == b);
                    let mut seen = Vec::new();
                    items.retain(|it| {
                        let Item::Field(n, _) = it else { return true };
                        if seen.contains(n) {
                            false
                        } else {
                            seen.push(n.clone());
                            true
                        }
                    });
                    if i > 0 && self.src.chance(30) {
                        let j = self.src.below(i);
                        items.push(Item::Field(format!("n{i}"), Ty::Struct(format!("S{j}"))));
                    }
                    items
                }
                (_, 1) | (_, 2) => {
                    // superset of an earlier struct: its fields (inserted or spelled out) plus extras
                    let j = self.src.below(i);
                    let base = self.prog.struct_fields(&format!("S{j}")).unwrap_or_default();
                    let mut items: Vec<Item> = if self.src.chance(50) {
                        vec![Item::Insert(format!("S{j}"))]
                    } else {
                        base.iter().cloned().map(|(n, t)| Item::Field(n, t)).collect()
                    };
                    let extra = 1 + self.src.below(2);
                    for _ in 0..extra {
                        let (n, t) = pool[self.src.below(pool.len())].clone();
                        if !base.iter().any(|(b, _)| *b == n) && !items.iter().any(|it| matches!(it, Item::Field(x, _) if *x == n)) {
                            if self.src.chance(50) {
                                items.insert(0, Item::Field(n, t));
                            } else {
                                items.push(Item::Field(n, t));
                            }
                        }
                    }
                    items
                }
                _ => {
                    // same field set as an earlier struct, other order (cast partner)
                    let j = self.src.below(i);
                    let mut base = self.prog.struct_fields(&format!("S{j}")).unwrap_or_default();
                    base.reverse();
                    if base.len() > 2 && self.src.chance(50) {
                        base.swap(0, 1);
                    }
                    base.into_iter().map(|(n, t)| Item::Field(n, t)).collect()
                }
            };
            self.prog.structs.push(StructDef { name, items });
        }
    }

    pub fn gen_globals(&mut self) {
        let n = self.src.below(3);
        let env = self.empty_env(Ctx::Function);
        for i in 0..n {
            let t = match self.src.below(3) {
                0 => self.simple_ty(),
                1 => Ty::Int,
                _ => {
                    let cands: Vec<String> = self
                        .prog
                        .structs
                        .iter()
                        .filter(|s| {
                            self.prog
                                .struct_fields(&s.name)
                                .is_some_and(|f| f.iter().all(|(_, t)| matches!(t, Ty::Int | Ty::Bool | Ty::Str | Ty::Enum(_))))
                        })
                        .map(|s| s.name.clone())
                        .collect();
                    if cands.is_empty() { Ty::Bool } else { Ty::Struct(cands[self.src.below(cands.len())].clone()) }
                }
            };
            let e = self.lit(&t, &env);
            self.prog.globals.push((format!("G{i}"), e));
            let _ = t;
        }
    }

    fn global_ty(&self, e: &Expr) -> Ty {
        match e {
            Expr::Int(_) => Ty::Int,
            Expr::Bool(_) => Ty::Bool,
            Expr::Str(_) => Ty::Str,
            Expr::EnumRef(n, _) => Ty::Enum(n.clone()),
            Expr::StructLit { name, .. } => Ty::Struct(name.clone()),
            _ => Ty::Int,
        }
    }

    pub fn empty_env(&self, ctx: Ctx) -> Env {
        let mut env = Env { vars: Vec::new(), marks: Vec::new(), next: 0, callable: 0, ret: None, ctx, recalls: Vec::new() };
        for (n, e) in &self.prog.globals {
            env.add(n.clone(), self.global_ty(e), true);
        }
        env
    }

    // ---------------------------------------------------------------- literals and values

    fn int_lit(&mut self) -> i64 {
        if self.src.chance(15) {
            // arbitrary 64-bit value
            let a = u64::from(self.src.next());
            let b = u64::from(self.src.next());
            let c = u64::from(self.src.next());
            let d = u64::from(self.src.next());
            (a << 48 | b << 32 | c << 16 | d) as i64
        } else {
            INTS[self.src.below(INTS.len())]
        }
    }

    pub fn lit(&mut self, t: &Ty, env: &Env) -> Expr {
        match t {
            Ty::Int => Expr::Int(self.int_lit()),
            Ty::Bool => Expr::Bool(self.src.chance(50)),
            Ty::Str => Expr::Str(STRS[self.src.below(STRS.len())].to_string()),
            Ty::Id => {
                let ids: Vec<&VarInfo> = env.vars.iter().filter(|v| v.ty == Ty::Id).collect();
                if ids.is_empty() {
                    // callers check `makeable`; keep the program printable anyway
                    Expr::Todo
                } else {
                    Expr::Var(ids[self.src.below(ids.len())].name.clone())
                }
            }
            Ty::Enum(n) => {
                let vs = self.prog.enums.iter().find(|e| e.name == *n).map(|e| e.variants.clone()).unwrap_or_default();
                if vs.is_empty() { Expr::Todo } else { Expr::EnumRef(n.clone(), vs[self.src.below(vs.len())].clone()) }
            }
            Ty::Struct(n) => {
                let fs = self.prog.struct_fields(n).unwrap_or_default();
                let fields = fs.iter().map(|(f, t)| (f.clone(), self.lit(t, env))).collect();
                Expr::StructLit { name: n.clone(), fields, sources: vec![] }
            }
            Ty::Opt(i) => {
                if self.makeable(i, env) && self.src.chance(60) {
                    Expr::Some(Box::new(self.lit(i, env)))
                } else {
                    Expr::None
                }
            }
            Ty::Res(a, b) => {
                let oka = self.makeable(a, env);
                let okb = self.makeable(b, env);
                if oka && (!okb || self.src.chance(55)) {
                    Expr::Ok(Box::new(self.lit(a, env)))
                } else {
                    Expr::Err(Box::new(self.lit(b, env)))
                }
            }
        }
    }

    /// An argument value of the given type.
    pub fn value(&mut self, t: &Ty) -> Val {
        match t {
            Ty::Int => Val::Int(self.int_lit()),
            Ty::Bool => Val::Bool(self.src.chance(50)),
            Ty::Str => Val::Str(STRS[self.src.below(STRS.len())].to_string()),
            Ty::Id => Val::Id(self.src.below(4) as u8),
            Ty::Enum(n) => {
                let vs = self.prog.enums.iter().find(|e| e.name == *n).map(|e| e.variants.clone()).unwrap_or_default();
                Val::Enum(n.clone(), vs[self.src.below(vs.len())].clone())
            }
            Ty::Struct(n) => {
                let fs = self.prog.struct_fields(n).unwrap_or_default();
                let mut m = BTreeMap::new();
                for (f, t) in fs {
                    m.insert(f, self.value(&t));
                }
                Val::Struct(n.clone(), m)
            }
            Ty::Opt(i) => {
                if self.src.chance(65) {
                    Val::Opt(Some(Box::new(self.value(i))))
                } else {
                    Val::Opt(None)
                }
            }
            Ty::Res(a, b) => {
                if self.src.chance(55) {
                    Val::Res(Ok(Box::new(self.value(a))))
                } else {
                    Val::Res(Err(Box::new(self.value(b))))
                }
            }
        }
    }
}

include!("gen_expr.rs");
include!("gen_stmt.rs");
include!("gen_cmd.rs");
