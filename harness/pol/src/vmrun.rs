//! Compile policy text with the real parser + compiler and run entry points in the real VM
//! with a recording I/O implementation.
use std::{cell::RefCell, collections::BTreeMap};

use aranya_crypto::{BaseId, DeviceId, policy::CmdId};
use aranya_policy_ast::Version;
use aranya_policy_compiler::Compiler;
use aranya_policy_lang::lang::parse_policy_str;
use aranya_policy_module::{
    Module,
    ffi::{self, ModuleSchema},
};
use aranya_policy_vm::{
    ActionContext, CommandContext, ExitReason, FactKey, FactKeyList, FactValue, FactValueList,
    Identifier, Instruction, KVPair, Label, LabelType, Machine, MachineError, MachineErrorType,
    MachineIO, MachineIOError, MachineStatus, Meta, PolicyContext, RunState, Stack,
    Struct, Value, ident,
};

/// Poison ticks (C23) use numbers at or above this value.
pub const POISON_TICK: i64 = 1_000_000;

pub const FFI_SCHEMAS: &[ModuleSchema<'static>] = &[ModuleSchema {
    name: ident!("probe"),
    functions: &[
        ffi::Func {
            name: ident!("tick"),
            args: &[ffi::Arg {
                name: ident!("n"),
                vtype: ffi::Type::Int,
            }],
            return_type: ffi::Type::Int,
        },
        ffi::Func {
            name: ident!("flag"),
            args: &[ffi::Arg {
                name: ident!("n"),
                vtype: ffi::Type::Int,
            }],
            return_type: ffi::Type::Bool,
        },
    ],
    structs: &[],
    enums: &[],
}];

/// What the model says `probe::flag(n)` returns.
pub fn flag_result(n: i64) -> bool {
    n.rem_euclid(2) == 0
}

#[derive(Clone, Debug, PartialEq, Eq)]
pub enum IoEvent {
    Insert(Identifier, Vec<FactKey>, Vec<FactValue>),
    Delete(Identifier, Vec<FactKey>),
    Effect(Identifier, Vec<KVPair>, bool),
}

/// Recording I/O: an in-memory fact map, a log of every mutating call, a log of foreign calls.
#[derive(Default)]
pub struct RecIo {
    pub facts: BTreeMap<(Identifier, FactKeyList), FactValueList>,
    pub events: Vec<IoEvent>,
    /// (procedure index, argument)
    pub ffi_log: RefCell<Vec<(usize, i64)>>,
}

impl RecIo {
    pub fn new() -> Self {
        Self::default()
    }
}

impl<S: Stack> MachineIO<S> for RecIo {
    type QueryIterator = std::vec::IntoIter<Result<(FactKeyList, FactValueList), MachineIOError>>;

    fn fact_insert(
        &mut self,
        name: Identifier,
        key: impl IntoIterator<Item = FactKey>,
        value: impl IntoIterator<Item = FactValue>,
    ) -> Result<(), MachineIOError> {
        let key: Vec<_> = key.into_iter().collect();
        let value: Vec<_> = value.into_iter().collect();
        self.events.push(IoEvent::Insert(name.clone(), key.clone(), value.clone()));
        if self.facts.contains_key(&(name.clone(), key.clone())) {
            return Err(MachineIOError::FactExists);
        }
        self.facts.insert((name, key), value);
        Ok(())
    }

    fn fact_delete(&mut self, name: Identifier, key: impl IntoIterator<Item = FactKey>) -> Result<(), MachineIOError> {
        let key: Vec<_> = key.into_iter().collect();
        self.events.push(IoEvent::Delete(name.clone(), key.clone()));
        match self.facts.remove(&(name, key)) {
            Some(_) => Ok(()),
            None => Err(MachineIOError::FactNotFound),
        }
    }

    fn fact_query(&self, name: Identifier, key: impl IntoIterator<Item = FactKey>) -> Result<Self::QueryIterator, MachineIOError> {
        let key: Vec<_> = key.into_iter().collect();
        let v: Vec<_> = self
            .facts
            .iter()
            .filter(|((n, k), _)| *n == name && k.starts_with(&key))
            .map(|((_, k), v)| Ok((k.clone(), v.clone())))
            .collect();
        Ok(v.into_iter())
    }

    fn effect(&mut self, name: Identifier, fields: impl IntoIterator<Item = KVPair>, _command: CmdId, recalled: bool) {
        let mut fields: Vec<_> = fields.into_iter().collect();
        fields.sort_by(|a, b| a.key().cmp(b.key()));
        self.events.push(IoEvent::Effect(name, fields, recalled));
    }

    fn call(&self, module: usize, procedure: usize, stack: &mut S, _ctx: &CommandContext) -> Result<(), MachineError> {
        if module != 0 {
            return Err(MachineError::new(MachineErrorType::FfiModuleNotDefined(module)));
        }
        match procedure {
            0 => {
                let n: i64 = stack.pop()?;
                self.ffi_log.borrow_mut().push((0, n));
                stack.push(Value::Int(n))?;
                Ok(())
            }
            1 => {
                let n: i64 = stack.pop()?;
                self.ffi_log.borrow_mut().push((1, n));
                stack.push(Value::Bool(flag_result(n)))?;
                Ok(())
            }
            p => Err(MachineError::new(MachineErrorType::FfiProcedureNotDefined(ident!("probe"), p))),
        }
    }
}

#[derive(Debug)]
#[allow(dead_code)]
pub enum CompileOutcome {
    ParseError(String),
    CompileError(String),
    /// The front end panicked (never acceptable, but not these properties' subject).
    Panicked(String),
}

pub fn compile_module(text: &str) -> Result<Module, CompileOutcome> {
    let r = vcommon::catch(|| {
        let policy = parse_policy_str(text, Version::V2).map_err(|e| CompileOutcome::ParseError(e.to_string()))?;
        Compiler::new(&policy)
            .ffi_modules(FFI_SCHEMAS)
            .debug(true)
            .compile()
            .map_err(|e| CompileOutcome::CompileError(e.to_string()))
    });
    match r {
        Ok(r) => r,
        Err((msg, loc)) => Err(CompileOutcome::Panicked(format!("{msg} @ {loc}"))),
    }
}

pub fn machine_of(m: Module) -> Machine {
    Machine::from_module(m).expect("module version V0 is supported")
}

/// How a VM run ended.
#[derive(Clone, Debug, PartialEq)]
pub enum RunEnd {
    Exit(ExitReason),
    Error(String, ErrKind),
}

/// Classification of `MachineErrorType` for C24.
#[derive(Clone, Copy, Debug, PartialEq, Eq)]
pub enum ErrKind {
    TypeMismatch,
    BadJump,
    StackUnderflow,
    StackOverflow,
    UndefinedVar,
    RedefinedVar,
    UnknownMember,
    Io,
    Ffi,
    InvalidFact,
    Other,
}

pub fn classify(e: &MachineErrorType) -> ErrKind {
    use MachineErrorType as T;
    match e {
        T::StackUnderflow => ErrKind::StackUnderflow,
        T::StackOverflow => ErrKind::StackOverflow,
        T::AlreadyDefined(_) => ErrKind::RedefinedVar,
        T::NotDefined(_) => ErrKind::UndefinedVar,
        T::InvalidType { .. } => ErrKind::TypeMismatch,
        T::InvalidStructMember(_) => ErrKind::UnknownMember,
        T::InvalidSchema(_) => ErrKind::TypeMismatch,
        T::UnresolvedTarget(_) | T::InvalidAddress(_) => ErrKind::BadJump,
        T::IO(_) => ErrKind::Io,
        T::FfiModuleNotDefined(_) | T::FfiProcedureNotDefined(..) => ErrKind::Ffi,
        T::InvalidFact(_) => ErrKind::InvalidFact,
        _ => ErrKind::Other,
    }
}

pub fn err_name(e: &MachineErrorType) -> &'static str {
    use MachineErrorType as T;
    match e {
        T::StackUnderflow => "StackUnderflow",
        T::StackOverflow => "StackOverflow",
        T::AlreadyDefined(_) => "AlreadyDefined",
        T::NotDefined(_) => "NotDefined",
        T::InvalidType { .. } => "InvalidType",
        T::InvalidStructMember(_) => "InvalidStructMember",
        T::InvalidFact(_) => "InvalidFact",
        T::InvalidSchema(_) => "InvalidSchema",
        T::UnresolvedTarget(_) => "UnresolvedTarget",
        T::InvalidAddress(_) => "InvalidAddress",
        T::BadState(_) => "BadState",
        T::IntegerOverflow => "IntegerOverflow",
        T::InvalidInstruction => "InvalidInstruction",
        T::CallStack => "CallStack",
        T::IO(_) => "IO",
        T::FfiModuleNotDefined(_) => "FfiModuleNotDefined",
        T::FfiProcedureNotDefined(..) => "FfiProcedureNotDefined",
        T::ContextMismatch => "ContextMismatch",
        T::Serialize(_) => "Serialize",
        T::Deserialize(_) => "Deserialize",
        T::Bug(_) => "Bug",
        T::Unknown(_) => "Unknown",
    }
}

fn end_of(r: Result<ExitReason, MachineError>) -> RunEnd {
    match r {
        Ok(x) => RunEnd::Exit(x),
        Err(e) => RunEnd::Error(format!("{}: {}", err_name(&e.err_type), e.err_type), classify(&e.err_type)),
    }
}

pub fn policy_ctx(name: Identifier) -> CommandContext {
    CommandContext::Policy(PolicyContext {
        name,
        id: CmdId::default(),
        author: DeviceId::default(),
        version: BaseId::default(),
    })
}

pub fn action_ctx(name: Identifier) -> CommandContext {
    CommandContext::Action(ActionContext {
        name,
        head_id: CmdId::default(),
    })
}

pub fn envelope() -> Struct {
    Struct {
        name: ident!("Envelope"),
        fields: BTreeMap::new(),
    }
}

/// Result of running something in the VM: how it ended, the data stack at the end, I/O.
#[derive(Clone, Debug, PartialEq)]
pub struct RunOut {
    pub end: RunEnd,
    pub stack: Vec<Value>,
    pub ffi: Vec<(usize, i64)>,
    pub events: Vec<IoEvent>,
    /// first I/O write (index into `events`) that happened before any `Meta::Finish` marker ran
    pub write_before_finish: Option<String>,
    /// number of I/O events recorded when a `Recall` instruction executed (if one did)
    pub events_at_recall: Option<usize>,
}

const STEP_LIMIT: usize = 200_000;

struct Drive {
    end: RunEnd,
    early: Option<String>,
    at_recall: Option<usize>,
}

fn drive(rs: &mut RunState<'_, RecIo>, machine: &Machine) -> Drive {
    let mut finish_seen = false;
    let mut early: Option<String> = None;
    let mut at_recall: Option<usize> = None;
    for _ in 0..STEP_LIMIT {
        let pc = rs.pc();
        if let Some(ins) = machine.progmem.get(pc) {
            match ins {
                Instruction::Meta(Meta::Finish(_)) => finish_seen = true,
                Instruction::Recall(_) => at_recall = Some(rs.io.events.len()),
                Instruction::Create | Instruction::Update | Instruction::Delete | Instruction::Emit => {
                    if !finish_seen && early.is_none() {
                        early = Some(format!("{ins} at pc {pc}"));
                    }
                }
                _ => {}
            }
        }
        match rs.step() {
            Ok(MachineStatus::Executing) => {}
            Ok(MachineStatus::Exited(r)) => return Drive { end: RunEnd::Exit(r), early, at_recall },
            Err(e) => return Drive { end: end_of(Err(e)), early, at_recall },
        }
    }
    Drive { end: RunEnd::Error("step limit".into(), ErrKind::Other), early, at_recall }
}

/// Runs the pure function `name` with `args` (pushed in order) starting at its label.
pub fn run_function(machine: &Machine, io: &mut RecIo, name: &str, args: Vec<Value>) -> RunOut {
    let ident: Identifier = name.parse().expect("valid identifier");
    let ev0 = io.events.len();
    io.ffi_log.borrow_mut().clear();
    let (end, stack, early, at_recall) = {
        let mut rs = machine.create_run_state(io, action_ctx(ident.clone()));
        let r = rs.set_pc_by_label(&Label::new(ident, LabelType::Function));
        match r {
            Err(e) => (end_of(Err(e)), vec![], None, None),
            Ok(()) => {
                let mut pushed = Ok(());
                for a in args {
                    if let Err(e) = rs.stack.push_value(a) {
                        pushed = Err(MachineError::new(e));
                        break;
                    }
                }
                match pushed {
                    Err(e) => (end_of(Err(e)), vec![], None, None),
                    Ok(()) => {
                        let d = drive(&mut rs, machine);
                        let stack = rs.stack.as_slice().to_vec();
                        (d.end, stack, d.early, d.at_recall)
                    }
                }
            }
        }
    };
    RunOut {
        end,
        stack,
        ffi: io.ffi_log.borrow().clone(),
        events: io.events[ev0..].to_vec(),
        write_before_finish: early,
        events_at_recall: at_recall.map(|n| n.saturating_sub(ev0)),
    }
}

/// Runs a command's policy block the way `RunState::call_command_policy` does, but stepping.
pub fn run_command(machine: &Machine, io: &mut RecIo, this: Struct) -> RunOut {
    let name = this.name.clone();
    let ev0 = io.events.len();
    io.ffi_log.borrow_mut().clear();
    let (end, stack, early, at_recall) = {
        let mut rs = machine.create_run_state(io, policy_ctx(name.clone()));
        match rs.setup_command(Label::new(name, LabelType::CommandPolicy), this) {
            Err(e) => (end_of(Err(e)), vec![], None, None),
            Ok(()) => match rs.stack.push_value(Value::Struct(envelope())) {
                Err(e) => (end_of(Err(MachineError::new(e))), vec![], None, None),
                Ok(()) => {
                    let d = drive(&mut rs, machine);
                    let stack = rs.stack.as_slice().to_vec();
                    (d.end, stack, d.early, d.at_recall)
                }
            },
        }
    };
    RunOut {
        end,
        stack,
        ffi: io.ffi_log.borrow().clone(),
        events: io.events[ev0..].to_vec(),
        write_before_finish: early,
        events_at_recall: at_recall.map(|n| n.saturating_sub(ev0)),
    }
}

/// Runs a command's policy block through the public one-shot API (used to cross-check `run_command`).
pub fn run_command_oneshot(machine: &Machine, io: &mut RecIo, this: Struct) -> RunEnd {
    let name = this.name.clone();
    let mut rs = machine.create_run_state(io, policy_ctx(name));
    end_of(rs.call_command_policy(this, envelope()))
}

/// Runs an action until it exits or yields for the first time.
pub fn run_action(machine: &Machine, io: &mut RecIo, name: &str, args: Vec<Value>) -> RunOut {
    let ident: Identifier = name.parse().expect("valid identifier");
    let ev0 = io.events.len();
    io.ffi_log.borrow_mut().clear();
    let (end, stack) = {
        let mut rs = machine.create_run_state(io, action_ctx(ident.clone()));
        let r = rs.call_action(ident, args);
        let stack = rs.stack.as_slice().to_vec();
        (end_of(r), stack)
    };
    RunOut {
        end,
        stack,
        ffi: io.ffi_log.borrow().clone(),
        events: io.events[ev0..].to_vec(),
        write_before_finish: None,
        events_at_recall: None,
    }
}


// ---------------------------------------------------------------------------------------------
// model values -> VM values

use crate::{ast::Prog, pgen::Inputs, interp::Val};

pub fn ident_of(s: &str) -> Identifier {
    s.parse().expect("generated names are valid identifiers")
}

pub fn to_vm(prog: &Prog, v: &Val) -> Value {
    match v {
        Val::Int(n) => Value::Int(*n),
        Val::Bool(b) => Value::Bool(*b),
        Val::Str(s) => Value::String(s.parse().expect("generated strings have no NUL")),
        Val::Id(b) => Value::Id(BaseId::from_bytes([*b; 32])),
        Val::Enum(n, var) => {
            let idx = prog
                .enums
                .iter()
                .find(|e| e.name == *n)
                .and_then(|e| e.variants.iter().position(|x| x == var))
                .expect("known enum variant");
            Value::Enum(ident_of(n), idx as i64)
        }
        Val::Struct(n, m) => Value::Struct(Struct {
            name: ident_of(n),
            fields: m.iter().map(|(k, v)| (ident_of(k), to_vm(prog, v))).collect(),
        }),
        Val::Opt(o) => Value::Option(o.as_ref().map(|x| Box::new(to_vm(prog, x)))),
        Val::Res(r) => Value::Result(match r {
            Ok(x) => Ok(Box::new(to_vm(prog, x))),
            Err(x) => Err(Box::new(to_vm(prog, x))),
        }),
    }
}

pub fn hashable(v: Value) -> aranya_policy_vm::HashableValue {
    v.try_into().expect("fact keys are hashable")
}

/// An I/O object preloaded with the case's initial facts.
pub fn io_with_facts(prog: &Prog, inputs: &Inputs) -> RecIo {
    let mut io = RecIo::new();
    for (name, ks, vs) in &inputs.facts {
        let Some(def) = prog.facts.iter().find(|f| f.name == *name) else { continue };
        let keys: Vec<FactKey> = def.keys.iter().zip(ks).map(|((n, _), v)| FactKey::new(ident_of(n), hashable(to_vm(prog, v)))).collect();
        let vals: Vec<FactValue> = def.vals.iter().zip(vs).map(|((n, _), v)| FactValue::new(ident_of(n), to_vm(prog, v))).collect();
        io.facts.insert((ident_of(name), keys), vals);
    }
    io
}

pub fn this_struct(prog: &Prog, cmd: &crate::ast::Command, vals: &[Val]) -> Struct {
    Struct {
        name: ident_of(&cmd.name),
        fields: cmd.fields.iter().zip(vals).map(|((n, _), v)| (ident_of(n), to_vm(prog, v))).collect(),
    }
}
