//! Mutable traversals of the harness AST.
use crate::ast::*;

pub fn walk_expr(e: &mut Expr, f: &mut dyn FnMut(&mut Expr)) {
    match e {
        Expr::Some(x) | Expr::Ok(x) | Expr::Err(x) | Expr::Not(x) | Expr::Is(x, _) | Expr::Dot(x, _) | Expr::Substruct(x, _) | Expr::Cast(x, _) | Expr::Return(x) => {
            walk_expr(x, f)
        }
        Expr::StructLit { fields, .. } => fields.iter_mut().for_each(|(_, x)| walk_expr(x, f)),
        Expr::Bin(_, a, b) | Expr::Coalesce(a, b) | Expr::Arith(_, a, b) => {
            walk_expr(a, f);
            walk_expr(b, f);
        }
        Expr::Call(_, a) | Expr::Ffi(_, a) | Expr::Recall(_, a) => a.iter_mut().for_each(|x| walk_expr(x, f)),
        Expr::If(c, t, e2) => {
            walk_expr(c, f);
            walk_stmts(&mut t.stmts, f);
            walk_expr(&mut t.value, f);
            walk_stmts(&mut e2.stmts, f);
            walk_expr(&mut e2.value, f);
        }
        Expr::Block(b) => {
            walk_stmts(&mut b.stmts, f);
            walk_expr(&mut b.value, f);
        }
        Expr::Match(s, arms) => {
            walk_expr(s, f);
            arms.iter_mut().for_each(|(_, x)| walk_expr(x, f));
        }
        Expr::Exists(fl) => walk_fact(fl, f),
        _ => {}
    }
    f(e);
}

fn walk_fact(fl: &mut FactLit, f: &mut dyn FnMut(&mut Expr)) {
    fl.keys.iter_mut().for_each(|(_, x)| walk_expr(x, f));
    if let Some(v) = &mut fl.vals {
        v.iter_mut().for_each(|(_, x)| walk_expr(x, f));
    }
}

pub fn walk_stmts(v: &mut [Stmt], f: &mut dyn FnMut(&mut Expr)) {
    for s in v {
        match s {
            Stmt::Let(_, e) | Stmt::Return(e) | Stmt::DebugAssert(e) | Stmt::Emit(e) | Stmt::Publish(e) => walk_expr(e, f),
            Stmt::Check(a, b) => {
                walk_expr(a, f);
                walk_expr(b, f);
            }
            Stmt::If(bs, fb) => {
                for (c, b) in bs {
                    walk_expr(c, f);
                    walk_stmts(b, f);
                }
                if let Some(b) = fb {
                    walk_stmts(b, f);
                }
            }
            Stmt::Match(e, arms) => {
                walk_expr(e, f);
                for (_, b) in arms {
                    walk_stmts(b, f);
                }
            }
            Stmt::Finish(b) => walk_stmts(b, f),
            Stmt::Recall(_, a) | Stmt::CallFinish(_, a) => a.iter_mut().for_each(|x| walk_expr(x, f)),
            Stmt::Create(fl) | Stmt::Delete(fl) => walk_fact(fl, f),
            Stmt::Update(fl, to) => {
                walk_fact(fl, f);
                to.iter_mut().for_each(|(_, x)| walk_expr(x, f));
            }
        }
    }
}

/// Every statement list of the program (function bodies, finish functions, policy and recall
/// blocks, actions), outermost lists only.
pub fn bodies(p: &mut Prog) -> Vec<&mut Vec<Stmt>> {
    let mut v: Vec<&mut Vec<Stmt>> = Vec::new();
    for f in &mut p.funcs {
        v.push(&mut f.body);
    }
    for f in &mut p.finish_fns {
        v.push(&mut f.body);
    }
    for c in &mut p.commands {
        v.push(&mut c.policy);
        for r in &mut c.recalls {
            v.push(&mut r.body);
        }
    }
    for a in &mut p.actions {
        v.push(&mut a.body);
    }
    v
}

/// Post-order visit of every expression node of the program.
pub fn walk_prog(p: &mut Prog, f: &mut dyn FnMut(&mut Expr)) {
    for b in bodies(p) {
        walk_stmts(b, f);
    }
}

// ---------------------------------------------------------------------------------------------
// node visitor (expressions, patterns, statement lists)

pub enum Node<'a> {
    Expr(&'a mut Expr),
    Pat(&'a mut Pat),
    Stmts(&'a mut Vec<Stmt>),
    Fact(&'a mut FactLit),
}

fn n_expr(e: &mut Expr, f: &mut dyn FnMut(Node<'_>)) {
    match e {
        Expr::Some(x) | Expr::Ok(x) | Expr::Err(x) | Expr::Not(x) | Expr::Is(x, _) | Expr::Dot(x, _) | Expr::Substruct(x, _) | Expr::Cast(x, _) | Expr::Return(x) => {
            n_expr(x, f)
        }
        Expr::StructLit { fields, .. } => fields.iter_mut().for_each(|(_, x)| n_expr(x, f)),
        Expr::Bin(_, a, b) | Expr::Coalesce(a, b) | Expr::Arith(_, a, b) => {
            n_expr(a, f);
            n_expr(b, f);
        }
        Expr::Call(_, a) | Expr::Ffi(_, a) | Expr::Recall(_, a) => a.iter_mut().for_each(|x| n_expr(x, f)),
        Expr::If(c, t, e2) => {
            n_expr(c, f);
            n_stmts(&mut t.stmts, f);
            n_expr(&mut t.value, f);
            n_stmts(&mut e2.stmts, f);
            n_expr(&mut e2.value, f);
        }
        Expr::Block(b) => {
            n_stmts(&mut b.stmts, f);
            n_expr(&mut b.value, f);
        }
        Expr::Match(s, arms) => {
            n_expr(s, f);
            for (p, x) in arms.iter_mut() {
                f(Node::Pat(p));
                n_expr(x, f);
            }
        }
        Expr::Exists(fl) => n_fact(fl, f),
        _ => {}
    }
    f(Node::Expr(e));
}

fn n_fact(fl: &mut FactLit, f: &mut dyn FnMut(Node<'_>)) {
    fl.keys.iter_mut().for_each(|(_, x)| n_expr(x, f));
    if let Some(v) = &mut fl.vals {
        v.iter_mut().for_each(|(_, x)| n_expr(x, f));
    }
    f(Node::Fact(fl));
}

fn n_stmts(v: &mut Vec<Stmt>, f: &mut dyn FnMut(Node<'_>)) {
    for s in v.iter_mut() {
        match s {
            Stmt::Let(_, e) | Stmt::Return(e) | Stmt::DebugAssert(e) | Stmt::Emit(e) | Stmt::Publish(e) => n_expr(e, f),
            Stmt::Check(a, b) => {
                n_expr(a, f);
                n_expr(b, f);
            }
            Stmt::If(bs, fb) => {
                for (c, b) in bs {
                    n_expr(c, f);
                    n_stmts(b, f);
                }
                if let Some(b) = fb {
                    n_stmts(b, f);
                }
            }
            Stmt::Match(e, arms) => {
                n_expr(e, f);
                for (p, b) in arms {
                    f(Node::Pat(p));
                    n_stmts(b, f);
                }
            }
            Stmt::Finish(b) => n_stmts(b, f),
            Stmt::Recall(_, a) | Stmt::CallFinish(_, a) => a.iter_mut().for_each(|x| n_expr(x, f)),
            Stmt::Create(fl) | Stmt::Delete(fl) => n_fact(fl, f),
            Stmt::Update(fl, to) => {
                n_fact(fl, f);
                to.iter_mut().for_each(|(_, x)| n_expr(x, f));
            }
        }
    }
    f(Node::Stmts(v));
}

pub fn walk_body(b: &mut Vec<Stmt>, f: &mut dyn FnMut(Node<'_>)) {
    n_stmts(b, f);
}

pub fn walk_nodes(p: &mut Prog, f: &mut dyn FnMut(Node<'_>)) {
    for b in bodies(p) {
        n_stmts(b, f);
    }
}
