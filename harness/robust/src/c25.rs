//! C25: running any instruction sequence (hand-built or a corrupted compiled module) with any stack contents,
//! arguments and I/O results ends in an exit or a machine error; the host never panics.
use std::{
    cell::Cell,
    collections::BTreeMap,
    num::NonZeroUsize,
    str::FromStr,
    sync::OnceLock,
};

use aranya_crypto::{BaseId, DeviceId, policy::CmdId};
use aranya_policy_ast::{Identifier, Text};
use aranya_policy_compiler::Compiler;
use aranya_policy_lang::lang::parse_policy_document;
use aranya_policy_module::{
    ActionDef, CodeMap, CommandDef, ConstStruct, ConstValue, EnumDef, ExitReason, FactDef, Field, Instruction, Label,
    LabelType, Meta, Persistence, ResultTypeKind, StructDef, Target, TypeKind, WrapType,
};
use aranya_policy_vm::{
    ActionContext, CommandContext, Fact, FactKey, FactKeyList, FactValue, FactValueList, HashableValue, KVPair,
    Machine, MachineError, MachineErrorType, MachineIO, MachineIOError, MachineStack, MachineStatus, OpenContext,
    PolicyContext, SealContext, Stack, Struct, Value,
};
use proptest::prelude::*;
use serde::{Deserialize, Serialize};
use vcommon::{CaseInfo, CheckResult, Ctx, Failure, PartResult, Report, idx};

use crate::policies;

const STEP_BOUND: usize = 10_000;
const SIZE_BOUND: usize = 200_000;
const YIELD_BOUND: usize = 64;

// ---- case data ---------------------------------------------------------------------------------------------

#[derive(Clone, Debug, Serialize, Deserialize)]
struct CodeMapSpec {
    text: String,
    /// (instruction, span start, span end) -- not necessarily sorted or in range
    mapping: Vec<(usize, usize, usize)>,
}

#[derive(Clone, Debug, Serialize, Deserialize)]
struct RawMachine {
    prog: Vec<Instruction>,
    struct_defs: Vec<StructDef>,
    fact_defs: Vec<FactDef>,
    enum_defs: Vec<EnumDef>,
    command_defs: Vec<CommandDef>,
    action_defs: Vec<ActionDef>,
    globals: Vec<(Identifier, ConstValue)>,
    labels: Vec<(Label, usize)>,
    codemap: Option<CodeMapSpec>,
}

#[derive(Clone, Debug, Serialize, Deserialize)]
enum Edit {
    Replace(u16, Instruction),
    Insert(u16, Instruction),
    Delete(u16),
    Swap(u16, u16),
    /// n-th jump/branch/call/recall gets a new target
    Retarget(u16, Target),
    Truncate(u16),
    DropStructDef(u16),
    DropFactDef(u16),
    DropEnumDef(u16),
    ReplaceCodemap(Option<CodeMapSpec>),
}

#[derive(Clone, Debug, Serialize, Deserialize)]
enum IoErr {
    FactExists,
    FactNotFound,
    Internal,
}

#[derive(Clone, Debug, Serialize, Deserialize)]
enum Row {
    Err(IoErr),
    /// the query's own keys plus these values
    Echo(Vec<FactValue>),
    Fixed(Vec<FactKey>, Vec<FactValue>),
}

#[derive(Clone, Debug, Serialize, Deserialize)]
enum QueryScript {
    Err(IoErr),
    Rows(Vec<Row>),
}

#[derive(Clone, Debug, Serialize, Deserialize)]
struct FfiScript {
    pops: u8,
    pushes: Vec<Value>,
    /// 0 = ok
    err: u8,
}

#[derive(Clone, Debug, Default, Serialize, Deserialize)]
struct IoScript {
    queries: Vec<QueryScript>,
    inserts: Vec<Option<IoErr>>,
    deletes: Vec<Option<IoErr>>,
    ffi: Vec<FfiScript>,
}

#[derive(Clone, Debug, Serialize, Deserialize)]
enum Entry {
    /// start at this address with `stack` as initial stack
    Pc(usize),
    /// `labels` index (sorted order); arguments built for the label's kind from `data`
    Label(u16),
    Action(Identifier, Vec<Value>),
    Command(Struct, Struct),
    Seal(Struct, Vec<u8>),
    Open(Struct, Vec<u8>, Struct),
}

#[derive(Clone, Debug, Serialize, Deserialize)]
struct CtxSpec {
    /// 0 action, 1 seal, 2 open, 3 policy, 4 recall, >=5: whatever fits the entry
    kind: u8,
    name: Identifier,
    seed: u8,
}

#[derive(Clone, Debug, Serialize, Deserialize)]
enum Prog {
    Raw(RawMachine),
    Mutated { base: u16, edits: Vec<Edit> },
}

#[derive(Clone, Debug, Serialize, Deserialize)]
struct Case {
    prog: Prog,
    entry: Entry,
    ctx: CtxSpec,
    stack: Vec<Value>,
    io: IoScript,
    data: Vec<u8>,
}

// ---- generators ---------------------------------------------------------------------------------------------

const NAMES: &[&str] = &[
    "a", "b", "c", "x", "y", "n", "i", "this", "envelope", "payload", "S", "T", "F", "G", "E", "Cmd", "act", "k", "v",
];

fn id(s: &str) -> Identifier {
    Identifier::from_str(s).expect("identifier")
}

fn ident_s() -> impl Strategy<Value = Identifier> {
    prop_oneof![
        12 => prop::sample::select(NAMES.to_vec()).prop_map(id),
        1 => "[a-zA-Z][a-zA-Z0-9_]{0,30}".prop_map(|s| id(&s)),
    ]
}

fn text_s() -> impl Strategy<Value = Text> {
    prop_oneof![
        3 => "[a-z]{0,6}",
        1 => "[^\\x00]{0,30}",
    ]
    .prop_map(|s| Text::from_str(&s).expect("no NUL"))
}

fn int_s() -> impl Strategy<Value = i64> {
    prop_oneof![4 => -3i64..4, 2 => any::<i64>(), 1 => Just(i64::MAX), 1 => Just(i64::MIN)]
}

fn type_s() -> impl Strategy<Value = TypeKind> {
    let leaf = prop_oneof![
        Just(TypeKind::Unit),
        Just(TypeKind::String),
        Just(TypeKind::Bytes),
        Just(TypeKind::Int),
        Just(TypeKind::Bool),
        Just(TypeKind::Id),
        Just(TypeKind::Never),
        // names that may be undefined; struct references are made acyclic when the machine is built
        ident_s().prop_map(TypeKind::Struct),
        ident_s().prop_map(TypeKind::Enum),
    ];
    leaf.prop_recursive(2, 6, 2, |inner| {
        prop_oneof![
            inner.clone().prop_map(|t| TypeKind::Optional(Box::new(t))),
            (inner.clone(), inner).prop_map(|(ok, err)| TypeKind::Result(Box::new(ResultTypeKind { ok, err }))),
        ]
    })
}

fn fields_s() -> impl Strategy<Value = Vec<Field>> {
    prop::collection::vec((ident_s(), type_s()).prop_map(|(name, ty)| Field { name, ty }), 0..4)
}

fn const_s() -> impl Strategy<Value = ConstValue> {
    let leaf = prop_oneof![
        1 => Just(ConstValue::Unit),
        4 => int_s().prop_map(ConstValue::Int),
        3 => any::<bool>().prop_map(ConstValue::Bool),
        2 => text_s().prop_map(ConstValue::String),
        2 => (ident_s(), int_s()).prop_map(|(n, v)| ConstValue::Enum(n, v)),
        1 => Just(ConstValue::Option(None)),
    ];
    leaf.prop_recursive(3, 10, 3, |inner| {
        prop_oneof![
            inner.clone().prop_map(|v| ConstValue::Option(Some(Box::new(v)))),
            inner.clone().prop_map(|v| ConstValue::Result(Ok(Box::new(v)))),
            inner.clone().prop_map(|v| ConstValue::Result(Err(Box::new(v)))),
            (ident_s(), prop::collection::vec((ident_s(), inner), 0..3)).prop_map(|(name, f)| {
                ConstValue::Struct(ConstStruct { name, fields: f.into_iter().collect() })
            }),
        ]
    })
}

fn hashable_s() -> impl Strategy<Value = HashableValue> {
    prop_oneof![
        int_s().prop_map(HashableValue::Int),
        any::<bool>().prop_map(HashableValue::Bool),
        text_s().prop_map(HashableValue::String),
        any::<[u8; 32]>().prop_map(|b| HashableValue::Id(BaseId::from_bytes(b))),
        (ident_s(), int_s()).prop_map(|(n, v)| HashableValue::Enum(n, v)),
    ]
}

fn value_s() -> impl Strategy<Value = Value> {
    let leaf = prop_oneof![
        1 => Just(Value::Unit),
        4 => int_s().prop_map(Value::Int),
        3 => any::<bool>().prop_map(Value::Bool),
        2 => text_s().prop_map(Value::String),
        2 => prop::collection::vec(any::<u8>(), 0..40).prop_map(Value::Bytes),
        1 => any::<[u8; 32]>().prop_map(|b| Value::Id(BaseId::from_bytes(b))),
        2 => (ident_s(), int_s()).prop_map(|(n, v)| Value::Enum(n, v)),
        2 => ident_s().prop_map(Value::Identifier),
        1 => Just(Value::Option(None)),
    ];
    leaf.prop_recursive(3, 12, 3, |inner| {
        prop_oneof![
            2 => inner.clone().prop_map(|v| Value::Option(Some(Box::new(v)))),
            1 => inner.clone().prop_map(|v| Value::Result(Ok(Box::new(v)))),
            1 => inner.clone().prop_map(|v| Value::Result(Err(Box::new(v)))),
            3 => (ident_s(), prop::collection::vec((ident_s(), inner.clone()), 0..4))
                .prop_map(|(name, f)| Value::Struct(Struct { name, fields: f.into_iter().collect() })),
            2 => (
                ident_s(),
                prop::collection::vec((ident_s(), hashable_s()), 0..3),
                prop::collection::vec((ident_s(), inner), 0..3)
            )
                .prop_map(|(name, k, v)| {
                    Value::Fact(Fact {
                        name,
                        keys: k.into_iter().map(|(i, v)| FactKey::new(i, v)).collect(),
                        values: v.into_iter().map(|(i, v)| FactValue::new(i, v)).collect(),
                    })
                }),
        ]
    })
}

fn label_s() -> impl Strategy<Value = Label> {
    (
        ident_s(),
        prop::sample::select(vec![
            LabelType::Action,
            LabelType::CommandPolicy,
            LabelType::CommandRecall,
            LabelType::CommandSeal,
            LabelType::CommandOpen,
            LabelType::Temporary,
            LabelType::Function,
        ]),
    )
        .prop_map(|(n, t)| Label::new(n, t))
}

fn target_s() -> impl Strategy<Value = Target> {
    prop_oneof![
        12 => (0usize..48).prop_map(Target::Resolved),
        1 => any::<usize>().prop_map(Target::Resolved),
        1 => Just(Target::Resolved(usize::MAX)),
        1 => label_s().prop_map(Target::Unresolved),
    ]
}

fn wrap_s() -> impl Strategy<Value = WrapType> {
    prop::sample::select(vec![WrapType::Ok, WrapType::Err, WrapType::Some])
}

/// Operand of MStructSet / MStructGet. The implementation allocates `n` slots up front, so operands for which that
/// allocation would neither be small nor overflow `isize` (process abort instead of panic) are left to the
/// `alloc_probe` part, which runs in a child process.
fn count_s() -> impl Strategy<Value = NonZeroUsize> {
    prop_oneof![
        12 => 1usize..5,
        2 => 1usize..300,
        1 => (1usize << 60)..usize::MAX,
        1 => Just(usize::MAX),
    ]
    .prop_map(|n| NonZeroUsize::new(n).unwrap())
}

fn instr_s() -> impl Strategy<Value = Instruction> {
    use Instruction as I;
    prop_oneof![
        10 => const_s().prop_map(I::Const),
        4 => ident_s().prop_map(I::Identifier),
        4 => ident_s().prop_map(I::Def),
        4 => ident_s().prop_map(I::Get),
        4 => Just(I::Dup),
        2 => Just(I::Pop),
        2 => Just(I::Block),
        2 => Just(I::End),
        3 => target_s().prop_map(I::Jump),
        3 => target_s().prop_map(I::Branch),
        1 => prop_oneof![Just(I::Next), Just(I::Last)],
        3 => target_s().prop_map(I::Call),
        2 => target_s().prop_map(I::Recall),
        3 => (prop_oneof![0usize..3, any::<usize>()], prop_oneof![0usize..3, any::<usize>()]).prop_map(|(m, p)| I::ExtCall(m, p)),
        3 => Just(I::Return),
        2 => prop::sample::select(vec![ExitReason::Normal, ExitReason::Yield, ExitReason::Check, ExitReason::Panic]).prop_map(I::Exit),
        6 => prop::sample::select(vec![I::Add, I::Sub, I::SaturatingAdd, I::SaturatingSub, I::Not, I::Gt, I::Lt, I::Eq]),
        3 => ident_s().prop_map(I::FactNew),
        3 => ident_s().prop_map(I::FactKeySet),
        3 => ident_s().prop_map(I::FactValueSet),
        3 => ident_s().prop_map(I::StructNew),
        3 => ident_s().prop_map(I::StructSet),
        3 => ident_s().prop_map(I::StructGet),
        3 => count_s().prop_map(I::MStructSet),
        3 => count_s().prop_map(I::MStructGet),
        2 => ident_s().prop_map(I::Cast),
        3 => wrap_s().prop_map(I::Wrap),
        2 => wrap_s().prop_map(I::Is),
        3 => wrap_s().prop_map(I::Unwrap),
        8 => prop::sample::select(vec![I::Publish, I::Create, I::Delete, I::Update, I::Emit, I::Query, I::QueryStart, I::Serialize, I::Deserialize]),
        2 => int_s().prop_map(I::FactCount),
        2 => ident_s().prop_map(I::QueryNext),
        2 => Just(I::SaveSP),
        2 => Just(I::RestoreSP),
        1 => prop_oneof![any::<bool>().prop_map(|b| I::Meta(Meta::Finish(b))), (ident_s(), ident_s()).prop_map(|(a, b)| I::Meta(Meta::FFI(a, b)))],
    ]
}

/// Stack-coherent snippets so that execution gets past the first few instructions.
fn snippet_s() -> impl Strategy<Value = Vec<Instruction>> {
    use Instruction as I;
    let fact = (
        ident_s(),
        prop::collection::vec((const_s(), ident_s(), any::<bool>()), 0..3),
        prop::sample::select(vec![I::Query, I::Create, I::Delete, I::QueryStart, I::FactCount(2), I::FactCount(i64::MAX), I::Dup]),
    )
        .prop_map(|(name, sets, last)| {
            let mut v = vec![I::FactNew(name)];
            for (c, f, key) in sets {
                v.push(I::Const(c));
                v.push(if key { I::FactKeySet(f) } else { I::FactValueSet(f) });
            }
            v.push(last);
            v
        });
    let strukt = (
        ident_s(),
        prop::collection::vec((const_s(), ident_s()), 0..3),
        prop_oneof![
            prop::sample::select(vec![I::Emit, I::Publish, I::Serialize, I::Dup, I::Pop]),
            ident_s().prop_map(I::StructGet),
            ident_s().prop_map(I::Cast),
            ident_s().prop_map(I::Def),
        ],
    )
        .prop_map(|(name, sets, last)| {
            let mut v = vec![I::StructNew(name)];
            for (c, f) in sets {
                v.push(I::Const(c));
                v.push(I::StructSet(f));
            }
            v.push(last);
            v
        });
    let mstruct = (ident_s(), prop::collection::vec((ident_s(), const_s()), 1..4), any::<bool>(), -1i8..2).prop_map(
        |(name, sets, get, off)| {
            let mut v = vec![I::StructNew(name)];
            let n = sets.len();
            for (f, c) in &sets {
                v.push(I::Identifier(f.clone()));
                v.push(I::Const(c.clone()));
            }
            let m = NonZeroUsize::new((n as i64 + off as i64).max(1) as usize).unwrap();
            v.push(I::MStructSet(m));
            if get {
                for (f, _) in &sets {
                    v.push(I::Identifier(f.clone()));
                }
                v.push(I::MStructGet(m));
            }
            v
        },
    );
    let arith = (
        const_s(),
        const_s(),
        prop::sample::select(vec![I::Add, I::Sub, I::SaturatingAdd, I::SaturatingSub, I::Gt, I::Lt, I::Eq]),
        prop::option::of(wrap_s()),
    )
        .prop_map(|(a, b, op, un)| {
            let mut v = vec![I::Const(a), I::Const(b), op];
            if let Some(w) = un {
                v.push(I::Unwrap(w));
            }
            v
        });
    let wrap = (const_s(), wrap_s(), wrap_s(), wrap_s()).prop_map(|(c, a, b, d)| vec![I::Const(c), I::Wrap(a), I::Dup, I::Is(b), I::Pop, I::Unwrap(d)]);
    let scope = (ident_s(), const_s(), ident_s()).prop_map(|(a, c, b)| vec![I::Block, I::Const(c), I::Def(a), I::Get(b), I::End]);
    let query_loop = (ident_s(), ident_s(), target_s()).prop_map(|(f, v, t)| vec![I::FactNew(f), I::QueryStart, I::QueryNext(v), I::Branch(t)]);
    let sp = (const_s(), const_s()).prop_map(|(a, b)| vec![I::SaveSP, I::Const(a), I::Const(b), I::RestoreSP]);
    let cond = (any::<bool>(), target_s()).prop_map(|(b, t)| vec![I::Const(ConstValue::Bool(b)), I::Branch(t)]);
    prop_oneof![
        4 => fact,
        4 => strukt,
        3 => mstruct,
        2 => arith,
        2 => wrap,
        2 => scope,
        2 => query_loop,
        1 => sp,
        2 => cond,
        8 => instr_s().prop_map(|i| vec![i]),
    ]
}

fn codemap_s() -> impl Strategy<Value = Option<CodeMapSpec>> {
    prop::option::weighted(
        0.4,
        (
            prop_oneof![Just(String::new()), "[a-z \\n]{0,20}", "[a-z\u{e9}\u{4e2d}\\n]{0,12}"],
            prop::collection::vec((0usize..40, 0usize..24, 0usize..24), 0..5),
            any::<bool>(),
        )
            .prop_map(|(text, mut mapping, sort)| {
                if sort {
                    mapping.sort();
                    for m in &mut mapping {
                        if m.1 > m.2 {
                            std::mem::swap(&mut m.1, &mut m.2);
                        }
                    }
                }
                CodeMapSpec { text, mapping }
            }),
    )
}

fn raw_machine_s() -> impl Strategy<Value = RawMachine> {
    (
        prop::collection::vec(snippet_s(), 1..10),
        prop::collection::vec((ident_s(), fields_s()).prop_map(|(name, items)| StructDef { name, items }), 0..4),
        prop::collection::vec(
            (ident_s(), fields_s(), fields_s(), any::<bool>()).prop_map(|(name, key, value, immutable)| FactDef { name, key, value, immutable }),
            0..3,
        ),
        prop::collection::vec(
            (ident_s(), prop::collection::vec((ident_s(), int_s()), 0..4)).prop_map(|(name, variants)| EnumDef { name, variants }),
            0..3,
        ),
        prop::collection::vec(
            (ident_s(), fields_s(), any::<bool>()).prop_map(|(name, fields, e)| CommandDef {
                name,
                persistence: if e { Persistence::Ephemeral } else { Persistence::Persistent },
                attributes: vec![],
                fields,
            }),
            0..3,
        ),
        prop::collection::vec(
            (ident_s(), fields_s(), type_s()).prop_map(|(name, params, result_type)| ActionDef {
                name,
                persistence: Persistence::Persistent,
                params,
                result_type,
            }),
            0..3,
        ),
        prop::collection::vec((ident_s(), const_s()), 0..3),
        prop::collection::vec((label_s(), prop_oneof![4 => 0usize..40, 1 => any::<usize>()]), 0..4),
        codemap_s(),
    )
        .prop_map(|(snips, struct_defs, fact_defs, enum_defs, command_defs, action_defs, globals, labels, codemap)| RawMachine {
            prog: snips.into_iter().flatten().collect(),
            struct_defs,
            fact_defs,
            enum_defs,
            command_defs,
            action_defs,
            globals,
            labels,
            codemap,
        })
}

fn ioerr_s() -> impl Strategy<Value = IoErr> {
    prop::sample::select(vec![IoErr::FactExists, IoErr::FactNotFound, IoErr::Internal])
}

fn io_s() -> impl Strategy<Value = IoScript> {
    let fv = || prop::collection::vec((ident_s(), value_s()).prop_map(|(i, v)| FactValue::new(i, v)), 0..3);
    let row = prop_oneof![
        1 => ioerr_s().prop_map(Row::Err),
        4 => fv().prop_map(Row::Echo),
        2 => (prop::collection::vec((ident_s(), hashable_s()).prop_map(|(i, v)| FactKey::new(i, v)), 0..3), fv())
            .prop_map(|(k, v)| Row::Fixed(k, v)),
    ];
    let q = prop_oneof![
        1 => ioerr_s().prop_map(QueryScript::Err),
        5 => prop::collection::vec(row, 0..4).prop_map(QueryScript::Rows),
    ];
    let ffi = (0u8..3, prop::collection::vec(value_s(), 0..3), prop_oneof![3 => Just(0u8), 1 => 1u8..6])
        .prop_map(|(pops, pushes, err)| FfiScript { pops, pushes, err });
    (
        prop::collection::vec(q, 0..4),
        prop::collection::vec(prop::option::weighted(0.3, ioerr_s()), 0..3),
        prop::collection::vec(prop::option::weighted(0.3, ioerr_s()), 0..3),
        prop::collection::vec(ffi, 0..3),
    )
        .prop_map(|(queries, inserts, deletes, ffi)| IoScript { queries, inserts, deletes, ffi })
}

fn struct_value_s() -> impl Strategy<Value = Struct> {
    (ident_s(), prop::collection::vec((ident_s(), value_s()), 0..4)).prop_map(|(name, f)| Struct { name, fields: f.into_iter().collect() })
}

fn entry_raw_s() -> impl Strategy<Value = Entry> {
    prop_oneof![
        10 => Just(Entry::Pc(0)),
        3 => (0usize..40).prop_map(Entry::Pc),
        1 => any::<usize>().prop_map(Entry::Pc),
        2 => any::<u16>().prop_map(Entry::Label),
        2 => (ident_s(), prop::collection::vec(value_s(), 0..4)).prop_map(|(n, a)| Entry::Action(n, a)),
        2 => (struct_value_s(), struct_value_s()).prop_map(|(a, b)| Entry::Command(a, b)),
        1 => (struct_value_s(), prop::collection::vec(any::<u8>(), 0..20)).prop_map(|(a, b)| Entry::Seal(a, b)),
        1 => (struct_value_s(), prop::collection::vec(any::<u8>(), 0..20), struct_value_s()).prop_map(|(a, b, c)| Entry::Open(a, b, c)),
    ]
}

fn ctx_s() -> impl Strategy<Value = CtxSpec> {
    (prop_oneof![1 => 0u8..5, 1 => Just(9u8)], ident_s(), any::<u8>()).prop_map(|(kind, name, seed)| CtxSpec { kind, name, seed })
}

fn raw_case() -> impl Strategy<Value = Case> {
    (
        raw_machine_s(),
        entry_raw_s(),
        ctx_s(),
        prop::collection::vec(value_s(), 0..6),
        io_s(),
        prop::collection::vec(any::<u8>(), 0..40),
    )
        .prop_map(|(m, entry, ctx, stack, io, data)| Case { prog: Prog::Raw(m), entry, ctx, stack, io, data })
}

fn edit_s() -> impl Strategy<Value = Edit> {
    prop_oneof![
        6 => (any::<u16>(), instr_s()).prop_map(|(p, i)| Edit::Replace(p, i)),
        3 => (any::<u16>(), instr_s()).prop_map(|(p, i)| Edit::Insert(p, i)),
        4 => any::<u16>().prop_map(Edit::Delete),
        2 => (any::<u16>(), any::<u16>()).prop_map(|(a, b)| Edit::Swap(a, b)),
        4 => (any::<u16>(), prop_oneof![4 => (0usize..400).prop_map(Target::Resolved), 1 => target_s()]).prop_map(|(p, t)| Edit::Retarget(p, t)),
        1 => any::<u16>().prop_map(Edit::Truncate),
        1 => any::<u16>().prop_map(Edit::DropStructDef),
        1 => any::<u16>().prop_map(Edit::DropFactDef),
        1 => any::<u16>().prop_map(Edit::DropEnumDef),
        1 => codemap_s().prop_map(Edit::ReplaceCodemap),
    ]
}

fn mutated_case() -> impl Strategy<Value = Case> {
    (
        any::<u16>(),
        prop::collection::vec(edit_s(), 0..4),
        any::<u16>(),
        ctx_s(),
        prop::collection::vec(value_s(), 0..3),
        io_s(),
        prop::collection::vec(any::<u8>(), 0..64),
    )
        .prop_map(|(base, edits, label, ctx, stack, io, data)| Case {
            prog: Prog::Mutated { base, edits },
            entry: Entry::Label(label),
            ctx,
            stack,
            io,
            data,
        })
}

// ---- building machines -----------------------------------------------------------------------------------------

fn codemap_from(spec: &CodeMapSpec) -> Option<CodeMap> {
    // through serde, as a loaded module would get it (the constructor API cannot express unsorted / reversed spans)
    let mapping: Vec<serde_json::Value> = spec
        .mapping
        .iter()
        .map(|(i, s, e)| serde_json::json!([i, {"start": s, "end": e}]))
        .collect();
    serde_json::from_value(serde_json::json!({"text": spec.text, "mapping": mapping})).ok()
}

/// Struct-typed fields may only name structs that sort before the owner: keeps struct definitions acyclic
/// (a cyclic definition makes `Deserialize` recurse without consuming input, i.e. exhaust the native stack, which
/// is outside what this check can observe in-process).
fn acyclic(t: &TypeKind, owner: &Identifier) -> TypeKind {
    match t {
        TypeKind::Struct(n) if n.as_str() >= owner.as_str() => TypeKind::Int,
        TypeKind::Optional(i) => TypeKind::Optional(Box::new(acyclic(i, owner))),
        TypeKind::Result(r) => TypeKind::Result(Box::new(ResultTypeKind { ok: acyclic(&r.ok, owner), err: acyclic(&r.err, owner) })),
        other => other.clone(),
    }
}

fn build_raw(r: &RawMachine) -> Machine {
    let mut m = Machine::new(r.prog.clone());
    for d in &r.struct_defs {
        let mut d = d.clone();
        for f in &mut d.items {
            f.ty = acyclic(&f.ty, &d.name);
        }
        m.struct_defs.insert(d);
    }
    for d in &r.fact_defs {
        m.fact_defs.insert(d.clone());
    }
    for d in &r.enum_defs {
        m.enum_defs.insert(d.clone());
    }
    for d in &r.command_defs {
        m.command_defs.insert(d.clone());
    }
    for d in &r.action_defs {
        m.action_defs.insert(d.clone());
    }
    for (k, v) in &r.globals {
        m.globals.insert(k.clone(), v.clone());
    }
    for (l, a) in &r.labels {
        m.labels.insert(l.clone(), *a);
    }
    m.codemap = r.codemap.as_ref().and_then(codemap_from);
    m
}

static BASES: OnceLock<Vec<Machine>> = OnceLock::new();

fn bases() -> &'static Vec<Machine> {
    BASES.get_or_init(|| {
        let mut v = Vec::new();
        for (i, src) in policies::RICH.iter().chain(policies::VALID.iter()).enumerate() {
            let doc = policies::to_doc(src);
            let ast = parse_policy_document(&doc).unwrap_or_else(|e| {
                println!("INCONCLUSIVE property=C25 embedded policy {i} does not parse: {e}");
                std::process::exit(2);
            });
            let module = Compiler::new(&ast).debug(true).compile().unwrap_or_else(|e| {
                println!("INCONCLUSIVE property=C25 embedded policy {i} does not compile: {e}");
                std::process::exit(2);
            });
            v.push(Machine::from_module(module).expect("module version"));
            // without debug mode `todo()` is refused, so only some of the policies have a second build
            if let Ok(module) = Compiler::new(&ast).debug(false).compile() {
                v.push(Machine::from_module(module).expect("module version"));
            }
        }
        v
    })
}

fn build_mutated(base: u16, edits: &[Edit]) -> Machine {
    let b = bases();
    let mut m = b[idx(base, b.len())].clone();
    for e in edits {
        let n = m.progmem.len();
        match e {
            Edit::Replace(p, i) => {
                if n > 0 {
                    m.progmem[idx(*p, n)] = i.clone();
                }
            }
            Edit::Insert(p, i) => m.progmem.insert(idx(*p, n + 1), i.clone()),
            Edit::Delete(p) => {
                if n > 0 {
                    m.progmem.remove(idx(*p, n));
                }
            }
            Edit::Swap(a, b) => {
                if n > 0 {
                    m.progmem.swap(idx(*a, n), idx(*b, n));
                }
            }
            Edit::Retarget(p, t) => {
                let jumps: Vec<usize> = m
                    .progmem
                    .iter()
                    .enumerate()
                    .filter(|(_, i)| matches!(i, Instruction::Jump(_) | Instruction::Branch(_) | Instruction::Call(_) | Instruction::Recall(_)))
                    .map(|(k, _)| k)
                    .collect();
                if !jumps.is_empty() {
                    let k = jumps[idx(*p, jumps.len())];
                    m.progmem[k] = match &m.progmem[k] {
                        Instruction::Jump(_) => Instruction::Jump(t.clone()),
                        Instruction::Branch(_) => Instruction::Branch(t.clone()),
                        Instruction::Call(_) => Instruction::Call(t.clone()),
                        _ => Instruction::Recall(t.clone()),
                    };
                }
            }
            Edit::Truncate(p) => m.progmem.truncate(idx(*p, n + 1)),
            Edit::DropStructDef(p) => {
                let all: Vec<StructDef> = m.struct_defs.iter().cloned().collect();
                if !all.is_empty() {
                    let k = idx(*p, all.len());
                    m.struct_defs = all.into_iter().enumerate().filter(|(i, _)| *i != k).map(|(_, d)| (d.name.clone(), d)).collect();
                }
            }
            Edit::DropFactDef(p) => {
                let all: Vec<FactDef> = m.fact_defs.iter().cloned().collect();
                if !all.is_empty() {
                    let k = idx(*p, all.len());
                    m.fact_defs = all.into_iter().enumerate().filter(|(i, _)| *i != k).map(|(_, d)| (d.name.clone(), d)).collect();
                }
            }
            Edit::DropEnumDef(p) => {
                let all: Vec<EnumDef> = m.enum_defs.iter().cloned().collect();
                if !all.is_empty() {
                    let k = idx(*p, all.len());
                    m.enum_defs = all.into_iter().enumerate().filter(|(i, _)| *i != k).map(|(_, d)| (d.name.clone(), d)).collect();
                }
            }
            Edit::ReplaceCodemap(c) => m.codemap = c.as_ref().and_then(codemap_from),
        }
    }
    m
}

// ---- scripted I/O ---------------------------------------------------------------------------------------------------

struct ScriptIo<'a> {
    s: &'a IoScript,
    q: Cell<usize>,
    i: usize,
    d: usize,
    f: Cell<usize>,
    effects: usize,
}

impl<'a> ScriptIo<'a> {
    fn new(s: &'a IoScript) -> Self {
        Self { s, q: Cell::new(0), i: 0, d: 0, f: Cell::new(0), effects: 0 }
    }
}

fn ioerr(e: &IoErr) -> MachineIOError {
    match e {
        IoErr::FactExists => MachineIOError::FactExists,
        IoErr::FactNotFound => MachineIOError::FactNotFound,
        IoErr::Internal => MachineIOError::Internal,
    }
}

impl MachineIO<MachineStack> for ScriptIo<'_> {
    type QueryIterator = std::vec::IntoIter<Result<(FactKeyList, FactValueList), MachineIOError>>;

    fn fact_insert(
        &mut self,
        _name: Identifier,
        key: impl IntoIterator<Item = FactKey>,
        value: impl IntoIterator<Item = FactValue>,
    ) -> Result<(), MachineIOError> {
        let _ = key.into_iter().count();
        let _ = value.into_iter().count();
        let n = self.s.inserts.len();
        let r = if n == 0 { None } else { self.s.inserts[self.i % n].as_ref() };
        self.i += 1;
        match r {
            None => Ok(()),
            Some(e) => Err(ioerr(e)),
        }
    }

    fn fact_delete(&mut self, _name: Identifier, key: impl IntoIterator<Item = FactKey>) -> Result<(), MachineIOError> {
        let _ = key.into_iter().count();
        let n = self.s.deletes.len();
        let r = if n == 0 { None } else { self.s.deletes[self.d % n].as_ref() };
        self.d += 1;
        match r {
            None => Ok(()),
            Some(e) => Err(ioerr(e)),
        }
    }

    fn fact_query(&self, _name: Identifier, key: impl IntoIterator<Item = FactKey>) -> Result<Self::QueryIterator, MachineIOError> {
        let qkeys: Vec<FactKey> = key.into_iter().collect();
        let n = self.s.queries.len();
        let k = self.q.get();
        self.q.set(k + 1);
        if n == 0 {
            return Ok(Vec::new().into_iter());
        }
        match &self.s.queries[k % n] {
            QueryScript::Err(e) => Err(ioerr(e)),
            QueryScript::Rows(rows) => Ok(rows
                .iter()
                .map(|r| match r {
                    Row::Err(e) => Err(ioerr(e)),
                    Row::Echo(v) => Ok((qkeys.clone(), v.clone())),
                    Row::Fixed(k, v) => Ok((k.clone(), v.clone())),
                })
                .collect::<Vec<_>>()
                .into_iter()),
        }
    }

    fn effect(&mut self, _name: Identifier, fields: impl IntoIterator<Item = KVPair>, _command: CmdId, _recalled: bool) {
        let _ = fields.into_iter().count();
        self.effects += 1;
    }

    fn call(&self, module: usize, procedure: usize, stack: &mut MachineStack, _ctx: &CommandContext) -> Result<(), MachineError> {
        let n = self.s.ffi.len();
        let k = self.f.get();
        self.f.set(k + 1);
        if n == 0 {
            return Err(MachineError::new(MachineErrorType::FfiModuleNotDefined(module)));
        }
        let f = &self.s.ffi[k % n];
        for _ in 0..f.pops {
            stack.pop_value().map_err(MachineError::new)?;
        }
        for v in &f.pushes {
            stack.push_value(v.clone()).map_err(MachineError::new)?;
        }
        match f.err {
            0 => Ok(()),
            1 => Err(MachineError::new(MachineErrorType::FfiModuleNotDefined(module))),
            2 => Err(MachineError::new(MachineErrorType::FfiProcedureNotDefined(id("m"), procedure))),
            3 => Err(MachineError::new(MachineErrorType::IO(MachineIOError::Internal))),
            4 => Err(MachineError::new(MachineErrorType::Unknown("ffi".into()))),
            _ => Err(MachineError::new(MachineErrorType::StackUnderflow)),
        }
    }
}

// ---- arguments for compiled entry points ----------------------------------------------------------------------------

struct Cur<'a> {
    d: &'a [u8],
    i: usize,
}

impl Cur<'_> {
    fn u8(&mut self) -> u8 {
        let v = self.d.get(self.i).copied().unwrap_or(0);
        self.i += 1;
        v
    }
}

fn value_of(m: &Machine, t: &TypeKind, c: &mut Cur<'_>, depth: usize) -> Value {
    match t {
        TypeKind::Unit | TypeKind::Never => Value::Unit,
        TypeKind::String => Value::String(Text::from_str(["", "x", "X", "hello", "O"][(c.u8() % 5) as usize]).unwrap()),
        TypeKind::Bytes => Value::Bytes((0..c.u8() % 6).map(|_| c.u8()).collect()),
        TypeKind::Int => Value::Int(match c.u8() % 5 {
            0 => 0,
            1 => c.u8() as i8 as i64,
            2 => i64::MAX,
            3 => i64::MIN,
            _ => 7,
        }),
        TypeKind::Bool => Value::Bool(c.u8() & 1 == 1),
        TypeKind::Id => Value::Id(BaseId::from_bytes([c.u8() % 3; 32])),
        TypeKind::Struct(n) => {
            let mut fields = BTreeMap::new();
            if depth < 6 {
                if let Some(d) = m.struct_defs.get(n) {
                    for f in &d.items {
                        fields.insert(f.name.clone(), value_of(m, &f.ty, c, depth + 1));
                    }
                }
            }
            Value::Struct(Struct { name: n.clone(), fields })
        }
        TypeKind::Enum(n) => {
            let v = m.enum_defs.get(n).map(|e| e.variants.clone()).unwrap_or_default();
            let x = if v.is_empty() { 0 } else { v[(c.u8() as usize) % v.len()].1 };
            Value::Enum(n.clone(), x)
        }
        TypeKind::Optional(i) => {
            if c.u8() % 3 == 0 {
                Value::Option(None)
            } else {
                Value::Option(Some(Box::new(value_of(m, i, c, depth + 1))))
            }
        }
        TypeKind::Result(r) => {
            if c.u8() & 1 == 0 {
                Value::Result(Ok(Box::new(value_of(m, &r.ok, c, depth + 1))))
            } else {
                Value::Result(Err(Box::new(value_of(m, &r.err, c, depth + 1))))
            }
        }
    }
}

fn cmd_struct(m: &Machine, name: &Identifier, c: &mut Cur<'_>) -> Struct {
    let mut fields = BTreeMap::new();
    if let Some(d) = m.command_defs.get(name) {
        for f in &d.fields {
            fields.insert(f.name.clone(), value_of(m, &f.ty, c, 0));
        }
    }
    Struct { name: name.clone(), fields }
}

fn envelope(c: &mut Cur<'_>) -> Struct {
    let mut fields = BTreeMap::new();
    fields.insert(id("parent_id"), Value::Id(BaseId::from_bytes([c.u8() % 3; 32])));
    fields.insert(id("author_id"), Value::Id(BaseId::from_bytes([1; 32])));
    fields.insert(id("command_id"), Value::Id(BaseId::from_bytes([2; 32])));
    fields.insert(id("payload"), Value::Bytes(vec![c.u8()]));
    fields.insert(id("signature"), Value::Bytes(vec![]));
    Struct { name: id("Envelope"), fields }
}

fn make_ctx(kind: u8, name: &Identifier, seed: u8) -> CommandContext {
    let cid = CmdId::from_bytes([seed; 32]);
    match kind {
        0 => CommandContext::Action(ActionContext { name: name.clone(), head_id: cid }),
        1 => CommandContext::Seal(SealContext { name: name.clone(), head_id: cid }),
        2 => CommandContext::Open(OpenContext { name: name.clone() }),
        3 | 4 => {
            let p = PolicyContext {
                name: name.clone(),
                id: cid,
                author: DeviceId::from_bytes([seed.wrapping_add(1); 32]),
                version: BaseId::from_bytes([0; 32]),
            };
            if kind == 3 { CommandContext::Policy(p) } else { CommandContext::Recall(p) }
        }
        _ => unreachable!(),
    }
}

// ---- execution --------------------------------------------------------------------------------------------------------

fn vsize(v: &Value, budget: &mut usize) {
    if *budget == 0 {
        return;
    }
    *budget -= 1;
    match v {
        Value::Struct(s) => {
            for x in s.fields.values() {
                vsize(x, budget);
            }
        }
        Value::Fact(f) => {
            *budget = budget.saturating_sub(f.keys.len());
            for x in &f.values {
                vsize(&x.value, budget);
            }
        }
        Value::Option(Some(b)) => vsize(b, budget),
        Value::Result(Ok(b)) | Value::Result(Err(b)) => vsize(b, budget),
        Value::Bytes(b) => *budget = budget.saturating_sub(b.len() / 64),
        _ => {}
    }
}

#[derive(Debug, Clone, PartialEq)]
enum Outcome {
    Exit(String),
    Error(String),
    StepBound,
    SizeBound,
    YieldBound,
    SetupError(String),
}

struct Plan {
    ctx: CommandContext,
    /// what to do before stepping
    setup: Setup,
}

enum Setup {
    Pc(Vec<Value>),
    Label(Label, Vec<Value>),
    Action(Identifier, Vec<Value>),
    Command(Struct, Struct),
}

fn plan(case: &Case, m: &Machine) -> Plan {
    let mut cur = Cur { d: &case.data, i: 0 };
    let ctx_for = |natural: u8, name: &Identifier| -> CommandContext {
        let kind = if case.ctx.kind < 5 { case.ctx.kind } else { natural };
        // a context for another command name now and then
        let n = if case.ctx.kind < 5 && case.ctx.seed % 4 == 0 { &case.ctx.name } else { name };
        make_ctx(kind, n, case.ctx.seed)
    };
    match &case.entry {
        Entry::Pc(_) => Plan { ctx: ctx_for(3, &case.ctx.name), setup: Setup::Pc(case.stack.clone()) },
        Entry::Action(n, args) => Plan { ctx: ctx_for(0, n), setup: Setup::Action(n.clone(), args.clone()) },
        Entry::Command(t, e) => Plan { ctx: ctx_for(3, &t.name), setup: Setup::Command(t.clone(), e.clone()) },
        Entry::Seal(t, p) => Plan {
            ctx: ctx_for(1, &t.name),
            setup: Setup::Label(Label::new(t.name.clone(), LabelType::CommandSeal), vec![Value::Struct(t.clone()), Value::Bytes(p.clone())]),
        },
        Entry::Open(t, p, e) => Plan {
            ctx: ctx_for(2, &t.name),
            setup: Setup::Label(
                Label::new(t.name.clone(), LabelType::CommandOpen),
                vec![Value::Struct(t.clone()), Value::Bytes(p.clone()), Value::Struct(e.clone())],
            ),
        },
        Entry::Label(k) => {
            let labels: Vec<&Label> = m.labels.keys().collect();
            if labels.is_empty() {
                return Plan { ctx: ctx_for(3, &case.ctx.name), setup: Setup::Pc(case.stack.clone()) };
            }
            let l = labels[idx(*k, labels.len())].clone();
            match l.ltype {
                LabelType::Action => {
                    let args = m
                        .action_defs
                        .get(&l.name)
                        .map(|d| d.params.iter().map(|p| value_of(m, &p.ty, &mut cur, 0)).collect())
                        .unwrap_or_default();
                    Plan { ctx: ctx_for(0, &l.name), setup: Setup::Action(l.name.clone(), args) }
                }
                LabelType::CommandPolicy => {
                    let this = cmd_struct(m, &l.name, &mut cur);
                    Plan { ctx: ctx_for(3, &l.name), setup: Setup::Command(this, envelope(&mut cur)) }
                }
                LabelType::CommandRecall => {
                    let mut st = vec![Value::Struct(cmd_struct(m, &l.name, &mut cur)), Value::Struct(envelope(&mut cur))];
                    st.extend(case.stack.iter().cloned());
                    Plan { ctx: ctx_for(4, &l.name), setup: Setup::Label(l, st) }
                }
                LabelType::CommandSeal => {
                    let st = vec![Value::Struct(cmd_struct(m, &l.name, &mut cur)), Value::Bytes(vec![cur.u8(), cur.u8()])];
                    Plan { ctx: ctx_for(1, &l.name), setup: Setup::Label(l, st) }
                }
                LabelType::CommandOpen => {
                    let st = vec![
                        Value::Struct(cmd_struct(m, &l.name, &mut cur)),
                        Value::Bytes(vec![cur.u8(), cur.u8()]),
                        Value::Struct(envelope(&mut cur)),
                    ];
                    Plan { ctx: ctx_for(2, &l.name), setup: Setup::Label(l, st) }
                }
                LabelType::Function | LabelType::Temporary => {
                    Plan { ctx: ctx_for(3, &case.ctx.name), setup: Setup::Label(l, case.stack.clone()) }
                }
            }
        }
    }
}

const ENTRY: &str = "vh_entry_point";

/// Runs the case once. `bounded`: step by step with the step / size bounds; otherwise through `RunState::run`
/// (only used for cases the bounded run has shown to terminate).
fn execute(m: &Machine, case: &Case, p: &Plan, bounded: bool, last_pc: &Cell<usize>, steps_out: &Cell<usize>) -> Outcome {
    let mut io = ScriptIo::new(&case.io);
    let mut rs = m.create_run_state(&mut io, p.ctx.clone());
    let setup: Result<(), MachineError> = (|| {
        match &p.setup {
            Setup::Pc(st) => {
                rs.set_pc_by_label(&Label::new(id(ENTRY), LabelType::Temporary))?;
                for v in st {
                    rs.stack.push_value(v.clone()).map_err(MachineError::new)?;
                }
            }
            Setup::Label(l, st) => {
                rs.set_pc_by_label(l)?;
                for v in st {
                    rs.stack.push_value(v.clone()).map_err(MachineError::new)?;
                }
            }
            Setup::Action(n, args) => rs.setup_action(n.clone(), args.iter().cloned())?,
            Setup::Command(this, env) => {
                rs.setup_command(Label::new(this.name.clone(), LabelType::CommandPolicy), this.clone())?;
                rs.stack.push_value(Value::Struct(env.clone())).map_err(MachineError::new)?;
            }
        }
        Ok(())
    })();
    if let Err(e) = setup {
        return Outcome::SetupError(format!("{:?}", e.err_type));
    }
    let mut yields = 0;
    if bounded {
        for step in 0..STEP_BOUND {
            last_pc.set(rs.pc());
            steps_out.set(step + 1);
            match rs.step() {
                Ok(MachineStatus::Executing) => {}
                Ok(MachineStatus::Exited(ExitReason::Yield)) => {
                    yields += 1;
                    if yields >= YIELD_BOUND {
                        return Outcome::YieldBound;
                    }
                }
                Ok(MachineStatus::Exited(r)) => return Outcome::Exit(r.to_string()),
                Err(e) => return Outcome::Error(format!("{:?}", std::mem::discriminant(&e.err_type))),
            }
            let mut budget = SIZE_BOUND;
            for v in rs.stack.as_slice() {
                vsize(v, &mut budget);
            }
            if budget == 0 {
                return Outcome::SizeBound;
            }
        }
        Outcome::StepBound
    } else {
        loop {
            match rs.run() {
                Ok(ExitReason::Yield) => {
                    yields += 1;
                    if yields >= YIELD_BOUND {
                        return Outcome::YieldBound;
                    }
                }
                Ok(r) => return Outcome::Exit(r.to_string()),
                Err(e) => return Outcome::Error(format!("{:?}", std::mem::discriminant(&e.err_type))),
            }
        }
    }
}

fn short_file(loc: &str) -> String {
    let l = loc.rsplit_once(':').map(|x| x.0).unwrap_or(loc);
    match l.find("crates/") {
        Some(i) => l[i..].to_string(),
        None => l.to_string(),
    }
}

fn panic_failure(m: &Machine, msg: &str, loc: &str, pc: usize, how: &str) -> Failure {
    let ins = m.progmem.get(pc);
    let sig = match ins {
        Some(Instruction::Next | Instruction::Last) if msg == "not yet implemented" => {
            "vm panic: not yet implemented (Instruction::Next/Last)".to_string()
        }
        Some(Instruction::MStructSet(_)) if msg == "capacity overflow" => {
            "vm panic: capacity overflow (Instruction::MStructSet operand used as allocation size)".to_string()
        }
        _ => {
            let m: String = msg.chars().take(100).collect();
            format!("vm panic: {m} @ {}", short_file(loc))
        }
    };
    Failure::new(sig, format!("{how}: panic `{msg}` at {loc}; pc={pc} instruction={ins:?}"))
}

fn check(case: &Case, info: &mut CaseInfo) -> CheckResult {
    let mut m = match &case.prog {
        Prog::Raw(r) => {
            info.label("raw");
            build_raw(r)
        }
        Prog::Mutated { base, edits } => {
            info.label(if edits.is_empty() { "compiled_unmodified" } else { "compiled_mutated" });
            build_mutated(*base, edits)
        }
    };
    if let Entry::Pc(a) = &case.entry {
        m.labels.insert(Label::new(id(ENTRY), LabelType::Temporary), *a);
    } else if matches!(&case.entry, Entry::Label(_)) && m.labels.is_empty() {
        m.labels.insert(Label::new(id(ENTRY), LabelType::Temporary), 0);
    }
    let p = plan(case, &m);
    let last_pc = Cell::new(0usize);
    let steps = Cell::new(0usize);
    let out = match vcommon::catch(|| execute(&m, case, &p, true, &last_pc, &steps)) {
        Ok(o) => o,
        Err((msg, loc)) => return Err(panic_failure(&m, &msg, &loc, last_pc.get(), "RunState::step")),
    };
    let n = steps.get();
    info.label(match &out {
        Outcome::Exit(r) => format!("exit_{r}"),
        Outcome::Error(_) => "machine_error".to_string(),
        Outcome::StepBound => "step_bound".to_string(),
        Outcome::SizeBound => "size_bound".to_string(),
        Outcome::YieldBound => "yield_bound".to_string(),
        Outcome::SetupError(_) => "setup_error".to_string(),
    });
    info.label(match n {
        0..=1 => "steps_0_1",
        2..=5 => "steps_2_5",
        6..=20 => "steps_6_20",
        21..=100 => "steps_21_100",
        _ => "steps_100_plus",
    });
    if n >= 3 {
        info.nontrivial();
    }
    // the same case through RunState::run (error positioning happens there), when it is known to terminate
    if matches!(out, Outcome::Exit(_) | Outcome::Error(_) | Outcome::YieldBound) {
        let lp = Cell::new(usize::MAX);
        let st = Cell::new(0usize);
        match vcommon::catch(|| execute(&m, case, &p, false, &lp, &st)) {
            Ok(o2) => {
                vcommon::ensure!(
                    o2 == out,
                    "harness: run() and step() disagree (non-deterministic case?)",
                    "step: {out:?} run: {o2:?}"
                );
            }
            Err((msg, loc)) => return Err(panic_failure(&m, &msg, &loc, last_pc.get(), "RunState::run")),
        }
    }
    Ok(())
}

// ---- sequences of entry-point calls on one run state ---------------------------------------------------------------------

#[derive(Clone, Debug, Serialize, Deserialize)]
enum Body {
    /// exits at once: whatever the entry point pushed stays on the stack
    ExitNow,
    /// `Def`s the last `n` parameters, runs the (forward-only) code, then Return or Exit
    Code { n: u8, code: Vec<Instruction>, ret: bool },
}

#[derive(Clone, Debug, Serialize, Deserialize)]
struct DefSpec {
    /// number of parameters (action) / fields (command)
    n: u8,
    /// type selectors, cycled over the parameters
    tys: Vec<u8>,
    /// action: body 0; command: policy, recall, seal, open take body k (cycled)
    bodies: Vec<Body>,
}

#[derive(Clone, Debug, Serialize, Deserialize)]
enum SeqProg {
    Built { actions: Vec<DefSpec>, commands: Vec<DefSpec> },
    /// an unmodified compiled policy of the corpus (every call is stepped with the bounds)
    Base(u16),
}

#[derive(Clone, Debug, Serialize, Deserialize)]
enum ArgMode {
    /// one value of the declared type per parameter / field
    Valid,
    /// this many arguments / fields, typed like the declaration (cycled); valid when the count matches
    Count(u8),
    /// valid, but one argument is of another type
    WrongType(u16),
    Arbitrary(Vec<Value>),
}

#[derive(Clone, Copy, Debug, Serialize, Deserialize)]
enum Via {
    /// RunState::call_action / call_command_policy
    Call,
    /// setup_action / setup_command (+ envelope), then RunState::run
    SetupRun,
    /// setup_*, then step by step
    SetupStep,
    /// Machine::call_action / call_command_policy: a fresh run state
    Fresh,
}

#[derive(Clone, Debug, Serialize, Deserialize)]
enum SeqOp {
    Action { which: u16, args: ArgMode, ctx_ok: bool, via: Via },
    Command { which: u16, args: ArgMode, ctx_ok: bool, via: Via },
    Seal { which: u16, args: ArgMode, ctx_ok: bool, payload: u8 },
    Open { which: u16, args: ArgMode, ctx_ok: bool, payload: u8 },
    Reset,
    Push(u8),
    Pop(u8),
}

#[derive(Clone, Debug, Serialize, Deserialize)]
struct SeqCase {
    prog: SeqProg,
    /// initial stack: these values, then `pad` integers
    prefill: Vec<Value>,
    pad: u8,
    ops: Vec<SeqOp>,
    /// context used when an op asks for a non-matching one
    alt: CtxSpec,
    io: IoScript,
    data: Vec<u8>,
}

fn count_u8_s() -> impl Strategy<Value = u8> {
    prop_oneof![5 => 0u8..6, 2 => 0u8..=130, 2 => 94u8..=106]
}

fn body_s() -> impl Strategy<Value = Body> {
    prop_oneof![
        2 => Just(Body::ExitNow),
        3 => (prop_oneof![3 => 0u8..4, 1 => 0u8..=130, 1 => Just(255u8)], prop::collection::vec(snippet_s(), 0..3), any::<bool>()).prop_map(|(n, sn, ret)| {
            let mut code: Vec<Instruction> = sn.into_iter().flatten().collect();
            code.truncate(8);
            Body::Code { n, code, ret }
        }),
    ]
}

fn defspec_s() -> impl Strategy<Value = DefSpec> {
    (count_u8_s(), prop::collection::vec(0u8..9, 1..4), prop::collection::vec(body_s(), 1..4)).prop_map(|(n, tys, bodies)| DefSpec { n, tys, bodies })
}

fn argmode_s() -> impl Strategy<Value = ArgMode> {
    prop_oneof![
        7 => Just(ArgMode::Valid),
        3 => count_u8_s().prop_map(ArgMode::Count),
        1 => any::<u16>().prop_map(ArgMode::WrongType),
        1 => prop::collection::vec(value_s(), 0..4).prop_map(ArgMode::Arbitrary),
    ]
}

fn seqop_s() -> impl Strategy<Value = SeqOp> {
    let via = || prop::sample::select(vec![Via::Call, Via::Call, Via::Call, Via::SetupRun, Via::SetupStep, Via::Fresh]);
    let ok = || prop::bool::weighted(0.85);
    prop_oneof![
        6 => (any::<u16>(), argmode_s(), ok(), via()).prop_map(|(which, args, ctx_ok, via)| SeqOp::Action { which, args, ctx_ok, via }),
        4 => (any::<u16>(), argmode_s(), ok(), via()).prop_map(|(which, args, ctx_ok, via)| SeqOp::Command { which, args, ctx_ok, via }),
        2 => (any::<u16>(), argmode_s(), ok(), 0u8..20).prop_map(|(which, args, ctx_ok, payload)| SeqOp::Seal { which, args, ctx_ok, payload }),
        2 => (any::<u16>(), argmode_s(), ok(), 0u8..20).prop_map(|(which, args, ctx_ok, payload)| SeqOp::Open { which, args, ctx_ok, payload }),
        1 => Just(SeqOp::Reset),
        2 => prop_oneof![0u8..6, 0u8..=100].prop_map(SeqOp::Push),
        1 => (0u8..12).prop_map(SeqOp::Pop),
    ]
}

fn seq_case() -> impl Strategy<Value = SeqCase> {
    (
        prop_oneof![
            5 => (prop::collection::vec(defspec_s(), 1..3), prop::collection::vec(defspec_s(), 1..3)).prop_map(|(actions, commands)| SeqProg::Built { actions, commands }),
            1 => any::<u16>().prop_map(SeqProg::Base),
        ],
        prop::collection::vec(value_s(), 0..3),
        prop_oneof![3 => Just(0u8), 2 => 0u8..=100, 2 => 88u8..=100],
        prop::collection::vec(seqop_s(), 1..8),
        ctx_s(),
        io_s(),
        prop::collection::vec(any::<u8>(), 0..40),
    )
        .prop_map(|(prog, prefill, pad, ops, alt, io, data)| SeqCase { prog, prefill, pad, ops, alt, io, data })
}

fn sel_type(sel: u8) -> TypeKind {
    match sel % 9 {
        0 => TypeKind::Int,
        1 => TypeKind::Bool,
        2 => TypeKind::String,
        3 => TypeKind::Bytes,
        4 => TypeKind::Id,
        5 => TypeKind::Optional(Box::new(TypeKind::Int)),
        6 => TypeKind::Struct(id("S")),
        7 => TypeKind::Enum(id("E")),
        _ => TypeKind::Result(Box::new(ResultTypeKind { ok: TypeKind::Int, err: TypeKind::String })),
    }
}

fn spec_fields(d: &DefSpec, prefix: &str) -> Vec<Field> {
    (0..d.n as usize)
        .map(|j| Field {
            name: match j {
                0 => id("a"),
                1 => id("b"),
                2 => id("x"),
                _ => id(&format!("{prefix}{j}")),
            },
            ty: sel_type(d.tys[j % d.tys.len()]),
        })
        .collect()
}

/// Appends a body; jumps and branches are made forward-only and calls are left out, so that every run terminates
/// without the step bound (the `call_*` entry points run to the end on their own).
fn emit_body(prog: &mut Vec<Instruction>, b: &Body, params: &[Field], command: bool) {
    use Instruction as I;
    match b {
        Body::ExitNow => prog.push(I::Exit(ExitReason::Normal)),
        Body::Code { n, code, ret } => {
            if command {
                if *n > 0 {
                    prog.push(I::Def(id("this")));
                }
            } else {
                let k = (*n as usize).min(params.len());
                for f in params[params.len() - k..].iter().rev() {
                    prog.push(I::Def(f.name.clone()));
                }
            }
            for i in code {
                let a = prog.len();
                let fwd = |t: &usize| Target::Resolved(a + 1 + t % 6);
                match i {
                    I::Jump(Target::Resolved(t)) => prog.push(I::Jump(fwd(t))),
                    I::Branch(Target::Resolved(t)) => prog.push(I::Branch(fwd(t))),
                    I::Call(Target::Resolved(_)) | I::Recall(Target::Resolved(_)) => {}
                    other => prog.push(other.clone()),
                }
            }
            prog.push(if *ret { I::Return } else { I::Exit(ExitReason::Normal) });
        }
    }
}

fn build_seq(actions: &[DefSpec], commands: &[DefSpec]) -> Machine {
    let mut prog = Vec::new();
    let mut labels = Vec::new();
    let mut adefs = Vec::new();
    let mut cdefs = Vec::new();
    for (i, d) in actions.iter().enumerate() {
        let name = id(&format!("act{i}"));
        let params = spec_fields(d, "p");
        labels.push((Label::new(name.clone(), LabelType::Action), prog.len()));
        emit_body(&mut prog, &d.bodies[0], &params, false);
        adefs.push(ActionDef { name, persistence: Persistence::Persistent, params, result_type: TypeKind::Unit });
    }
    for (i, d) in commands.iter().enumerate() {
        let name = id(&format!("Cmd{i}"));
        let fields = spec_fields(d, "f");
        for (k, lt) in [LabelType::CommandPolicy, LabelType::CommandRecall, LabelType::CommandSeal, LabelType::CommandOpen].into_iter().enumerate() {
            labels.push((Label::new(name.clone(), lt), prog.len()));
            emit_body(&mut prog, &d.bodies[k % d.bodies.len()], &fields, true);
        }
        cdefs.push(CommandDef {
            name,
            persistence: if i % 2 == 0 { Persistence::Persistent } else { Persistence::Ephemeral },
            attributes: vec![],
            fields,
        });
    }
    let mut m = Machine::new(prog);
    for (l, a) in labels {
        m.labels.insert(l, a);
    }
    for d in adefs {
        m.action_defs.insert(d);
    }
    for d in cdefs {
        m.command_defs.insert(d);
    }
    m.struct_defs.insert(StructDef { name: id("S"), items: vec![Field { name: id("a"), ty: TypeKind::Int }, Field { name: id("b"), ty: TypeKind::Bool }] });
    m.enum_defs.insert(EnumDef { name: id("E"), variants: vec![(id("A"), 0), (id("B"), 1)] });
    m.fact_defs.insert(FactDef {
        name: id("F"),
        key: vec![Field { name: id("k"), ty: TypeKind::Int }],
        value: vec![Field { name: id("v"), ty: TypeKind::Int }],
        immutable: false,
    });
    m
}

/// Values for a parameter / field list under an argument mode: (name, value) pairs in declaration order.
fn build_args(m: &Machine, params: &[Field], mode: &ArgMode, cur: &mut Cur<'_>) -> Vec<(Identifier, Value)> {
    let valid = |cur: &mut Cur<'_>| -> Vec<(Identifier, Value)> { params.iter().map(|p| (p.name.clone(), value_of(m, &p.ty, cur, 0))).collect() };
    match mode {
        ArgMode::Valid => valid(cur),
        ArgMode::Count(n) => (0..*n as usize)
            .map(|j| {
                if j < params.len() {
                    (params[j].name.clone(), value_of(m, &params[j].ty, cur, 0))
                } else if params.is_empty() {
                    (id(&format!("e{j}")), Value::Int(j as i64))
                } else {
                    (id(&format!("e{j}")), value_of(m, &params[j % params.len()].ty, cur, 0))
                }
            })
            .collect(),
        ArgMode::WrongType(k) => {
            let mut v = valid(cur);
            if !v.is_empty() {
                let i = idx(*k, v.len());
                v[i].1 = Value::Identifier(id("x"));
            }
            v
        }
        ArgMode::Arbitrary(vs) => vs.iter().enumerate().map(|(j, v)| (id(NAMES[j % NAMES.len()]), v.clone())).collect(),
    }
}

#[derive(Default)]
struct SeqStats {
    calls: usize,
    /// calls that got past argument / context validation
    entered: usize,
    /// calls refused or ended with StackOverflow while the arguments did not fit the free stack
    entry_overflow: usize,
    max_args: usize,
    max_before: usize,
    size_bound: bool,
    step_bound: bool,
}

fn is_validation_error(e: &MachineError) -> bool {
    matches!(
        e.err_type,
        MachineErrorType::NotDefined(_)
            | MachineErrorType::ContextMismatch
            | MachineErrorType::Unknown(_)
            | MachineErrorType::InvalidType { .. }
            | MachineErrorType::InvalidAddress(_)
            | MachineErrorType::InvalidStructMember(_)
    )
}

/// Bounded stepping of whatever the run state is set up for.
fn step_bounded<M: MachineIO<MachineStack>>(rs: &mut aranya_policy_vm::RunState<'_, M>, st: &mut SeqStats) -> Result<ExitReason, MachineError> {
    for _ in 0..STEP_BOUND {
        match rs.step()? {
            MachineStatus::Executing => {}
            MachineStatus::Exited(r) => return Ok(r),
        }
        let mut budget = SIZE_BOUND;
        for v in rs.stack.as_slice() {
            vsize(v, &mut budget);
        }
        if budget == 0 {
            st.size_bound = true;
            return Ok(ExitReason::Yield);
        }
    }
    st.step_bound = true;
    Ok(ExitReason::Yield)
}

fn run_seq(m: &Machine, case: &SeqCase, built: bool, at: &Cell<usize>) -> SeqStats {
    let mut st = SeqStats::default();
    let mut cur = Cur { d: &case.data, i: 0 };
    let mut actions: Vec<&ActionDef> = m.action_defs.iter().collect();
    actions.sort_by(|a, b| a.name.as_str().cmp(b.name.as_str()));
    let mut commands: Vec<&CommandDef> = m.command_defs.iter().collect();
    commands.sort_by(|a, b| a.name.as_str().cmp(b.name.as_str()));
    let alt = &case.alt;
    let ctx_for = |ok: bool, natural: u8, name: &Identifier| -> CommandContext {
        if ok {
            make_ctx(natural, name, alt.seed)
        } else {
            make_ctx(alt.kind % 5, if alt.seed & 1 == 0 { name } else { &alt.name }, alt.seed)
        }
    };
    let mut io = ScriptIo::new(&case.io);
    let mut rs = m.create_run_state(&mut io, make_ctx(alt.kind % 5, &alt.name, alt.seed));
    for v in &case.prefill {
        let _ = rs.stack.push_value(v.clone());
    }
    for i in 0..case.pad {
        let _ = rs.stack.push_value(Value::Int(i64::from(i)));
    }
    for (k, op) in case.ops.iter().enumerate() {
        at.set(k);
        let before = rs.stack.len();
        // (result of the call, number of values the entry point pushes)
        let res: Option<(Result<ExitReason, MachineError>, usize)> = match op {
            SeqOp::Reset => {
                rs.reset();
                None
            }
            SeqOp::Push(n) => {
                for i in 0..*n {
                    let _ = rs.stack.push_value(Value::Int(i64::from(i)));
                }
                None
            }
            SeqOp::Pop(n) => {
                for _ in 0..*n {
                    let _ = rs.stack.pop_value();
                }
                None
            }
            SeqOp::Action { which, args, ctx_ok, via } => {
                if actions.is_empty() {
                    continue;
                }
                let d = actions[idx(*which, actions.len())];
                let vals: Vec<Value> = build_args(m, &d.params, args, &mut cur).into_iter().map(|x| x.1).collect();
                let n = vals.len();
                let ctx = ctx_for(*ctx_ok, 0, &d.name);
                let via = if built { *via } else { Via::SetupStep };
                let r = match via {
                    Via::Call => {
                        rs.set_context(ctx);
                        rs.call_action(d.name.clone(), vals)
                    }
                    Via::SetupRun => {
                        rs.set_context(ctx);
                        rs.setup_action(d.name.clone(), vals).and_then(|()| rs.run())
                    }
                    Via::SetupStep => {
                        rs.set_context(ctx);
                        match rs.setup_action(d.name.clone(), vals) {
                            Ok(()) => step_bounded(&mut rs, &mut st),
                            Err(e) => Err(e),
                        }
                    }
                    Via::Fresh => {
                        let mut io2 = ScriptIo::new(&case.io);
                        m.clone().call_action(d.name.clone(), vals, &mut io2, ctx)
                    }
                };
                Some((r, if matches!(via, Via::Fresh) { 0 } else { n }))
            }
            SeqOp::Command { which, args, ctx_ok, via } => {
                if commands.is_empty() {
                    continue;
                }
                let d = commands[idx(*which, commands.len())];
                let this = Struct { name: d.name.clone(), fields: build_args(m, &d.fields, args, &mut cur).into_iter().collect() };
                let env = envelope(&mut cur);
                let ctx = ctx_for(*ctx_ok, 3, &d.name);
                let via = if built { *via } else { Via::SetupStep };
                let label = Label::new(d.name.clone(), LabelType::CommandPolicy);
                let r = match via {
                    Via::Call => {
                        rs.set_context(ctx);
                        rs.call_command_policy(this, env)
                    }
                    Via::SetupRun | Via::SetupStep => {
                        rs.set_context(ctx);
                        match rs.setup_command(label, this).and_then(|()| rs.stack.push_value(Value::Struct(env)).map_err(MachineError::new)) {
                            Ok(()) => {
                                if matches!(via, Via::SetupRun) {
                                    rs.run()
                                } else {
                                    step_bounded(&mut rs, &mut st)
                                }
                            }
                            Err(e) => Err(e),
                        }
                    }
                    Via::Fresh => {
                        let mut io2 = ScriptIo::new(&case.io);
                        m.clone().call_command_policy(this, env, &mut io2, ctx)
                    }
                };
                Some((r, if matches!(via, Via::Fresh) { 0 } else { 2 }))
            }
            SeqOp::Seal { which, args, ctx_ok, payload } | SeqOp::Open { which, args, ctx_ok, payload } => {
                if commands.is_empty() {
                    continue;
                }
                let open = matches!(op, SeqOp::Open { .. });
                let d = commands[idx(*which, commands.len())];
                let this = Struct { name: d.name.clone(), fields: build_args(m, &d.fields, args, &mut cur).into_iter().collect() };
                let bytes: Vec<u8> = (0..*payload).map(|_| cur.u8()).collect();
                let env = envelope(&mut cur);
                rs.set_context(ctx_for(*ctx_ok, if open { 2 } else { 1 }, &d.name));
                let r = if built {
                    if open { rs.call_open(this, bytes, env) } else { rs.call_seal(this, bytes) }
                } else {
                    // compiled bodies: same pushes, stepped with the bounds
                    let l = Label::new(d.name.clone(), if open { LabelType::CommandOpen } else { LabelType::CommandSeal });
                    let setup = (|| -> Result<(), MachineError> {
                        rs.set_pc_by_label(&l)?;
                        rs.stack.push_value(Value::Struct(this)).map_err(MachineError::new)?;
                        rs.stack.push_value(Value::Bytes(bytes)).map_err(MachineError::new)?;
                        if open {
                            rs.stack.push_value(Value::Struct(env)).map_err(MachineError::new)?;
                        }
                        Ok(())
                    })();
                    match setup {
                        Ok(()) => step_bounded(&mut rs, &mut st),
                        Err(e) => Err(e),
                    }
                };
                Some((r, if open { 3 } else { 2 }))
            }
        };
        if let Some((r, n)) = res {
            st.calls += 1;
            st.max_args = st.max_args.max(n);
            st.max_before = st.max_before.max(before);
            match &r {
                Ok(_) => st.entered += 1,
                Err(e) => {
                    if !is_validation_error(e) {
                        st.entered += 1;
                    }
                    if matches!(e.err_type, MachineErrorType::StackOverflow) && before + n > 100 {
                        st.entry_overflow += 1;
                    }
                }
            }
        }
        if st.size_bound || st.step_bound {
            break;
        }
        let mut budget = SIZE_BOUND;
        for v in rs.stack.as_slice() {
            vsize(v, &mut budget);
        }
        if budget == 0 {
            st.size_bound = true;
            break;
        }
    }
    st
}

fn check_seq(case: &SeqCase, info: &mut CaseInfo) -> CheckResult {
    let (m, built) = match &case.prog {
        SeqProg::Built { actions, commands } => {
            info.label("built");
            (build_seq(actions, commands), true)
        }
        SeqProg::Base(b) => {
            info.label("compiled_unmodified");
            let all = bases();
            (all[idx(*b, all.len())].clone(), false)
        }
    };
    let at = Cell::new(0usize);
    let st = match vcommon::catch(|| run_seq(&m, case, built, &at)) {
        Ok(st) => st,
        Err((msg, loc)) => {
            let k = at.get();
            let short: String = msg.chars().take(100).collect();
            return Err(Failure::new(
                format!("vm panic: {short} @ {}", short_file(&loc)),
                format!("entry-point sequence: panic `{msg}` at {loc} in op #{k} {:?}", case.ops.get(k)),
            ));
        }
    };
    if st.entered >= 1 {
        info.nontrivial();
    }
    info.label(match st.entered {
        0 => "entered_0_calls",
        1 => "entered_1_call",
        _ => "entered_2plus_calls_on_one_run_state",
    });
    if st.entry_overflow > 0 {
        info.label("stack_overflow_with_arguments_that_do_not_fit");
    }
    if st.max_args > 100 {
        info.label("more_than_100_arguments");
    }
    if st.max_before >= 90 {
        info.label("call_on_nearly_full_stack");
    }
    if st.size_bound {
        info.label("size_bound");
    }
    if st.step_bound {
        info.label("step_bound");
    }
    Ok(())
}

// ---- child-process probe for operands that make the allocation fail instead of panic -----------------------------------

pub fn child_main(spec: &str) -> ! {
    let n: usize = spec.parse().unwrap_or(1);
    let prog = vec![
        Instruction::StructNew(id("S")),
        Instruction::Identifier(id("a")),
        Instruction::Const(ConstValue::Int(1)),
        Instruction::MStructSet(NonZeroUsize::new(n.max(1)).unwrap()),
        Instruction::Exit(ExitReason::Normal),
    ];
    let mut m = Machine::new(prog);
    m.struct_defs.insert(StructDef { name: id("S"), items: vec![Field { name: id("a"), ty: TypeKind::Int }] });
    let script = IoScript::default();
    let mut io = ScriptIo::new(&script);
    let mut rs = m.create_run_state(&mut io, make_ctx(3, &id("S"), 1));
    let r = rs.run();
    println!("child finished: {r:?}");
    std::process::exit(0);
}

fn alloc_probe(ctx: &Ctx, rep: &mut Report<'_>) {
    const PART: &str = "alloc_probe";
    if !rep.wants(PART) {
        return;
    }
    let mut operands: Vec<u64> = vec![1, 2, 1 << 45, 1 << 50];
    if let Some(rp) = rep.replay_for(PART) {
        operands = vec![rp.case.get("operand").and_then(|v| v.as_u64()).unwrap_or(1 << 50)];
    }
    let mut part = PartResult {
        name: PART.into(),
        rule: "StructNew; Identifier; Const; MStructSet(n); Exit run in a child process for n in {1, 2, 2^45, 2^50}: \
               the child must end with a machine error or exit, not die (abort/signal/panic). Non-trivial = n larger \
               than the stack"
            .into(),
        exhaustive: false,
        ..Default::default()
    };
    let exe = std::env::current_exe().expect("current exe");
    for n in operands {
        part.evaluations += 1;
        if n > 100 {
            part.distinct_nontrivial += 1;
        }
        let out = std::process::Command::new(&exe)
            .env("VH_ROBUST_C25_CHILD", n.to_string())
            .env_remove("RUST_BACKTRACE")
            .output();
        let (ok, detail) = match out {
            Ok(o) => (
                o.status.code() == Some(0),
                format!(
                    "operand={n} status={:?} stdout={:?} stderr={:?}",
                    o.status,
                    String::from_utf8_lossy(&o.stdout).chars().take(200).collect::<String>(),
                    String::from_utf8_lossy(&o.stderr).chars().take(300).collect::<String>()
                ),
            ),
            Err(e) => {
                println!("INCONCLUSIVE property=C25 cannot spawn child: {e}");
                std::process::exit(2);
            }
        };
        *part.labels.entry(if ok { "child_ok".into() } else { "child_died".into() }).or_default() += 1;
        if !ok {
            let fl = Failure::new("vm abort: MStructSet operand used as allocation size (allocation failure kills the process)", detail);
            if rep.is_known(PART, &fl) {
                part.known_excluded += 1;
            } else if part.violation.is_none() {
                let case = serde_json::json!({"operand": n});
                if !ctx.is_replay() {
                    // finish() writes the replay file for parts with a violation
                }
                part.violation = Some((fl, case));
            }
        }
    }
    rep.add_part(part);
}

pub fn run(ctx: &Ctx) -> ! {
    let mut rep = Report::new(ctx, "exploration");
    let _ = bases();
    rep.assume(format!("a run that reaches {STEP_BOUND} steps, {YIELD_BOUND} yields or {SIZE_BOUND} value nodes on the stack counts as not panicking"));
    rep.assume("struct definitions are acyclic (a cyclic one makes Deserialize recurse without consuming input); native stack exhaustion and memory exhaustion are not observed by this check");
    rep.assume("MStructSet/MStructGet operands between 300 and 2^60 are exercised only by the child-process probe (the up-front allocation would abort the harness process)");
    rep.explore(
        "raw_programs",
        "hand-built machines: 1..9 snippets (stack-coherent fact/struct/mstruct/arith/wrap/scope/query-loop/SP/branch templates \
         or single instructions over all 52 Instruction variants with arbitrary operands, targets in and out of range, \
         unresolved targets, huge counts), 0..3 struct/fact/enum/command/action definitions over a small name pool, globals, \
         labels, optional (possibly unsorted / out-of-range / empty-text) codemap; initial stack of 0..5 arbitrary Values \
         (nested structs, facts, options, results, ids, bytes); entry by address, label, setup_action, setup_command, \
         seal/open shape; all five context kinds; scripted I/O (query rows echoing the query keys, fixed rows, row errors, \
         insert/delete errors, FFI calls that pop/push values and fail). Each case is stepped with the bounds, then re-run \
         through RunState::run when it terminated. Non-trivial = at least 3 instructions executed",
        raw_case,
        ctx.pick(150_000, 3_000_000),
        check,
    );
    rep.explore(
        "mutated_modules",
        "8 compiled policies (with and without debug) from this harness's corpus, 0..3 edits (replace/insert/delete/swap \
         instruction, retarget a jump/branch/call/recall, truncate, drop a struct/fact/enum definition, replace the \
         codemap), entered at a label of the module with arguments built to match the action/command definitions \
         (or deliberately another context), same scripted I/O. Non-trivial = at least 3 instructions executed",
        mutated_case,
        ctx.pick(100_000, 2_000_000),
        check,
    );
    rep.explore(
        "entry_sequences",
        "1..7 ops on ONE RunState (no reset unless the sequence says so) whose stack starts with 0..2 arbitrary values plus 0..100 \
         integers: call_action / call_command_policy / call_seal / call_open, setup_action / setup_command followed by run() or \
         step(), Machine::call_action / call_command_policy (fresh run state), reset(), push 0..100 values, pop. Machines: hand-built \
         with 1..2 actions and 1..2 commands of 0..130 parameters / fields (typed Int/Bool/String/Bytes/Id/Optional/Struct/Enum/Result) \
         whose bodies exit at once (arguments stay on the stack), or Def 0..all parameters and run up to 8 snippet instructions \
         (jumps forward-only, no calls, so every run ends) before Return / Exit; or (1 in 6) an unmodified compiled policy of the \
         corpus, stepped with the bounds. Arguments: valid for the declaration, a chosen count 0..130 typed like the declaration, \
         one wrong type, or arbitrary values; context matching the call (85%) or another one. Oracle: no host panic. Non-trivial = \
         at least one call got past argument / context validation",
        seq_case,
        ctx.pick(40_000, 800_000),
        check_seq,
    );
    alloc_probe(ctx, &mut rep);
    rep.finish()
}
