pub fn run(_ctx: &vcommon::Ctx) -> ! { todo!() }
pub fn child_main(_s: &str) -> ! { todo!() }
