//! C26: schema-driven struct (de)serialization: round trip for conforming values, rejection of the corruption
//! classes the statement lists, no panic on arbitrary bytes.
use std::{collections::BTreeMap, str::FromStr};

use aranya_id::BaseId;
use aranya_policy_ast::{Identifier, Text};
use aranya_policy_module::{EnumDef, Field, ResultTypeKind, StructDef, TypeKind};
use aranya_policy_vm::{Machine, Struct, Value};
use proptest::prelude::*;
use serde::{Deserialize, Serialize};
use vcommon::{CaseInfo, CheckResult, Ctx, Failure, Report, ensure, idx};

// ---- generated schemas (plain data) ------------------------------------------------------------------

#[derive(Clone, Debug, Serialize, Deserialize)]
enum Ty {
    Unit,
    String,
    Bytes,
    Int,
    Bool,
    Id,
    /// refers to a struct with a lower index (so schemas are acyclic)
    Struct(u16),
    Enum(u16),
    Optional(Box<Ty>),
    Result(Box<Ty>, Box<Ty>),
    Never,
}

#[derive(Clone, Debug, Serialize, Deserialize)]
struct Schema {
    /// enum j has variants V0.. with these (distinct) values
    enums: Vec<Vec<i64>>,
    /// struct i has fields f0.. of these types; the last struct is the root
    structs: Vec<Vec<Ty>>,
}

#[derive(Clone, Debug, Serialize, Deserialize)]
struct Case {
    schema: Schema,
    /// entropy from which the conforming value and the corruption choices are derived
    data: Vec<u8>,
}

#[derive(Clone, Debug, Serialize, Deserialize)]
struct ByteCase {
    schema: Schema,
    data: Vec<u8>,
    /// None: `raw` is the input; Some: edits applied to the valid encoding of the value derived from `data`
    raw: Option<Vec<u8>>,
    edits: Vec<(u16, u8)>,
}

fn interesting_i64() -> impl Strategy<Value = i64> {
    prop_oneof![
        3 => -70i64..70,
        2 => any::<i64>(),
        1 => Just(i64::MIN),
        1 => Just(i64::MAX),
        2 => (0u32..9, -2i64..3, any::<bool>()).prop_map(|(k, d, neg)| {
            let v = (1i64 << (7 * k).min(62)).wrapping_add(d);
            if neg { v.wrapping_neg() } else { v }
        }),
    ]
}

fn ty() -> impl Strategy<Value = Ty> {
    let leaf = prop_oneof![
        1 => Just(Ty::Unit),
        3 => Just(Ty::String),
        2 => Just(Ty::Bytes),
        3 => Just(Ty::Int),
        2 => Just(Ty::Bool),
        3 => Just(Ty::Id),
        3 => any::<u16>().prop_map(Ty::Struct),
        3 => any::<u16>().prop_map(Ty::Enum),
        1 => Just(Ty::Never),
    ];
    leaf.prop_recursive(3, 8, 2, |inner| {
        prop_oneof![
            inner.clone().prop_map(|t| Ty::Optional(Box::new(t))),
            (inner.clone(), inner).prop_map(|(a, b)| Ty::Result(Box::new(a), Box::new(b))),
        ]
    })
}

fn schema() -> impl Strategy<Value = Schema> {
    (
        prop::collection::vec(prop::collection::vec(interesting_i64(), 1..5), 0..3),
        prop::collection::vec(prop::collection::vec(ty(), 0..6), 1..5),
    )
        .prop_map(|(mut enums, structs)| {
            for e in &mut enums {
                let mut seen = Vec::new();
                e.retain(|v| {
                    if seen.contains(v) {
                        false
                    } else {
                        seen.push(*v);
                        true
                    }
                });
            }
            Schema { enums, structs }
        })
}

fn case() -> impl Strategy<Value = Case> {
    (schema(), prop::collection::vec(any::<u8>(), 0..200)).prop_map(|(schema, data)| Case { schema, data })
}

fn byte_case() -> impl Strategy<Value = ByteCase> {
    (
        schema(),
        prop::collection::vec(any::<u8>(), 0..120),
        prop::option::weighted(0.4, prop::collection::vec(any::<u8>(), 0..80)),
        prop::collection::vec((any::<u16>(), any::<u8>()), 1..4),
    )
        .prop_map(|(schema, data, raw, edits)| ByteCase { schema, data, raw, edits })
}

// ---- resolving a generated schema into the VM's definitions ----------------------------------------

fn ident(s: String) -> Identifier {
    Identifier::from_str(&s).expect("generated names are identifiers")
}

fn sname(i: usize) -> Identifier {
    ident(format!("S{i}"))
}

fn ename(j: usize) -> Identifier {
    ident(format!("E{j}"))
}

fn fname(k: usize) -> Identifier {
    // a mix of short and long (heap-stored) names; BTreeMap order of the value differs from definition order
    match k % 3 {
        0 => ident(format!("f{k}")),
        1 => ident(format!("z_field_number_{k}_with_a_long_name")),
        _ => ident(format!("A{k}")),
    }
}

fn inhabited(t: &TypeKind) -> bool {
    match t {
        TypeKind::Never => false,
        TypeKind::Result(r) => inhabited(&r.ok) || inhabited(&r.err),
        _ => true,
    }
}

/// `top`: Never is only kept directly below Optional / Result.
fn resolve(t: &Ty, owner: usize, n_enums: usize, top: bool) -> TypeKind {
    match t {
        Ty::Unit => TypeKind::Unit,
        Ty::String => TypeKind::String,
        Ty::Bytes => TypeKind::Bytes,
        Ty::Int => TypeKind::Int,
        Ty::Bool => TypeKind::Bool,
        Ty::Id => TypeKind::Id,
        Ty::Struct(k) => {
            if owner == 0 {
                TypeKind::Int
            } else {
                TypeKind::Struct(sname(idx(*k, owner)))
            }
        }
        Ty::Enum(k) => {
            if n_enums == 0 {
                TypeKind::Bool
            } else {
                TypeKind::Enum(ename(idx(*k, n_enums)))
            }
        }
        Ty::Optional(i) => TypeKind::Optional(Box::new(resolve(i, owner, n_enums, false))),
        Ty::Result(a, b) => {
            let mut ok = resolve(a, owner, n_enums, false);
            let err = resolve(b, owner, n_enums, false);
            if !inhabited(&ok) && !inhabited(&err) {
                ok = TypeKind::Unit;
            }
            TypeKind::Result(Box::new(ResultTypeKind { ok, err }))
        }
        Ty::Never => {
            if top {
                TypeKind::Unit
            } else {
                TypeKind::Never
            }
        }
    }
}

struct Defs {
    structs: Vec<StructDef>,
    enums: Vec<EnumDef>,
    machine: Machine,
}

fn build(s: &Schema) -> Defs {
    let n_enums = s.enums.len();
    let structs = s
        .structs
        .iter()
        .enumerate()
        .map(|(i, fields)| fields.iter().map(|t| resolve(t, i, n_enums, true)).collect())
        .collect();
    build_defs(&s.enums, structs)
}

fn build_defs(enum_vals: &[Vec<i64>], struct_fields: Vec<Vec<TypeKind>>) -> Defs {
    let enums: Vec<EnumDef> = enum_vals
        .iter()
        .enumerate()
        .map(|(j, vals)| EnumDef {
            name: ename(j),
            variants: vals.iter().enumerate().map(|(k, v)| (ident(format!("V{k}")), *v)).collect(),
        })
        .collect();
    let structs: Vec<StructDef> = struct_fields
        .into_iter()
        .enumerate()
        .map(|(i, fields)| StructDef {
            name: sname(i),
            items: fields.into_iter().enumerate().map(|(k, ty)| Field { name: fname(k), ty }).collect(),
        })
        .collect();
    let mut machine = Machine::new(Vec::new());
    for d in &structs {
        machine.struct_defs.insert(d.clone());
    }
    for e in &enums {
        machine.enum_defs.insert(e.clone());
    }
    Defs { structs, enums, machine }
}

impl Defs {
    fn sdef(&self, n: &Identifier) -> &StructDef {
        self.structs.iter().find(|d| d.name == *n).expect("struct defined")
    }
    fn edef(&self, n: &Identifier) -> &EnumDef {
        self.enums.iter().find(|d| d.name == *n).expect("enum defined")
    }
    fn root(&self) -> &StructDef {
        self.structs.last().expect("at least one struct")
    }
}

// ---- conforming values from entropy -------------------------------------------------------------------

/// How optional values are chosen between None and Some (wide part; `Entropy` is what the small parts use).
#[derive(Clone, Copy, Debug, Serialize, Deserialize, PartialEq)]
enum Bias {
    /// one entropy byte per optional: None with probability 1/3 (None once the entropy is used up)
    Entropy,
    /// None except for about 1 in 16 (entropy byte)
    MostlyNone,
    /// Some except for about 1 in 16 (entropy byte)
    MostlySome,
    AllNone,
    AllSome,
    /// the n-th optional met (counting from `phase`) is the odd one out when n % p == 0: `some` = true: that one is
    /// Some and the others None; false: that one is None and the others Some. p = 2 alternates.
    Period { p: u8, phase: u8, some: bool },
}

struct Cur<'a> {
    d: &'a [u8],
    i: usize,
    bias: Bias,
    /// optionals met so far
    nopt: usize,
    /// > 0: some texts / byte strings get this many extra bytes, while `long_left` lasts
    long_text: usize,
    long_bytes: usize,
    long_left: usize,
}

impl<'a> Cur<'a> {
    fn new(d: &'a [u8]) -> Self {
        Cur { d, i: 0, bias: Bias::Entropy, nopt: 0, long_text: 0, long_bytes: 0, long_left: 0 }
    }
}

impl Cur<'_> {
    fn u8(&mut self) -> u8 {
        let v = self.d.get(self.i).copied().unwrap_or(0);
        self.i += 1;
        v
    }
    fn want_none(&mut self) -> bool {
        let n = self.nopt;
        self.nopt += 1;
        match self.bias {
            Bias::Entropy => self.u8() % 3 == 0,
            Bias::MostlyNone => self.u8() % 16 != 1,
            Bias::MostlySome => self.u8() % 16 == 1,
            Bias::AllNone => true,
            Bias::AllSome => false,
            Bias::Period { p, phase, some } => {
                let odd = (n + phase as usize) % (p.max(1) as usize) == 0;
                odd != some
            }
        }
    }
    fn i64(&mut self) -> i64 {
        match self.u8() % 6 {
            0 => 0,
            1 => self.u8() as i8 as i64,
            2 => {
                let mut b = [0u8; 8];
                for x in &mut b {
                    *x = self.u8();
                }
                i64::from_le_bytes(b)
            }
            3 => i64::MIN,
            4 => i64::MAX,
            _ => {
                let k = (self.u8() % 9) as u32;
                let v = (1i64 << (7 * k).min(62)).wrapping_add((self.u8() % 5) as i64 - 2);
                if self.u8() & 1 == 1 { v.wrapping_neg() } else { v }
            }
        }
    }
    fn text(&mut self) -> String {
        const ALPHA: &[&str] = &["a", "Z", "0", " ", "_", "\u{e9}", "\u{4e2d}", "\u{1F600}", "\n", "\"", "\u{7f}", "\u{1}"];
        let n = (self.u8() % 14) as usize;
        let mut s = String::new();
        for _ in 0..n {
            s.push_str(ALPHA[(self.u8() as usize) % ALPHA.len()]);
        }
        // occasionally long enough for a 2-byte length prefix
        if self.u8() % 23 == 0 {
            s.push_str(&"x".repeat(130));
        }
        if self.long_text > 0 && self.long_left >= self.long_text && self.u8() % 3 == 0 {
            // long text (up to 3-byte length prefixes) of one repeated, possibly multi-byte, character
            self.long_left -= self.long_text;
            let unit = ALPHA[(self.u8() as usize) % ALPHA.len()];
            s.push_str(&unit.repeat(self.long_text.div_ceil(unit.len())));
        }
        s
    }
    fn bytes(&mut self) -> Vec<u8> {
        let n = (self.u8() % 12) as usize;
        let mut v: Vec<u8> = (0..n).map(|_| self.u8()).collect();
        if self.long_bytes > 0 && self.long_left >= self.long_bytes && self.u8() % 3 == 0 {
            self.long_left -= self.long_bytes;
            let (a, step) = (self.u8(), self.u8());
            v.extend((0..self.long_bytes).map(|k| a.wrapping_add((k as u8).wrapping_mul(step))));
        }
        v
    }
}

fn gen_value(d: &Defs, t: &TypeKind, c: &mut Cur<'_>) -> Value {
    match t {
        TypeKind::Unit => Value::Unit,
        TypeKind::String => Value::String(Text::from_str(&c.text()).expect("no NUL generated")),
        TypeKind::Bytes => Value::Bytes(c.bytes()),
        TypeKind::Int => Value::Int(c.i64()),
        TypeKind::Bool => Value::Bool(c.u8() & 1 == 1),
        TypeKind::Id => {
            let mut b = [0u8; 32];
            let mode = c.u8() % 4;
            for x in &mut b {
                *x = match mode {
                    0 => 0,
                    1 => 0xff,
                    _ => c.u8(),
                };
            }
            Value::Id(BaseId::from_bytes(b))
        }
        TypeKind::Struct(n) => Value::Struct(gen_struct(d, d.sdef(n), c)),
        TypeKind::Enum(n) => {
            let e = d.edef(n);
            let (_, v) = &e.variants[(c.u8() as usize) % e.variants.len()];
            Value::Enum(n.clone(), *v)
        }
        TypeKind::Optional(i) => {
            if !inhabited(i) || c.want_none() {
                Value::Option(None)
            } else {
                Value::Option(Some(Box::new(gen_value(d, i, c))))
            }
        }
        TypeKind::Result(r) => {
            let want_ok = c.u8() & 1 == 0;
            let ok = if !inhabited(&r.ok) { false } else if !inhabited(&r.err) { true } else { want_ok };
            if ok {
                Value::Result(Ok(Box::new(gen_value(d, &r.ok, c))))
            } else {
                Value::Result(Err(Box::new(gen_value(d, &r.err, c))))
            }
        }
        TypeKind::Never => unreachable!("never generated for uninhabited types"),
    }
}

fn gen_struct(d: &Defs, def: &StructDef, c: &mut Cur<'_>) -> Struct {
    let mut fields = BTreeMap::new();
    for f in &def.items {
        fields.insert(f.name.clone(), gen_value(d, &f.ty, c));
    }
    Struct { name: def.name.clone(), fields }
}

// ---- reference encoder, written from the postcard wire specification ----------------------------------

#[derive(Debug, Clone)]
enum Mark {
    /// option / result discriminant byte
    Tag { pos: usize },
    /// varint of an enum value
    EnumVal { pos: usize, len: usize, def: Identifier },
    /// string: length varint at pos_len.., content at pos..pos+len
    Str { pos_len: usize, pos: usize, len: usize },
    /// id: length byte at pos
    Id { pos: usize },
}

fn varint(mut v: u64, out: &mut Vec<u8>) {
    loop {
        let b = (v & 0x7f) as u8;
        v >>= 7;
        if v == 0 {
            out.push(b);
            return;
        }
        out.push(b | 0x80);
    }
}

fn zigzag(v: i64) -> u64 {
    ((v << 1) ^ (v >> 63)) as u64
}

fn ref_encode(d: &Defs, v: &Value, t: &TypeKind, out: &mut Vec<u8>, marks: &mut Vec<Mark>) -> Result<(), String> {
    match (v, t) {
        (Value::Unit, TypeKind::Unit) => {}
        (Value::Int(x), TypeKind::Int) => varint(zigzag(*x), out),
        (Value::Bool(b), TypeKind::Bool) => out.push(u8::from(*b)),
        (Value::String(s), TypeKind::String) => {
            let pos_len = out.len();
            varint(s.as_str().len() as u64, out);
            marks.push(Mark::Str { pos_len, pos: out.len(), len: s.as_str().len() });
            out.extend_from_slice(s.as_str().as_bytes());
        }
        (Value::Bytes(b), TypeKind::Bytes) => {
            varint(b.len() as u64, out);
            out.extend_from_slice(b);
        }
        (Value::Id(id), TypeKind::Id) => {
            marks.push(Mark::Id { pos: out.len() });
            out.push(32);
            out.extend_from_slice(id.as_bytes());
        }
        (Value::Enum(n, x), TypeKind::Enum(tn)) if n == tn => {
            let pos = out.len();
            varint(zigzag(*x), out);
            marks.push(Mark::EnumVal { pos, len: out.len() - pos, def: n.clone() });
        }
        (Value::Struct(s), TypeKind::Struct(tn)) if s.name == *tn => {
            let def = d.sdef(tn);
            for f in &def.items {
                let fv = s.fields.get(&f.name).ok_or_else(|| format!("missing field {}", f.name))?;
                ref_encode(d, fv, &f.ty, out, marks)?;
            }
        }
        (Value::Option(o), TypeKind::Optional(i)) => {
            marks.push(Mark::Tag { pos: out.len() });
            match o {
                None => out.push(0),
                Some(x) => {
                    out.push(1);
                    ref_encode(d, x, i, out, marks)?;
                }
            }
        }
        (Value::Result(r), TypeKind::Result(rt)) => {
            marks.push(Mark::Tag { pos: out.len() });
            match r {
                Ok(x) => {
                    out.push(0);
                    ref_encode(d, x, &rt.ok, out, marks)?;
                }
                Err(x) => {
                    out.push(1);
                    ref_encode(d, x, &rt.err, out, marks)?;
                }
            }
        }
        _ => return Err(format!("value {v:?} does not have type {t}")),
    }
    Ok(())
}

/// The statement's notion of "matches its schema", written independently of `fits_type`.
fn conforms(d: &Defs, v: &Value, t: &TypeKind) -> bool {
    match (v, t) {
        (Value::Unit, TypeKind::Unit) | (Value::Int(_), TypeKind::Int) | (Value::Bool(_), TypeKind::Bool) => true,
        (Value::String(s), TypeKind::String) => !s.as_str().contains('\0'),
        (Value::Bytes(_), TypeKind::Bytes) | (Value::Id(_), TypeKind::Id) => true,
        (Value::Enum(n, x), TypeKind::Enum(tn)) => n == tn && d.edef(tn).variants.iter().any(|(_, v)| v == x),
        (Value::Struct(s), TypeKind::Struct(tn)) => {
            let def = d.sdef(tn);
            s.name == *tn
                && s.fields.len() == def.items.len()
                && def.items.iter().all(|f| s.fields.get(&f.name).is_some_and(|fv| conforms(d, fv, &f.ty)))
        }
        (Value::Option(None), TypeKind::Optional(_)) => true,
        (Value::Option(Some(x)), TypeKind::Optional(i)) => conforms(d, x, i),
        (Value::Result(Ok(x)), TypeKind::Result(r)) => conforms(d, x, &r.ok),
        (Value::Result(Err(x)), TypeKind::Result(r)) => conforms(d, x, &r.err),
        _ => false,
    }
}

fn feature_labels(t: &TypeKind, d: &Defs, depth: usize, info: &mut CaseInfo) {
    match t {
        TypeKind::Struct(n) => {
            info.label("has_nested_struct");
            if depth < 6 {
                for f in &d.sdef(n).items {
                    feature_labels(&f.ty, d, depth + 1, info);
                }
            }
        }
        TypeKind::Enum(_) => info.label("has_enum"),
        TypeKind::Id => info.label("has_id"),
        TypeKind::String => info.label("has_text"),
        TypeKind::Bytes => info.label("has_bytes"),
        TypeKind::Optional(i) => {
            info.label("has_optional");
            feature_labels(i, d, depth + 1, info);
        }
        TypeKind::Result(r) => {
            info.label("has_result");
            feature_labels(&r.ok, d, depth + 1, info);
            feature_labels(&r.err, d, depth + 1, info);
        }
        _ => {}
    }
}


// ---- wide / deep schemas ------------------------------------------------------------------------------------
//
// Plain-data description kept flat (a wrapper list instead of nested boxes) so that 70 levels of nesting stay far
// below serde_json's recursion limit in the replay file and shrink well.

#[derive(Clone, Debug, Serialize, Deserialize)]
enum Leaf {
    Unit,
    String,
    Bytes,
    Int,
    Bool,
    Id,
    Enum(u16),
    /// a struct with a lower index (Int in struct 0 or when the value budget of the owner is used up)
    Sub(u16),
    Never,
}

#[derive(Clone, Debug, Serialize, Deserialize)]
struct WField {
    leaf: Leaf,
    /// wrappers, innermost first. w < 128: option[t]; 128..192: result[t, other]; 192..: result[other, t];
    /// other = int / string / never / unit by w % 4
    wraps: Vec<u8>,
}

#[derive(Clone, Debug, Serialize, Deserialize)]
struct WideCase {
    enums: Vec<Vec<i64>>,
    /// struct i may refer to structs below i; the last one is wide
    structs: Vec<Vec<WField>>,
    /// this many further structs, each holding the previous last struct through `links[level % len]`
    /// (0 plain field, 1 result[S, never], 2 result[never, S], 3 option[S]) between the `chain_extra` fields
    chain: u8,
    links: Vec<u8>,
    chain_extra: Vec<WField>,
    /// Some: one more struct on top: these fields and a plain field holding the previous last struct
    /// (first or last according to `top_first`)
    top: Option<Vec<WField>>,
    top_first: bool,
    bias: Bias,
    long_text: u32,
    long_bytes: u32,
    data: Vec<u8>,
}

#[derive(Clone, Debug, Serialize, Deserialize)]
struct WideByteCase {
    case: WideCase,
    edits: Vec<(u16, u8)>,
}

/// Upper bound for the number of values below one struct of `structs` (nested structs counted each time they occur);
/// fields that would exceed it lose their nested struct / all but one wrapper. Keeps the cost of one case bounded.
const VALUE_BUDGET: usize = 700;
const TOP_BUDGET: usize = 300;

fn wleaf(sub_w: u32) -> impl Strategy<Value = Leaf> {
    prop_oneof![
        1 => Just(Leaf::Unit),
        3 => Just(Leaf::String),
        2 => Just(Leaf::Bytes),
        4 => Just(Leaf::Int),
        2 => Just(Leaf::Bool),
        2 => Just(Leaf::Id),
        2 => any::<u16>().prop_map(Leaf::Enum),
        sub_w => any::<u16>().prop_map(Leaf::Sub),
        1 => Just(Leaf::Never),
    ]
}

/// profile 0: almost every field is option[leaf]; 1: mixed, a few deeply wrapped; 2: mostly results
fn wfield(profile: u8, sub_w: u32) -> BoxedStrategy<WField> {
    let opt = || 0u8..128;
    let wraps: BoxedStrategy<Vec<u8>> = match profile {
        0 => prop_oneof![
            1 => Just(Vec::new()),
            12 => opt().prop_map(|w| vec![w]),
            1 => prop::collection::vec(prop_oneof![4 => opt(), 1 => any::<u8>()], 2..4),
        ]
        .boxed(),
        1 => prop_oneof![
            6 => Just(Vec::new()),
            8 => any::<u8>().prop_map(|w| vec![w]),
            4 => prop::collection::vec(any::<u8>(), 2..5),
            1 => prop::collection::vec(prop_oneof![3 => opt(), 1 => any::<u8>()], 10..70),
        ]
        .boxed(),
        _ => prop_oneof![
            1 => Just(Vec::new()),
            8 => (128u8..=255).prop_map(|w| vec![w]),
            3 => prop::collection::vec(any::<u8>(), 2..4),
        ]
        .boxed(),
    };
    (wleaf(sub_w), wraps).prop_map(|(leaf, wraps)| WField { leaf, wraps }).boxed()
}

fn wstruct_wide() -> impl Strategy<Value = Vec<WField>> {
    (0u8..3, prop_oneof![4 => 24usize..66, 4 => 66usize..130, 2 => 130usize..320]).prop_flat_map(|(profile, n)| {
        // about 1 field in 20 is a nested struct (the value budget cuts what is too much)
        let _ = n;
        prop::collection::vec(wfield(profile, 1), n..=n)
    })
}

fn wstruct_narrow() -> impl Strategy<Value = Vec<WField>> {
    (0u8..3).prop_flat_map(|profile| prop::collection::vec(wfield(profile, 6), 0..7))
}

fn bias() -> impl Strategy<Value = Bias> {
    prop_oneof![
        3 => Just(Bias::Entropy),
        3 => Just(Bias::MostlyNone),
        3 => Just(Bias::MostlySome),
        3 => Just(Bias::AllNone),
        2 => Just(Bias::AllSome),
        4 => (prop_oneof![3 => Just(2u8), 2 => 3u8..9, 1 => 9u8..=255], any::<u8>(), any::<bool>())
            .prop_map(|(p, phase, some)| Bias::Period { p, phase, some }),
    ]
}

fn long_len() -> impl Strategy<Value = u32> {
    prop_oneof![
        6 => Just(0u32),
        2 => 100u32..400,
        1 => 16_000u32..17_000,
        1 => 400u32..70_000,
    ]
}

fn wide_case() -> impl Strategy<Value = WideCase> {
    let enums = prop::collection::vec(prop::collection::vec(interesting_i64(), 1..5), 0..3);
    let structs = (
        prop::collection::vec(prop_oneof![2 => wstruct_narrow().boxed(), 1 => wstruct_wide().boxed()], 0..3),
        wstruct_wide(),
    )
        .prop_map(|(mut lo, w)| {
            lo.push(w);
            lo
        });
    let chain = (
        prop_oneof![4 => Just(0u8), 1 => 1u8..10, 4 => 10u8..=70],
        prop::collection::vec(prop_oneof![3 => Just(0u8), 1 => Just(1u8), 1 => Just(2u8), 1 => Just(3u8)], 1..4),
        prop::collection::vec(wfield(0, 0), 0..3),
        prop::option::weighted(0.3, prop_oneof![1 => wstruct_narrow().boxed(), 2 => wstruct_wide().boxed()]),
        any::<bool>(),
    );
    let data = prop_oneof![
        2 => prop::collection::vec(any::<u8>(), 0..24),
        3 => prop::collection::vec(any::<u8>(), 24..400),
        1 => prop::collection::vec(any::<u8>(), 400..2500),
    ];
    (enums, structs, chain, bias(), long_len(), long_len(), data).prop_map(
        |(mut enums, structs, (chain, links, chain_extra, top, top_first), bias, long_text, long_bytes, data)| {
            for e in &mut enums {
                let mut seen = Vec::new();
                e.retain(|v| {
                    if seen.contains(v) {
                        false
                    } else {
                        seen.push(*v);
                        true
                    }
                });
            }
            WideCase { enums, structs, chain, links, chain_extra, top, top_first, bias, long_text, long_bytes, data }
        },
    )
}

fn wide_byte_case() -> impl Strategy<Value = WideByteCase> {
    (wide_case(), prop::collection::vec((any::<u16>(), any::<u8>()), 1..4)).prop_map(|(case, edits)| WideByteCase { case, edits })
}

fn wrap_kind(mut t: TypeKind, wraps: &[u8]) -> TypeKind {
    for w in wraps {
        let other = || match w % 4 {
            0 => TypeKind::Int,
            1 => TypeKind::String,
            2 => TypeKind::Never,
            _ => TypeKind::Unit,
        };
        t = match w {
            0..128 => TypeKind::Optional(Box::new(t)),
            _ => {
                let (mut ok, err) = if *w < 192 { (t, other()) } else { (other(), t) };
                if !inhabited(&ok) && !inhabited(&err) {
                    ok = TypeKind::Unit;
                }
                TypeKind::Result(Box::new(ResultTypeKind { ok, err }))
            }
        };
    }
    t
}

/// Resolves one described field of struct `owner`. `sizes`: value counts of the structs below; `acc`: values of the
/// owner so far; `budget`: see VALUE_BUDGET.
fn wresolve(f: &WField, owner: usize, n_enums: usize, sizes: &[usize], acc: &mut usize, budget: usize) -> TypeKind {
    let mut wraps: &[u8] = &f.wraps;
    let mut sub = match &f.leaf {
        Leaf::Sub(k) if owner > 0 => Some(idx(*k, owner)),
        _ => None,
    };
    let cost = |wraps: &[u8], sub: Option<usize>| 1 + wraps.len() + sub.map_or(0, |j| sizes[j]);
    if *acc + cost(wraps, sub) > budget {
        sub = None;
        wraps = &wraps[..wraps.len().min(1)];
    }
    *acc += cost(wraps, sub);
    let leaf = match &f.leaf {
        Leaf::Unit => TypeKind::Unit,
        Leaf::String => TypeKind::String,
        Leaf::Bytes => TypeKind::Bytes,
        Leaf::Int => TypeKind::Int,
        Leaf::Bool => TypeKind::Bool,
        Leaf::Id => TypeKind::Id,
        Leaf::Enum(k) => {
            if n_enums == 0 {
                TypeKind::Bool
            } else {
                TypeKind::Enum(ename(idx(*k, n_enums)))
            }
        }
        Leaf::Sub(_) => match sub {
            Some(j) => TypeKind::Struct(sname(j)),
            None => TypeKind::Int,
        },
        // `never` only directly below option / result
        Leaf::Never => {
            if wraps.is_empty() {
                TypeKind::Unit
            } else {
                TypeKind::Never
            }
        }
    };
    wrap_kind(leaf, wraps)
}

fn expand(c: &WideCase) -> Defs {
    let n_enums = c.enums.len();
    let mut out: Vec<Vec<TypeKind>> = Vec::new();
    let mut sizes: Vec<usize> = Vec::new();
    for (i, fields) in c.structs.iter().enumerate() {
        let mut acc = 0;
        out.push(fields.iter().map(|f| wresolve(f, i, n_enums, &sizes, &mut acc, VALUE_BUDGET)).collect());
        sizes.push(acc);
    }
    let n_base = out.len();
    for level in 0..c.chain as usize {
        let prev = out.len() - 1;
        let inner = TypeKind::Struct(sname(prev));
        let link = match c.links.get(level % c.links.len().max(1)).copied().unwrap_or(0) {
            1 => TypeKind::Result(Box::new(ResultTypeKind { ok: inner, err: TypeKind::Never })),
            2 => TypeKind::Result(Box::new(ResultTypeKind { ok: TypeKind::Never, err: inner })),
            3 => TypeKind::Optional(Box::new(inner)),
            _ => inner,
        };
        let mut acc = sizes[prev] + 2;
        let mut fields: Vec<TypeKind> =
            c.chain_extra.iter().map(|f| wresolve(f, 0, n_enums, &sizes, &mut acc, usize::MAX)).collect();
        // the link sits before, between or after the extra fields, depending on the level
        fields.insert(level % (fields.len() + 1), link);
        out.push(fields);
        sizes.push(acc);
    }
    if let Some(top) = &c.top {
        let prev = out.len() - 1;
        let mut acc = 0;
        // nested structs of the top fields are among the described (base) structs
        let mut fields: Vec<TypeKind> =
            top.iter().map(|f| wresolve(f, n_base, n_enums, &sizes, &mut acc, TOP_BUDGET)).collect();
        let link = TypeKind::Struct(sname(prev));
        if c.top_first {
            fields.push(link);
        } else {
            fields.insert(0, link);
        }
        out.push(fields);
    }
    build_defs(&c.enums, out)
}

#[derive(Default)]
struct Stats {
    values: usize,
    none: usize,
    some: usize,
    results: usize,
    structs: usize,
    max_depth: usize,
    max_len: usize,
}

fn stats(v: &Value, depth: usize, st: &mut Stats) {
    st.values += 1;
    st.max_depth = st.max_depth.max(depth);
    match v {
        Value::Struct(s) => {
            st.structs += 1;
            for f in s.fields.values() {
                stats(f, depth + 1, st);
            }
        }
        Value::Option(None) => st.none += 1,
        Value::Option(Some(x)) => {
            st.some += 1;
            stats(x, depth + 1, st);
        }
        Value::Result(Ok(x) | Err(x)) => {
            st.results += 1;
            stats(x, depth + 1, st);
        }
        Value::String(s) => st.max_len = st.max_len.max(s.as_str().len()),
        Value::Bytes(b) => st.max_len = st.max_len.max(b.len()),
        _ => {}
    }
}

fn wide_cur(c: &WideCase) -> Cur<'_> {
    let (lt, lb) = (c.long_text as usize, c.long_bytes as usize);
    Cur { d: &c.data, i: 0, bias: c.bias, nopt: 0, long_text: lt, long_bytes: lb, long_left: 3 * lt.max(lb) }
}

fn bucket(n: usize) -> &'static str {
    match n {
        0 => "0",
        1..=9 => "1_9",
        10..=23 => "10_23",
        24..=63 => "24_63",
        64..=127 => "64_127",
        128..=299 => "128_299",
        _ => "300_plus",
    }
}

fn wide_labels(d: &Defs, c: &WideCase, info: &mut CaseInfo) {
    let root = d.root().clone();
    let value = gen_struct(d, &root, &mut wide_cur(c));
    let mut st = Stats::default();
    stats(&Value::Struct(value), 0, &mut st);
    // the rule of this part: a wide or deep value
    if st.values >= 24 || st.max_depth >= 10 {
        info.nontrivial();
    }
    info.label(format!("values_{}", bucket(st.values)));
    info.label(format!("none_{}", bucket(st.none)));
    info.label(format!("some_{}", bucket(st.some)));
    info.label(format!("results_{}", bucket(st.results)));
    info.label(format!("structs_{}", bucket(st.structs)));
    info.label(format!("depth_{}", bucket(st.max_depth)));
    info.label(format!("root_fields_{}", bucket(root.items.len())));
    info.label(match st.max_len {
        0..=127 => "maxlen_0_127",
        128..=16383 => "maxlen_128_16383",
        _ => "maxlen_16384_plus",
    });
    info.label(match c.bias {
        Bias::Entropy => "bias_entropy",
        Bias::MostlyNone => "bias_mostly_none",
        Bias::MostlySome => "bias_mostly_some",
        Bias::AllNone => "bias_all_none",
        Bias::AllSome => "bias_all_some",
        Bias::Period { p: 2, .. } => "bias_alternating",
        Bias::Period { .. } => "bias_period",
    });
}

/// Failure texts of wide cases would be megabytes; the case itself is in the replay file.
fn shorten(r: CheckResult) -> CheckResult {
    r.map_err(|mut f| {
        if f.detail.len() > 3000 {
            let cut: String = f.detail.chars().take(3000).collect();
            f.detail = format!("{cut}... [{} bytes]", f.detail.len());
        }
        f
    })
}

fn check_wide(c: &WideCase, info: &mut CaseInfo) -> CheckResult {
    let d = expand(c);
    wide_labels(&d, c, info);
    shorten(check_value(&d, wide_cur(c), info, true))
}

fn check_wide_bytes(c: &WideByteCase, info: &mut CaseInfo) -> CheckResult {
    let d = expand(&c.case);
    let root = d.root().clone();
    let value = gen_struct(&d, &root, &mut wide_cur(&c.case));
    let mut b = d
        .machine
        .serialize_struct(&value)
        .map_err(|e| Failure::new("serialize failed for a conforming value", format!("{e}")))?;
    for (p, v) in &c.edits {
        if b.is_empty() {
            b.push(*v);
        } else {
            let i = idx(*p, b.len());
            b[i] = *v;
        }
    }
    info.label(format!("input_len_{}", bucket(b.len())));
    shorten(check_input(&d, &root, &b, info))
}

// ---- oracles ---------------------------------------------------------------------------------------------

fn must_reject(d: &Defs, root: &Identifier, bytes: &[u8], sig: &'static str, what: String) -> CheckResult {
    let r = d.machine.deserialize_struct(root.clone(), bytes);
    ensure!(r.is_err(), sig, "{what}: input {} accepted as {:?}", vcommon::hex(bytes), r.ok());
    Ok(())
}

fn check(c: &Case, info: &mut CaseInfo) -> CheckResult {
    let d = build(&c.schema);
    check_value(&d, Cur::new(&c.data), info, false)
}

/// Positions (sorted, distinct, all < n) at which a big input is cut / marks are picked: everything when n <= all_upto,
/// else the first and last `edge` plus `mid` evenly spread ones shifted by `off`.
fn sample_positions(n: usize, all_upto: usize, edge: usize, mid: usize, off: usize) -> Vec<usize> {
    if n <= all_upto {
        return (0..n).collect();
    }
    let mut v: Vec<usize> = (0..edge.min(n)).chain(n.saturating_sub(edge)..n).collect();
    let step = (n / mid.max(1)).max(1);
    v.extend((0..mid).map(|k| k * step + off % step).filter(|p| *p < n));
    v.sort_unstable();
    v.dedup();
    v
}

/// The oracle of the round-trip parts. `wide`: big encodings get a sample of the cut positions / marks instead of all.
fn check_value(d: &Defs, mut cur: Cur<'_>, info: &mut CaseInfo, wide: bool) -> CheckResult {
    let root = d.root().clone();
    let value = gen_struct(d, &root, &mut cur);
    let rt = TypeKind::Struct(root.name.clone());
    ensure!(conforms(d, &Value::Struct(value.clone()), &rt), "harness: generated value does not conform", "{value:?}");

    // reference encoding
    let mut want = Vec::new();
    let mut marks = Vec::new();
    ref_encode(d, &Value::Struct(value.clone()), &rt, &mut want, &mut marks)
        .map_err(|e| Failure::new("harness: reference encoder refused a conforming value", e))?;

    let got = d
        .machine
        .serialize_struct(&value)
        .map_err(|e| Failure::new("serialize failed for a conforming value", format!("{e}: {value:?}")))?;
    ensure!(
        got == want,
        "serialization differs from the postcard encoding of the schema-ordered values",
        "value={value:?}\n got={}\nwant={}",
        vcommon::hex(&got),
        vcommon::hex(&want)
    );
    let back = d
        .machine
        .deserialize_struct(root.name.clone(), &got)
        .map_err(|e| Failure::new("deserialize failed on serialize output", format!("{e}: {value:?} bytes={}", vcommon::hex(&got))))?;
    ensure!(back == value, "round trip changed the value", "before={value:?}\nafter={back:?}");

    if !wide {
        for f in &root.items {
            feature_labels(&f.ty, d, 0, info);
        }

        if !want.is_empty() {
            info.nontrivial();
        }
        info.label(match want.len() {
            0 => "len_0",
            1..=15 => "len_1_15",
            16..=127 => "len_16_127",
            _ => "len_128_plus",
        });
    }

    // unknown struct name
    let r = d.machine.deserialize_struct(ident("NoSuchStruct".into()), &got);
    ensure!(r.is_err(), "deserialize accepted an undefined struct name", "{r:?}");

    // truncation at every length (wide part, encodings over 512 bytes: the first/last 128 lengths, 128 spread ones
    // and the byte before/at/after every picked mark)
    let cut_off = if wide && want.len() > 512 { cur.u8() as usize } else { 0 };
    for n in sample_positions(want.len(), if wide { 512 } else { usize::MAX }, 128, 128, cut_off) {
        must_reject(d, &root.name, &want[..n], "truncated input accepted", format!("first {n} of {} bytes", want.len()))?;
    }
    // trailing data
    for extra in [vec![cur.u8()], vec![0u8], vec![cur.u8(), cur.u8()]] {
        let mut b = want.clone();
        b.extend(&extra);
        must_reject(d, &root.name, &b, "trailing data accepted", format!("{} extra byte(s)", extra.len()))?;
    }
    // targeted corruptions (wide part, over 160 marks: the first/last 40 and 80 spread ones)
    let mark_off = if wide && marks.len() > 160 { cur.u8() as usize } else { 0 };
    for mi in sample_positions(marks.len(), if wide { 160 } else { usize::MAX }, 40, 80, mark_off) {
        let m = &marks[mi];
        if wide && want.len() > 512 {
            let at = match m {
                Mark::Tag { pos } | Mark::Id { pos } | Mark::EnumVal { pos, .. } => *pos,
                Mark::Str { pos_len, .. } => *pos_len,
            };
            for n in [at.saturating_sub(1), at, at + 1] {
                if n < want.len() {
                    must_reject(d, &root.name, &want[..n], "truncated input accepted", format!("first {n} of {} bytes", want.len()))?;
                }
            }
        }
        match m {
            Mark::Tag { pos } => {
                info.label("corrupt_tag");
                let pick = 2 + cur.u8() % 254;
                for t in [2u8, 255, pick] {
                    let mut b = want.clone();
                    b[*pos] = t;
                    must_reject(d, &root.name, &b, "invalid option/result tag accepted", format!("tag {t} at offset {pos}"))?;
                }
            }
            Mark::EnumVal { pos, len, def } => {
                info.label("corrupt_enum");
                let vals: Vec<i64> = d.edef(def).variants.iter().map(|(_, v)| *v).collect();
                let max = *vals.iter().max().unwrap();
                let min = *vals.iter().min().unwrap();
                let mut cands = vec![max.wrapping_add(1), min.wrapping_sub(1), i64::MAX, i64::MIN, 0, -1, cur.i64()];
                cands.retain(|x| !vals.contains(x));
                for x in cands {
                    let mut b = want[..*pos].to_vec();
                    varint(zigzag(x), &mut b);
                    b.extend_from_slice(&want[pos + len..]);
                    must_reject(d, &root.name, &b, "enum value outside the definition accepted", format!("value {x} for enum {def} at offset {pos}"))?;
                }
            }
            Mark::Str { pos_len, pos, len } => {
                info.label("corrupt_text");
                if *len > 0 {
                    let i = pos + (cur.u8() as usize) % len;
                    let mut b = want.clone();
                    b[i] = 0;
                    // overwriting one byte of a multi-byte character with NUL leaves invalid UTF-8 or a NUL: both refused
                    must_reject(d, &root.name, &b, "text with NUL accepted", format!("NUL at offset {i}"))?;
                    for bad in [0xffu8, 0xc0, 0xfe] {
                        let mut b = want.clone();
                        b[pos + len - 1] = bad;
                        must_reject(d, &root.name, &b, "text with invalid UTF-8 accepted", format!("byte {bad:#x} at offset {}", pos + len - 1))?;
                    }
                }
                if *len < 120 || wide {
                    // grow the string by one hostile byte
                    for bad in [0u8, 0xff] {
                        let mut b = want[..*pos_len].to_vec();
                        varint(*len as u64 + 1, &mut b);
                        b.extend_from_slice(&want[*pos..pos + len]);
                        b.push(bad);
                        b.extend_from_slice(&want[pos + len..]);
                        let sig = if bad == 0 { "text with NUL accepted" } else { "text with invalid UTF-8 accepted" };
                        must_reject(d, &root.name, &b, sig, format!("appended byte {bad:#x} to text at offset {pos}"))?;
                    }
                }
            }
            Mark::Id { pos } => {
                info.label("corrupt_id");
                let mut pick = cur.u8();
                if pick == 32 {
                    pick = 16;
                }
                for l in [31u8, 33, 0, 64, pick] {
                    // only the length byte changes
                    let mut b = want.clone();
                    b[*pos] = l;
                    must_reject(d, &root.name, &b, "id of the wrong length accepted", format!("length byte {l} at offset {pos}"))?;
                    // length byte and payload size change together
                    let mut b = want[..*pos].to_vec();
                    b.push(l);
                    b.extend(std::iter::repeat_n(0xabu8, l as usize));
                    b.extend_from_slice(&want[pos + 33..]);
                    must_reject(d, &root.name, &b, "id of the wrong length accepted", format!("{l}-byte id at offset {pos}"))?;
                }
            }
        }
    }
    Ok(())
}

fn check_bytes(c: &ByteCase, info: &mut CaseInfo) -> CheckResult {
    let d = build(&c.schema);
    let root = d.root().clone();
    let input: Vec<u8> = match &c.raw {
        Some(r) => {
            info.label("raw_bytes");
            r.clone()
        }
        None => {
            info.label("edited_valid_encoding");
            let mut cur = Cur::new(&c.data);
            let value = gen_struct(&d, &root, &mut cur);
            let mut b = d
                .machine
                .serialize_struct(&value)
                .map_err(|e| Failure::new("serialize failed for a conforming value", format!("{e}")))?;
            for (p, v) in &c.edits {
                if b.is_empty() {
                    b.push(*v);
                } else {
                    let i = idx(*p, b.len());
                    b[i] = *v;
                }
            }
            b
        }
    };
    check_input(&d, &root, &input, info)
}

/// Arbitrary input: no panic (a panic is reported by the driver as a violation); what is accepted matches the schema
/// and survives serialize / deserialize.
fn check_input(d: &Defs, root: &StructDef, input: &[u8], info: &mut CaseInfo) -> CheckResult {
    match d.machine.deserialize_struct(root.name.clone(), input) {
        Err(_) => info.label("rejected"),
        Ok(s) => {
            info.label("accepted");
            info.nontrivial();
            ensure!(
                conforms(d, &Value::Struct(s.clone()), &TypeKind::Struct(root.name.clone())),
                "deserialize produced a value that does not match the schema",
                "input={} value={s:?}",
                vcommon::hex(input)
            );
            let again = d
                .machine
                .serialize_struct(&s)
                .map_err(|e| Failure::new("deserialized value does not serialize", format!("{e}: {s:?}")))?;
            let back = d
                .machine
                .deserialize_struct(root.name.clone(), &again)
                .map_err(|e| Failure::new("deserialize failed on serialize output", format!("{e}: {s:?}")))?;
            ensure!(back == s, "round trip changed the value", "before={s:?} after={back:?}");
        }
    }
    Ok(())
}

pub fn run(ctx: &Ctx) -> ! {
    let mut rep = Report::new(ctx, "exploration");
    rep.assume("schemas are acyclic, field names within a struct and values within an enum are distinct (what the compiler produces); `never` occurs only directly below option/result");
    rep.assume("the reference encoder follows the postcard wire specification (LEB128 varints, zigzag for i64, length-prefixed str/bytes, 1-byte bool/option/result discriminants) and the module's documented layout (fields in definition order, id = 0x20 + 32 bytes)");
    rep.explore(
        "roundtrip_and_corruptions",
        "small schemas: acyclic schemas of 1..4 structs x 0..5 fields over unit/string/bytes/int/bool/id/struct/enum/option/result/never \
         (nesting <= 3), enums with 1..4 arbitrary distinct i64 values; a conforming value derived from entropy (boundary \
         ints, multi-byte text, 130+ byte text, zero/ff ids). Checked: serialize == independent postcard reference encoding; \
         deserialize(serialize(v)) == v; every strict prefix rejected; 1-2 trailing bytes rejected; every option/result tag \
         set to 2/255/random>=2 rejected; every enum value replaced by values outside the definition rejected; every text \
         with a NUL or invalid UTF-8 byte (overwritten or appended) rejected; every id with another length byte rejected. \
         Non-trivial = non-empty encoding",
        case,
        ctx.pick(60_000, 600_000),
        check,
    );
    rep.explore(
        "wide_deep_roundtrip_and_corruptions",
        "1..3 described structs, the last one wide, the others narrow (0..6 fields) or wide (24..319 fields; per struct one of three field profiles: \
         nearly all option[leaf] / mixed with a few fields wrapped 10..69 levels deep in option/result / mostly results), \
         lower structs nested in higher ones (value count per struct capped at 700), optionally wrapped in a chain of \
         0..70 further struct levels (linked as plain field, result[S,never], result[never,S] or option[S], with up to 2 \
         optional fields around the link) and optionally one more wide or narrow struct on top. Values: option bias \
         entropy / mostly None / mostly Some / all None / all Some / every p-th odd one out (p=2 alternating), optionally \
         up to 3 long texts / byte strings (100..70 000 bytes, 2- and 3-byte length prefixes). Same oracle as the first \
         part; encodings over 512 bytes: cut at the first/last 128 lengths, 128 spread lengths and around every picked \
         mark; over 160 marks: the first/last 40 and 80 spread ones get the targeted corruptions. Non-trivial = value \
         tree with >= 24 values or nesting >= 10",
        wide_case,
        ctx.pick(2_400, 60_000),
        check_wide,
    );
    rep.explore(
        "arbitrary_bytes",
        "same schemas; input = arbitrary bytes (0..80) or a valid encoding with 1-3 overwritten bytes. Checked: no panic; \
         an accepted value matches the schema (independent conformance check: struct names/field sets, enum values in the \
         definition, no NUL) and survives serialize/deserialize. Non-trivial = input accepted",
        byte_case,
        ctx.pick(120_000, 1_200_000),
        check_bytes,
    );
    rep.explore(
        "wide_edited_bytes",
        "schemas and values of the wide part; input = the valid encoding with 1-3 overwritten bytes. Checked as in \
         arbitrary_bytes. Non-trivial = input accepted",
        wide_byte_case,
        ctx.pick(6_000, 120_000),
        check_wide_bytes,
    );
    rep.finish()
}
