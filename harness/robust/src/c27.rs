//! C27: parsing any text as policy document / policy source / expression, and compiling any policy the parser
//! produced, returns a value or a structured error and never panics.
use std::{
    path::{Path, PathBuf},
    sync::OnceLock,
};

use aranya_policy_ast::Version;
use aranya_policy_compiler::Compiler;
use aranya_policy_lang::lang::{parse_expression, parse_policy_document, parse_policy_str};
use proptest::prelude::*;
use serde::{Deserialize, Serialize};
use vcommon::{CaseInfo, CheckResult, Ctx, Failure, Report, idx};

use crate::policies;

#[derive(Clone, Debug, Serialize, Deserialize)]
struct Case {
    /// which generator produced the text (label only)
    kind: String,
    text: String,
}

// ---- vocabulary (literal tokens of policy.pest) -----------------------------------------------------------

const KEYWORDS: &[&str] = &[
    "unit", "string", "bytes", "int", "bool", "id", "optional", "option", "struct", "enum", "result", "dynamic", "true",
    "false", "Unit", "None", "Some", "Ok", "Err", "query", "exists", "count_up_to", "at_least", "at_most", "exactly",
    "match", "if", "else", "todo()", "test_fail(", "return", "this", "substruct", "as", "is", "or", "action", "publish",
    "let", "check", "finish", "map", "create", "update", "to", "delete", "emit", "recall", "debug_assert(", "attributes",
    "fields", "policy", "seal", "open", "ephemeral", "immutable", "use", "fact", "effect", "command", "function",
    "envelope", "add", "sub", "saturating_add", "saturating_sub",
];

const PUNCT: &[&str] = &[
    "{", "}", "(", ")", "[", "]", ",", ":", "::", "=>", "=", "==", "!=", ">=", "<=", ">", "<", "&&", "||", "!", "+", "-",
    ".", "...", "?", "|", "_", "//", "/*", "*/", "\"", "\\", "---", "```", "```policy", "~~~",
];

const IDENTS: &[&str] = &["a", "b", "c", "x", "y", "n", "Foo", "Bar", "F", "G", "Mode", "On", "Off", "f", "g", "r", "E", "C"];

// ---- corpus ---------------------------------------------------------------------------------------------------

fn collect(dir: &Path, exts: &[&str], out: &mut Vec<PathBuf>, depth: usize) {
    if depth > 6 {
        return;
    }
    let Ok(rd) = std::fs::read_dir(dir) else { return };
    let mut entries: Vec<PathBuf> = rd.filter_map(|e| e.ok().map(|e| e.path())).collect();
    entries.sort();
    for p in entries {
        if p.is_dir() {
            collect(&p, exts, out, depth + 1);
        } else if p.extension().and_then(|e| e.to_str()).is_some_and(|e| exts.contains(&e)) {
            out.push(p);
        }
    }
}

struct Corpus {
    /// bare policy source
    sources: Vec<String>,
    /// markdown documents
    docs: Vec<String>,
    from_repo: usize,
}

static CORPUS: OnceLock<Corpus> = OnceLock::new();

fn corpus() -> &'static Corpus {
    CORPUS.get_or_init(|| {
        let mut sources: Vec<String> = Vec::new();
        for s in policies::RICH.iter().chain(policies::VALID.iter()) {
            sources.push((*s).to_string());
        }
        for (_, s) in policies::INVALID_VALIDATION.iter().chain(policies::INVALID_COMPILE).chain(policies::INVALID_PARSE) {
            sources.push((*s).to_string());
        }
        let mut docs: Vec<String> = sources.iter().take(6).map(|s| policies::to_doc(s)).collect();
        let repo = PathBuf::from(std::env::var("VERIF_REPO").unwrap_or_else(|_| "/repo".into()));
        let mut files = Vec::new();
        collect(&repo.join("crates/aranya-policy-compiler/tests/data"), &["policy"], &mut files, 0);
        collect(&repo.join("crates/aranya-policy-lang/tests/data"), &["policy", "md"], &mut files, 0);
        collect(&repo.join("crates/aranya-policy-ifgen/tests/data"), &["md"], &mut files, 0);
        for extra in ["crates/aranya-policy-lang/test-policy.md", "crates/aranya-core-example/src/policy.md"] {
            files.push(repo.join(extra));
        }
        let mut from_repo = 0;
        for f in files {
            if let Ok(s) = std::fs::read_to_string(&f) {
                if s.len() > 20_000 {
                    continue;
                }
                from_repo += 1;
                if f.extension().is_some_and(|e| e == "md") {
                    docs.push(s);
                } else {
                    sources.push(s);
                }
            }
        }
        Corpus { sources, docs, from_repo }
    })
}

// ---- generators ---------------------------------------------------------------------------------------------------

struct Cur<'a> {
    d: &'a [u8],
    i: usize,
}

impl Cur<'_> {
    fn u8(&mut self) -> u8 {
        let v = self.d.get(self.i).copied().unwrap_or(0);
        self.i += 1;
        v
    }
    fn below(&mut self, n: usize) -> usize {
        (self.u8() as usize) % n.max(1)
    }
    fn chance(&mut self, num: u8, den: u8) -> bool {
        if self.exhausted() {
            return false;
        }
        self.u8() % den < num
    }
    fn exhausted(&self) -> bool {
        self.i >= self.d.len()
    }
}

/// Samples the grammar of policy.pest (mostly well-formed text; names from a small pool so that references hit
/// definitions now and then; types and scopes are random, so most results are ill-typed or ill-scoped).
struct G<'a> {
    c: Cur<'a>,
    o: String,
}

const MAX_DEPTH: usize = 7;

impl G<'_> {
    fn w(&mut self, s: &str) {
        self.o.push_str(s);
    }
    fn ident(&mut self) {
        let k = self.c.below(200);
        if k < 188 {
            self.w(IDENTS[k % IDENTS.len()]);
        } else if k < 199 {
            let n = self.c.u8();
            self.w(&format!("v{n}"));
        } else if self.c.u8() >= 24 {
            self.w("a");
        } else {
            // keyword used as a name
            let k = self.c.below(KEYWORDS.len());
            self.w(KEYWORDS[k].trim_end_matches(['(', ')']));
        }
    }
    fn vtype(&mut self, d: usize) {
        let n = if d >= 4 { 6 } else { 11 };
        match self.c.below(n) {
            0 => self.w("int"),
            1 => self.w("string"),
            2 => self.w("bool"),
            3 => self.w("id"),
            4 => self.w("bytes"),
            5 => self.w("unit"),
            6 => {
                self.w("struct ");
                self.ident();
            }
            7 => {
                self.w("enum ");
                self.ident();
            }
            8 => {
                self.w("option[");
                self.vtype(d + 1);
                self.w("]");
            }
            9 if d > 0 && !self.c.chance(1, 10) => self.w("int"),
            9 => {
                self.w("optional ");
                if self.c.chance(1, 8) {
                    self.vtype(d + 1);
                } else {
                    self.vtype(4);
                }
            }
            _ => {
                self.w("result[");
                self.vtype(d + 1);
                self.w(", ");
                self.vtype(d + 1);
                self.w("]");
            }
        }
    }
    fn fields(&mut self, insertion: bool, dynamic: bool) {
        let n = self.c.below(4);
        for i in 0..n {
            if i > 0 {
                self.w(", ");
            }
            if insertion && self.c.chance(1, 6) {
                self.w("+");
                self.ident();
            } else {
                self.ident();
                self.w(" ");
                self.vtype(0);
                if dynamic && self.c.chance(1, 4) {
                    self.w(" dynamic");
                }
            }
        }
        if n > 0 && self.c.chance(1, 3) {
            self.w(",");
        }
    }
    fn int(&mut self) {
        match self.c.below(40) {
            36 => self.w("9223372036854775808"),
            37 => self.w("9223372036854775807"),
            38 => self.w("-9223372036854775808"),
            39 => self.w("-9223372036854775809"),
            0..=12 => self.w("0"),
            13..=20 => self.w("1"),
            21..=24 => self.w("-1"),
            _ => {
                let n = self.c.u8();
                self.w(&n.to_string());
            }
        }
    }
    fn string(&mut self) {
        const GOOD: &[&str] = &["\"\"", "\"x\"", "\"a b\"", "\"\\n\"", "\"\\x41\"", "\"\u{e9}\"", "\"\\\"\"", "\"\\\\\""];
        const BAD: &[&str] = &["\"\\xzz\"", "\"\\q\"", "\"\\x00\"", "\"\\xff\"", "\"\\x4\""];
        if self.c.chance(1, 25) {
            let k = self.c.below(BAD.len());
            self.w(BAD[k]);
        } else {
            let k = self.c.below(GOOD.len());
            self.w(GOOD[k]);
        }
    }
    fn fact_literal(&mut self, d: usize) {
        self.ident();
        self.w("[");
        let n = self.c.below(3);
        for i in 0..n {
            if i > 0 {
                self.w(", ");
            }
            self.ident();
            self.w(": ");
            if self.c.chance(1, 3) {
                self.w("?");
            } else {
                self.expr(d + 1);
            }
        }
        self.w("]");
        if self.c.chance(2, 3) {
            self.w("=>{");
            let n = self.c.below(3);
            for i in 0..n {
                if i > 0 {
                    self.w(", ");
                }
                self.ident();
                self.w(": ");
                if self.c.chance(1, 2) {
                    self.w("?");
                } else {
                    self.expr(d + 1);
                }
            }
            self.w("}");
        }
    }
    fn args(&mut self, d: usize) {
        self.w("(");
        let n = self.c.below(3);
        for i in 0..n {
            if i > 0 {
                self.w(", ");
            }
            self.expr(d + 1);
        }
        self.w(")");
    }
    fn atom(&mut self, d: usize) {
        let simple = d >= MAX_DEPTH || self.c.exhausted();
        let k = if simple { self.c.below(8) } else { self.c.below(30) };
        match k {
            0 => self.int(),
            1 => self.string(),
            2 => self.w("true"),
            3 => self.w("false"),
            4 => self.w("None"),
            5 | 6 => self.ident(),
            7 => self.w("this"),
            8 => {
                self.w("Some(");
                self.expr(d + 1);
                self.w(")");
            }
            9 => {
                self.w("Ok(");
                self.expr(d + 1);
                self.w(")");
            }
            10 => {
                self.w("Err(");
                self.expr(d + 1);
                self.w(")");
            }
            11 | 12 => {
                self.ident();
                self.w(" { ");
                let n = self.c.below(3);
                for i in 0..n {
                    if i > 0 {
                        self.w(", ");
                    }
                    self.ident();
                    self.w(": ");
                    self.expr(d + 1);
                }
                if self.c.chance(1, 4) {
                    if n > 0 {
                        self.w(", ");
                    }
                    self.w("...");
                    self.ident();
                }
                self.w(" }");
            }
            13 => self.w("Unit"),
            14 => {
                self.w("match ");
                self.cond(d + 1);
                self.w(" { ");
                let n = 1 + self.c.below(3) - usize::from(self.c.chance(1, 10));
                for _ in 0..n {
                    if self.c.chance(1, 4) {
                        self.w("_");
                    } else {
                        self.expr(d + 2);
                        if self.c.chance(1, 4) {
                            self.w(" | ");
                            self.expr(d + 2);
                        }
                    }
                    self.w(" => ");
                    self.expr(d + 1);
                    self.w(" ");
                }
                self.w("}");
            }
            15 => {
                const Q: &[&str] = &["query ", "exists ", "count_up_to 2 ", "at_least 1 ", "at_most 1 ", "exactly 1 ", "count_up_to 0 ", "at_least -1 "];
                if self.c.chance(1, 6) {
                    const C: &[&str] = &["count_up_to ", "at_least ", "at_most ", "exactly "];
                    let k = self.c.below(C.len());
                    self.w(C[k]);
                    self.int();
                    self.w(" ");
                } else {
                    let k = self.c.below(Q.len());
                    self.w(Q[k]);
                }
                self.fact_literal(d + 1);
            }
            16 => {
                self.w("if ");
                self.cond(d + 1);
                self.w(" { :");
                self.expr(d + 1);
                self.w(" } else { :");
                self.expr(d + 1);
                self.w(" }");
            }
            17 => self.w("todo()"),
            18 => {
                self.w("test_fail(");
                if self.c.chance(1, 2) {
                    self.string();
                }
                self.w(")");
            }
            19 => {
                self.w("return ");
                self.expr(d + 1);
            }
            20 => {
                self.w("recall ");
                self.ident();
                self.args(d);
            }
            21 | 22 => {
                self.ident();
                self.args(d);
            }
            23 => {
                self.ident();
                self.w("::");
                self.ident();
                self.args(d);
            }
            24 => {
                self.ident();
                self.w("::");
                self.ident();
            }
            25 => {
                self.w("{ ");
                let n = self.c.below(3);
                for _ in 0..n {
                    self.stmt(d + 1, 0);
                    self.w("\n");
                }
                self.w(": ");
                self.expr(d + 1);
                self.w(" }");
            }
            26 => {
                self.w("(");
                self.expr(d + 1);
                self.w(")");
            }
            27 => {
                const B: &[&str] = &["add", "sub", "saturating_add", "saturating_sub"];
                let k = self.c.below(B.len());
                self.w(B[k]);
                self.args(d);
            }
            _ => self.ident(),
        }
    }
    /// Condition / scrutinee position: `x { ... }` would be read as a struct literal, so these are mostly parenthesized.
    fn cond(&mut self, d: usize) {
        if self.c.chance(1, 6) {
            self.expr(d);
        } else {
            self.w("(");
            self.expr(d);
            self.w(")");
        }
    }
    fn expr(&mut self, d: usize) {
        let terms = if d >= MAX_DEPTH { 1 } else { 1 + self.c.below(5) / 3 };
        for t in 0..terms {
            if t > 0 {
                const OPS: &[&str] = &[" > ", " < ", " >= ", " <= ", " == ", " != ", " && ", " || ", " or "];
                if self.c.chance(1, 120) {
                    // rejected by the parser with a dedicated error (and a rendered suggestion)
                    let op = if self.c.chance(1, 2) { " + " } else { " - " };
                    self.w(op);
                } else {
                    let k = self.c.below(OPS.len());
                    self.w(OPS[k]);
                }
            }
            while self.c.chance(1, 8) {
                self.w("!");
            }
            self.atom(d);
            while self.c.chance(1, 5) {
                match self.c.below(5) {
                    0 | 1 => {
                        self.w(".");
                        self.ident();
                    }
                    2 => {
                        self.w(" substruct ");
                        self.ident();
                    }
                    3 => {
                        self.w(" as ");
                        self.ident();
                    }
                    _ => {
                        let s = if self.c.chance(1, 2) { " is None" } else { " is Some" };
                        self.w(s);
                    }
                }
            }
        }
    }
    fn block(&mut self, d: usize, ctx: u8) {
        self.w("{\n");
        let n = if d >= MAX_DEPTH { 0 } else { self.c.below(4) };
        for _ in 0..n {
            self.stmt(d + 1, ctx);
            self.w("\n");
        }
        self.w("}");
    }
    /// ctx: 0 function, 1 action, 2 policy, 3 finish
    fn stmt(&mut self, d: usize, ctx: u8) {
        let k = if d >= MAX_DEPTH { self.c.below(4) } else { self.c.below(24) };
        match k {
            0 | 1 | 2 => {
                self.w("let ");
                self.ident();
                self.w(" = ");
                self.expr(d + 1);
            }
            3 => {
                self.w("return ");
                self.expr(d + 1);
            }
            4 | 5 => {
                self.w("check ");
                self.expr(d + 1);
                self.w(" else ");
                self.expr(d + 1);
            }
            6 => {
                self.w("match ");
                self.cond(d + 1);
                self.w(" {\n");
                let n = 1 + self.c.below(3) - usize::from(self.c.chance(1, 10));
                for _ in 0..n {
                    if self.c.chance(1, 4) {
                        self.w("_");
                    } else {
                        self.expr(d + 2);
                    }
                    self.w(" => ");
                    self.block(d + 1, ctx);
                    self.w("\n");
                }
                self.w("}");
            }
            7 | 8 => {
                self.w("if ");
                self.cond(d + 1);
                self.w(" ");
                self.block(d + 1, ctx);
                if self.c.chance(1, 3) {
                    self.w(" else if ");
                    self.cond(d + 1);
                    self.w(" ");
                    self.block(d + 1, ctx);
                }
                if self.c.chance(1, 2) {
                    self.w(" else ");
                    self.block(d + 1, ctx);
                }
            }
            9 | 10 => {
                self.w("finish ");
                self.block(d + 1, 3);
            }
            11 => {
                self.w("map ");
                self.fact_literal(d + 1);
                self.w(" as ");
                self.ident();
                self.w(" ");
                self.block(d + 1, ctx);
            }
            12 => {
                self.w("create ");
                self.fact_literal(d + 1);
            }
            13 => {
                self.w("update ");
                self.fact_literal(d + 1);
                self.w(" to {");
                if self.c.chance(2, 3) {
                    self.ident();
                    self.w(": ");
                    self.expr(d + 1);
                }
                self.w("}");
            }
            14 => {
                self.w("delete ");
                self.fact_literal(d + 1);
            }
            15 | 16 => {
                self.w("emit ");
                self.expr(d + 1);
            }
            17 | 18 => {
                self.w("publish ");
                self.expr(d + 1);
            }
            19 => {
                self.w("recall ");
                self.ident();
                self.args(d);
            }
            20 => {
                self.w("debug_assert(");
                self.expr(d + 1);
                self.w(")");
            }
            21 => {
                self.ident();
                self.args(d);
            }
            22 => {
                self.w("action ");
                self.ident();
                self.args(d);
            }
            _ => {
                self.w("let ");
                self.ident();
                self.w(" = ");
                self.atom(d + 1);
            }
        }
    }
    fn params(&mut self) {
        self.w("(");
        self.fields(false, false);
        self.w(")");
    }
    fn top(&mut self) {
        match self.c.below(14) {
            0 => {
                self.w("use ");
                self.ident();
            }
            1 | 2 => {
                if self.c.chance(1, 4) {
                    self.w("immutable ");
                }
                self.w("fact ");
                self.ident();
                self.w("[");
                self.fields(false, false);
                self.w("]=>{");
                self.fields(false, false);
                self.w("}");
            }
            3 | 4 => {
                if self.c.chance(1, 5) {
                    self.w("ephemeral ");
                }
                self.w("action ");
                self.ident();
                self.params();
                if self.c.chance(1, 4) {
                    self.w(" result[");
                    self.vtype(1);
                    self.w(", ");
                    self.vtype(1);
                    self.w("]");
                }
                self.w(" ");
                self.block(0, 1);
            }
            5 => {
                self.w("effect ");
                self.ident();
                self.w(" {");
                self.fields(true, true);
                self.w("}");
            }
            6 => {
                self.w("struct ");
                self.ident();
                self.w(" {");
                self.fields(true, false);
                self.w("}");
            }
            7 => {
                self.w("enum ");
                self.ident();
                self.w(" { ");
                let n = 1 + self.c.below(3);
                for i in 0..n {
                    if i > 0 {
                        self.w(", ");
                    }
                    self.ident();
                }
                self.w(" }");
            }
            8 | 9 => {
                if self.c.chance(1, 5) {
                    self.w("ephemeral ");
                }
                self.w("command ");
                self.ident();
                self.w(" {\n");
                if self.c.chance(1, 4) {
                    self.w("attributes { ");
                    self.ident();
                    self.w(": ");
                    self.atom(MAX_DEPTH - 1);
                    self.w(" }\n");
                }
                if self.c.chance(4, 5) {
                    self.w("fields {");
                    self.fields(true, false);
                    self.w("}\n");
                }
                self.w("seal ");
                if self.c.chance(2, 3) {
                    self.w("{ return todo() }");
                } else {
                    self.block(1, 0);
                }
                self.w("\nopen ");
                if self.c.chance(2, 3) {
                    self.w("{ return todo() }");
                } else {
                    self.block(1, 0);
                }
                self.w("\npolicy ");
                self.block(0, 2);
                let n = self.c.below(3) / 2 + usize::from(self.c.chance(1, 3));
                for _ in 0..n {
                    self.w("\nrecall ");
                    self.ident();
                    self.params();
                    self.w(" ");
                    self.block(1, 2);
                }
                self.w("\n}");
            }
            10 | 11 => {
                self.w("function ");
                self.ident();
                self.params();
                self.w(" ");
                self.vtype(0);
                self.w(" ");
                self.block(0, 0);
            }
            12 => {
                self.w("finish function ");
                self.ident();
                self.params();
                self.w(" ");
                self.block(0, 3);
            }
            _ => {
                self.w("let ");
                self.ident();
                self.w(" = ");
                self.expr(2);
            }
        }
        self.w("\n");
    }
}

fn grammar_text(data: &[u8], expr_only: bool) -> String {
    let mut g = G { c: Cur { d: data, i: 0 }, o: String::new() };
    if expr_only {
        g.expr(0);
    } else {
        let n = 1 + g.c.below(6);
        for _ in 0..n {
            g.top();
        }
    }
    g.o
}

// ---- a scope- and type-aware sampler: output mostly compiles, so the later compiler stages are reached ----------------

#[derive(Clone, PartialEq, Debug)]
enum Ty {
    Int,
    Str,
    Bool,
    Struct(usize),
    Enum(usize),
    OptInt,
}

struct T<'a> {
    c: Cur<'a>,
    o: String,
    structs: Vec<(String, Vec<(String, Ty)>)>,
    enums: Vec<(String, Vec<String>)>,
    /// name, keys, values
    facts: Vec<(String, Vec<(String, Ty)>, Vec<(String, Ty)>)>,
    effects: Vec<(String, Vec<(String, Ty)>)>,
    cmds: Vec<(String, Vec<(String, Ty)>)>,
    funcs: Vec<(String, Vec<Ty>, Ty)>,
    finish_funcs: Vec<(String, Vec<Ty>)>,
    scopes: Vec<Vec<(String, Ty)>>,
    n: usize,
}

impl T<'_> {
    fn w(&mut self, s: &str) {
        self.o.push_str(s);
    }
    fn fresh(&mut self, p: &str) -> String {
        self.n += 1;
        format!("{p}{}", self.n)
    }
    /// a deliberate mistake now and then
    fn slip(&mut self) -> bool {
        self.c.chance(1, 150)
    }
    fn ty(&mut self, simple: bool) -> Ty {
        let k = self.c.below(if simple { 3 } else { 7 });
        match k {
            0 | 3 => Ty::Int,
            1 => Ty::Str,
            2 => Ty::Bool,
            4 if !self.structs.is_empty() => Ty::Struct(self.c.below(self.structs.len())),
            5 if !self.enums.is_empty() => Ty::Enum(self.c.below(self.enums.len())),
            6 => Ty::OptInt,
            _ => Ty::Int,
        }
    }
    fn ty_text(&self, t: &Ty) -> String {
        match t {
            Ty::Int => "int".into(),
            Ty::Str => "string".into(),
            Ty::Bool => "bool".into(),
            Ty::Struct(i) => format!("struct {}", self.structs[*i].0),
            Ty::Enum(i) => format!("enum {}", self.enums[*i].0),
            Ty::OptInt => "option[int]".into(),
        }
    }
    fn field_list(&mut self, n: usize, simple: bool, prefix: &str) -> Vec<(String, Ty)> {
        (0..n).map(|k| (format!("{prefix}{k}"), self.ty(simple))).collect()
    }
    fn write_fields(&mut self, f: &[(String, Ty)]) {
        for (k, (n, t)) in f.iter().enumerate() {
            if k > 0 {
                self.w(", ");
            }
            let tt = self.ty_text(t);
            self.w(&format!("{n} {tt}"));
        }
    }
    fn locals_of(&self, t: &Ty) -> Vec<String> {
        self.scopes.iter().flatten().filter(|(_, lt)| lt == t).map(|(n, _)| n.clone()).collect()
    }
    fn expr(&mut self, t: &Ty, d: usize) {
        if self.slip() {
            // wrong type or unknown name
            match self.c.below(4) {
                0 => self.w("nope"),
                1 => self.w("\"oops\""),
                2 => self.w("7"),
                _ => self.w("None"),
            }
            return;
        }
        let locals = self.locals_of(t);
        if !locals.is_empty() && (d >= 4 || self.c.chance(2, 5)) {
            let k = self.c.below(locals.len());
            self.w(&locals[k]);
            return;
        }
        // a field of a struct-typed local
        if d < 4 && self.c.chance(1, 5) {
            let cands: Vec<String> = self
                .scopes
                .iter()
                .flatten()
                .filter_map(|(n, lt)| match lt {
                    Ty::Struct(i) => self.structs[*i].1.iter().find(|(_, ft)| ft == t).map(|(f, _)| format!("{n}.{f}")),
                    _ => None,
                })
                .collect();
            if !cands.is_empty() {
                let k = self.c.below(cands.len());
                self.w(&cands[k]);
                return;
            }
        }
        // a call of a function with that result type
        if d < 3 && self.c.chance(1, 4) {
            let cands: Vec<(String, Vec<Ty>)> = self.funcs.iter().filter(|f| f.2 == *t).map(|f| (f.0.clone(), f.1.clone())).collect();
            if !cands.is_empty() {
                let (name, params) = cands[self.c.below(cands.len())].clone();
                self.w(&name);
                self.w("(");
                let drop_one = self.slip();
                for (k, p) in params.iter().enumerate() {
                    if drop_one && k == 0 {
                        continue;
                    }
                    if k > usize::from(drop_one) {
                        self.w(", ");
                    }
                    self.expr(p, d + 1);
                }
                self.w(")");
                return;
            }
        }
        let deep = d < 4;
        match t {
            Ty::Int => match self.c.below(if deep { 9 } else { 2 }) {
                0 | 1 => {
                    let n = self.c.u8() % 12;
                    self.w(&n.to_string());
                }
                2 => {
                    self.w("saturating_add(");
                    self.expr(&Ty::Int, d + 1);
                    self.w(", ");
                    self.expr(&Ty::Int, d + 1);
                    self.w(")");
                }
                3 => {
                    self.w("(");
                    self.expr(&Ty::OptInt, d + 1);
                    self.w(" or 0)");
                }
                4 => {
                    self.w("if ");
                    self.expr(&Ty::Bool, d + 1);
                    self.w(" { :");
                    self.expr(&Ty::Int, d + 1);
                    self.w(" } else { :");
                    self.expr(&Ty::Int, d + 1);
                    self.w(" }");
                }
                5 => {
                    self.w("match ");
                    self.expr(&Ty::Bool, d + 1);
                    self.w(" { true => ");
                    self.expr(&Ty::Int, d + 1);
                    self.w(" false => ");
                    self.expr(&Ty::Int, d + 1);
                    self.w(" }");
                }
                6 if !self.facts.is_empty() => {
                    self.w("count_up_to 3 ");
                    self.fact_lit(true, d + 1);
                }
                7 => {
                    self.w("{ let q");
                    let q = self.fresh("");
                    self.w(&q);
                    self.w(" = ");
                    self.expr(&Ty::Int, d + 1);
                    self.w(" : q");
                    self.w(&q);
                    self.w(" }");
                }
                _ => self.w("1"),
            },
            Ty::Str => {
                const S: &[&str] = &["\"\"", "\"x\"", "\"hello\"", "\"a\\n\""];
                let k = self.c.below(S.len());
                self.w(S[k]);
            }
            Ty::Bool => match self.c.below(if deep { 9 } else { 2 }) {
                0 => self.w("true"),
                1 => self.w("false"),
                2 => {
                    self.expr(&Ty::Int, d + 1);
                    const C: &[&str] = &[" > ", " < ", " >= ", " <= ", " == ", " != "];
                    let k = self.c.below(C.len());
                    self.w(C[k]);
                    self.expr(&Ty::Int, d + 1);
                }
                3 => {
                    self.w("!");
                    self.w("(");
                    self.expr(&Ty::Bool, d + 1);
                    self.w(")");
                }
                4 => {
                    self.w("(");
                    self.expr(&Ty::Bool, d + 1);
                    let pick = if self.c.u8() & 1 == 0 { " && " } else { " || " };
                    self.w(pick);
                    self.expr(&Ty::Bool, d + 1);
                    self.w(")");
                }
                5 if !self.facts.is_empty() => {
                    const Q: &[&str] = &["exists ", "at_least 1 ", "at_most 2 ", "exactly 1 "];
                    let k = self.c.below(Q.len());
                    self.w(Q[k]);
                    self.fact_lit(true, d + 1);
                }
                6 => {
                    self.expr(&Ty::OptInt, d + 1);
                    let pick = if self.c.u8() & 1 == 0 { " is Some" } else { " is None" };
                    self.w(pick);
                }
                7 => {
                    self.expr(&Ty::Str, d + 1);
                    self.w(" == ");
                    self.expr(&Ty::Str, d + 1);
                }
                _ => self.w("true"),
            },
            Ty::Struct(i) => {
                let (name, fields) = self.structs[*i].clone();
                self.w(&name);
                self.w(" { ");
                let skip = self.slip();
                for (k, (f, ft)) in fields.iter().enumerate() {
                    if skip && k == 0 {
                        continue;
                    }
                    self.w(f);
                    self.w(": ");
                    self.expr(ft, d + 1);
                    self.w(", ");
                }
                self.w("}");
            }
            Ty::Enum(i) => {
                let (name, vars) = self.enums[*i].clone();
                let k = self.c.below(vars.len());
                self.w(&format!("{name}::{}", vars[k]));
            }
            Ty::OptInt => match self.c.below(if d >= 8 { 2 } else { 4 }) {
                0 => self.w("None"),
                1 => {
                    self.w("Some(");
                    self.expr(&Ty::Int, d + 1);
                    self.w(")");
                }
                _ => {
                    let pick = if self.c.u8() & 1 == 0 { "add(" } else { "sub(" };
                    self.w(pick);
                    self.expr(&Ty::Int, d + 1);
                    self.w(", ");
                    self.expr(&Ty::Int, d + 1);
                    self.w(")");
                }
            },
        }
    }
    /// `query`: binds allowed
    fn fact_lit(&mut self, query: bool, d: usize) {
        let k = self.c.below(self.facts.len());
        let (name, keys, vals) = self.facts[k].clone();
        self.w(&name);
        self.w("[");
        let mut bound = false;
        for (i, (kn, kt)) in keys.iter().enumerate() {
            if i > 0 {
                self.w(", ");
            }
            self.w(kn);
            self.w(": ");
            if query && (bound || self.c.chance(1, 3)) {
                bound = true;
                self.w("?");
            } else {
                self.expr(kt, d + 1);
            }
        }
        self.w("]");
        if !query || self.c.chance(1, 2) {
            self.w("=>{");
            for (i, (vn, vt)) in vals.iter().enumerate() {
                if i > 0 {
                    self.w(", ");
                }
                self.w(vn);
                self.w(": ");
                if query {
                    self.w("?");
                } else {
                    self.expr(vt, d + 1);
                }
            }
            self.w("}");
        }
    }
    fn named_lit(&mut self, name: &str, fields: &[(String, Ty)], d: usize) {
        self.w(name);
        self.w(" { ");
        for (f, ft) in fields {
            self.w(f);
            self.w(": ");
            self.expr(ft, d + 1);
            self.w(", ");
        }
        self.w("}");
    }
    /// ctx 0 function (ret), 1 action, 2 policy/recall. Emits statements; the caller closes the body.
    fn stmts(&mut self, ctx: u8, ret: Option<&Ty>, d: usize) {
        let n = self.c.below(4);
        for _ in 0..n {
            match self.c.below(if d < 3 { 7 } else { 3 }) {
                0 | 1 | 2 => {
                    let t = self.ty(false);
                    let name = self.fresh("l");
                    self.w(&format!("let {name} = "));
                    self.expr(&t, d + 1);
                    self.w("\n");
                    self.scopes.last_mut().unwrap().push((name, t));
                }
                3 => {
                    self.w("check ");
                    self.expr(&Ty::Bool, d + 1);
                    self.w(" else ");
                    match (ctx, ret) {
                        (0, Some(r)) => {
                            self.w("return ");
                            self.expr(r, d + 1);
                        }
                        _ => self.w("test_fail(\"no\")"),
                    }
                    self.w("\n");
                }
                4 => {
                    self.w("if (");
                    self.expr(&Ty::Bool, d + 1);
                    self.w(") {\n");
                    self.scopes.push(Vec::new());
                    self.stmts(ctx, ret, d + 1);
                    self.scopes.pop();
                    self.w("}\n");
                }
                5 if !self.enums.is_empty() => {
                    let i = self.c.below(self.enums.len());
                    let (name, vars) = self.enums[i].clone();
                    self.w("match (");
                    self.expr(&Ty::Enum(i), d + 1);
                    self.w(") {\n");
                    let partial = self.slip();
                    for (k, v) in vars.iter().enumerate() {
                        if partial && k == 0 {
                            continue;
                        }
                        self.w(&format!("{name}::{v} => {{\n"));
                        self.scopes.push(Vec::new());
                        self.stmts(ctx, ret, d + 1);
                        self.scopes.pop();
                        self.w("}\n");
                    }
                    self.w("}\n");
                }
                6 if ctx == 1 && !self.facts.is_empty() => {
                    self.w("map ");
                    self.fact_lit(true, d + 1);
                    let v = self.fresh("m");
                    self.w(&format!(" as {v} {{\n"));
                    self.scopes.push(Vec::new());
                    self.stmts(ctx, ret, d + 1);
                    self.scopes.pop();
                    self.w("}\n");
                }
                _ => {
                    self.w("debug_assert(");
                    self.expr(&Ty::Bool, d + 1);
                    self.w(")\n");
                }
            }
        }
    }
    fn finish_block(&mut self, d: usize) {
        self.w("finish {\n");
        let n = self.c.below(4);
        for _ in 0..n {
            match self.c.below(6) {
                0 if !self.facts.is_empty() => {
                    self.w("create ");
                    self.fact_lit(false, d + 8);
                }
                1 if !self.facts.is_empty() => {
                    self.w("delete ");
                    let k = self.c.below(self.facts.len());
                    let (name, keys, _) = self.facts[k].clone();
                    self.w(&name);
                    self.w("[");
                    for (i, (kn, kt)) in keys.iter().enumerate() {
                        if i > 0 {
                            self.w(", ");
                        }
                        self.w(kn);
                        self.w(": ");
                        self.expr(kt, d + 8);
                    }
                    self.w("]");
                }
                2 if !self.facts.is_empty() => {
                    let k = self.c.below(self.facts.len());
                    let (name, keys, vals) = self.facts[k].clone();
                    if name.starts_with("Im") && !self.slip() {
                        self.w("\n");
                        continue;
                    }
                    self.w(&format!("update {name}["));
                    for (i, (kn, kt)) in keys.iter().enumerate() {
                        if i > 0 {
                            self.w(", ");
                        }
                        self.w(kn);
                        self.w(": ");
                        self.expr(kt, d + 8);
                    }
                    self.w("]");
                    if self.c.chance(1, 2) {
                        self.w("=>{");
                        for (i, (vn, _)) in vals.iter().enumerate() {
                            if i > 0 {
                                self.w(", ");
                            }
                            self.w(&format!("{vn}: ?"));
                        }
                        self.w("}");
                    }
                    self.w(" to {");
                    for (i, (vn, vt)) in vals.iter().enumerate() {
                        if i > 0 {
                            self.w(", ");
                        }
                        self.w(vn);
                        self.w(": ");
                        self.expr(vt, d + 8);
                    }
                    self.w("}");
                }
                3 | 4 if !self.effects.is_empty() => {
                    let k = self.c.below(self.effects.len());
                    let (name, fields) = self.effects[k].clone();
                    self.w("emit ");
                    self.named_lit(&name, &fields, d + 8);
                }
                5 if !self.finish_funcs.is_empty() => {
                    let k = self.c.below(self.finish_funcs.len());
                    let (name, params) = self.finish_funcs[k].clone();
                    self.w(&name);
                    self.w("(");
                    for (i, p) in params.iter().enumerate() {
                        if i > 0 {
                            self.w(", ");
                        }
                        self.expr(p, d + 8);
                    }
                    self.w(")");
                }
                _ => {}
            }
            self.w("\n");
        }
        self.w("}\n");
    }
    fn policy(&mut self) {
        // definitions
        for _ in 0..self.c.below(3) {
            let name = self.fresh("En");
            let vars: Vec<String> = (0..1 + self.c.below(3)).map(|k| format!("V{k}")).collect();
            self.w(&format!("enum {name} {{ {} }}\n", vars.join(", ")));
            self.enums.push((name, vars));
        }
        for _ in 0..1 + self.c.below(3) {
            let name = self.fresh("St");
            let n = 1 + self.c.below(3);
            let f = self.field_list(n, false, "f");
            self.w(&format!("struct {name} {{ "));
            self.write_fields(&f);
            self.w(" }\n");
            self.structs.push((name, f));
        }
        for _ in 0..1 + self.c.below(2) {
            let name = self.fresh("Fa");
            let nk = 1 + self.c.below(2);
            let keys = self.field_list(nk, true, "k");
            let nv = self.c.below(3);
            let vals = self.field_list(nv, false, "v");
            let name = if self.c.chance(1, 6) {
                self.w("immutable ");
                format!("Im{name}")
            } else {
                name
            };
            self.w(&format!("fact {name}["));
            self.write_fields(&keys);
            self.w("]=>{");
            self.write_fields(&vals);
            self.w("}\n");
            self.facts.push((name, keys, vals));
        }
        for _ in 0..1 + self.c.below(2) {
            let name = self.fresh("Ef");
            let n = 1 + self.c.below(3);
            let f = self.field_list(n, false, "e");
            self.w(&format!("effect {name} {{ "));
            self.write_fields(&f);
            self.w(" }\n");
            self.effects.push((name, f));
        }
        for _ in 0..self.c.below(3) {
            let name = self.fresh("G");
            let t = self.ty(true);
            self.w(&format!("let {name} = "));
            // globals must be literals
            match t {
                Ty::Int => self.w("5"),
                Ty::Str => self.w("\"g\""),
                _ => self.w("true"),
            }
            self.w("\n");
            self.scopes[0].push((name, t));
        }
        for _ in 0..self.c.below(4) {
            let name = self.fresh("fun");
            let np = self.c.below(3);
            let params = self.field_list(np, false, "p");
            let ret = self.ty(false);
            self.w(&format!("function {name}("));
            self.write_fields(&params);
            let rt = self.ty_text(&ret);
            self.w(&format!(") {rt} {{\n"));
            self.scopes.push(params.clone());
            self.stmts(0, Some(&ret), 0);
            if !self.slip() {
                self.w("return ");
                self.expr(&ret, 0);
                self.w("\n");
            }
            self.scopes.pop();
            self.w("}\n");
            self.funcs.push((name, params.into_iter().map(|p| p.1).collect(), ret));
        }
        for _ in 0..self.c.below(2) {
            let name = self.fresh("ff");
            let np = self.c.below(3);
            let params = self.field_list(np, true, "p");
            self.w(&format!("finish function {name}("));
            self.write_fields(&params);
            self.w(") {\n");
            self.scopes.push(params.clone());
            // body of a finish function = statements of a finish block
            let before = self.o.len();
            self.finish_block(0);
            let body = self.o.split_off(before);
            let inner = body.trim_start_matches("finish {\n").trim_end().trim_end_matches('}');
            let inner = inner.to_string();
            self.w(&inner);
            self.scopes.pop();
            self.w("}\n");
            self.finish_funcs.push((name, params.into_iter().map(|p| p.1).collect()));
        }
        for _ in 0..1 + self.c.below(2) {
            let mut name = self.fresh("Cmd");
            let nf = self.c.below(4);
            let fields = self.field_list(nf, false, "c");
            if self.c.chance(1, 6) {
                self.w("ephemeral ");
                name = format!("Eph{name}");
            }
            self.w(&format!("command {name} {{\n"));
            if self.c.chance(1, 4) {
                self.w("attributes { prio: 3, tag: \"t\" }\n");
            }
            self.w("fields { ");
            self.write_fields(&fields);
            self.w(" }\nseal { return todo() }\nopen { return todo() }\npolicy {\n");
            let recall = self.c.chance(1, 2);
            let rname = self.fresh("rc");
            self.scopes.push(fields.iter().map(|(n, t)| (format!("this.{n}"), t.clone())).collect());
            self.stmts(2, None, 0);
            if recall {
                self.w("check ");
                self.expr(&Ty::Bool, 1);
                self.w(&format!(" else recall {rname}()\n"));
            }
            if self.c.chance(1, 3) {
                self.w("if (");
                self.expr(&Ty::Bool, 1);
                self.w(") {\n");
                self.finish_block(1);
                self.w("} else {\n");
                self.finish_block(1);
                self.w("}\n");
            } else if !self.slip() {
                self.finish_block(0);
            }
            self.w("}\n");
            if recall {
                self.w(&format!("recall {rname}() {{\n"));
                // the recall block does not see the policy block's locals
                let keep = fields.len();
                self.scopes.last_mut().unwrap().truncate(keep);
                self.stmts(2, None, 1);
                self.finish_block(1);
                self.w("}\n");
            }
            self.scopes.pop();
            self.w("}\n");
            self.cmds.push((name, fields));
        }
        for _ in 0..self.c.below(3) {
            let name = self.fresh("act");
            let np = self.c.below(3);
            let params = self.field_list(np, false, "a");
            let eph = self.c.chance(1, 6);
            if eph {
                self.w("ephemeral ");
            }
            self.w(&format!("action {name}("));
            self.write_fields(&params);
            self.w(") {\n");
            self.scopes.push(params);
            self.stmts(1, None, 0);
            let slip = self.slip();
            let cands: Vec<(String, Vec<(String, Ty)>)> =
                self.cmds.iter().filter(|c| slip || c.0.starts_with("Eph") == eph).cloned().collect();
            if !cands.is_empty() {
                let k = self.c.below(cands.len());
                let (cn, cf) = cands[k].clone();
                self.w("publish ");
                self.named_lit(&cn, &cf, 1);
                self.w("\n");
            }
            self.scopes.pop();
            self.w("}\n");
        }
    }
}

fn typed_text(data: &[u8]) -> String {
    let mut t = T {
        c: Cur { d: data, i: 0 },
        o: String::new(),
        structs: vec![],
        enums: vec![],
        facts: vec![],
        effects: vec![],
        cmds: vec![],
        funcs: vec![],
        finish_funcs: vec![],
        scopes: vec![Vec::new()],
        n: 0,
    };
    t.policy();
    t.o
}

/// Splits text into identifier / number / string / punctuation / whitespace pieces.
fn lex(s: &str) -> Vec<String> {
    let mut out: Vec<String> = Vec::new();
    let mut cur = String::new();
    let mut class = 0u8; // 1 word, 2 space, 3 other
    for ch in s.chars() {
        let c = if ch.is_alphanumeric() || ch == '_' {
            1
        } else if ch.is_whitespace() {
            2
        } else {
            3
        };
        if c != class || c == 3 {
            if !cur.is_empty() {
                out.push(std::mem::take(&mut cur));
            }
            class = c;
        }
        cur.push(ch);
    }
    if !cur.is_empty() {
        out.push(cur);
    }
    out
}

#[derive(Clone, Debug)]
enum Mutn {
    DeleteTokens(u16, u8),
    DuplicateTokens(u16, u8),
    ReplaceToken(u16, u16),
    InsertToken(u16, u16),
    SwapTokens(u16, u16),
    RenameIdent(u16, u16),
    DeleteChars(u16, u8),
    InsertChar(u16, char),
    Truncate(u16),
}

fn vocab(k: u16) -> &'static str {
    let n = KEYWORDS.len() + PUNCT.len() + IDENTS.len();
    let i = idx(k, n);
    if i < KEYWORDS.len() {
        KEYWORDS[i]
    } else if i < KEYWORDS.len() + PUNCT.len() {
        PUNCT[i - KEYWORDS.len()]
    } else {
        IDENTS[i - KEYWORDS.len() - PUNCT.len()]
    }
}

fn mutate(base: &str, muts: &[Mutn]) -> String {
    let mut toks = lex(base);
    for m in muts {
        let n = toks.len();
        match m {
            Mutn::DeleteTokens(p, l) => {
                if n > 0 {
                    let a = idx(*p, n);
                    let b = (a + 1 + *l as usize % 8).min(n);
                    toks.drain(a..b);
                }
            }
            Mutn::DuplicateTokens(p, l) => {
                if n > 0 {
                    let a = idx(*p, n);
                    let b = (a + 1 + *l as usize % 12).min(n);
                    let dup: Vec<String> = toks[a..b].to_vec();
                    let at = b;
                    for (k, t) in dup.into_iter().enumerate() {
                        toks.insert(at + k, t);
                    }
                }
            }
            Mutn::ReplaceToken(p, k) => {
                if n > 0 {
                    let a = idx(*p, n);
                    toks[a] = vocab(*k).to_string();
                }
            }
            Mutn::InsertToken(p, k) => {
                let a = idx(*p, n + 1);
                toks.insert(a, format!(" {} ", vocab(*k)));
            }
            Mutn::SwapTokens(a, b) => {
                if n > 0 {
                    toks.swap(idx(*a, n), idx(*b, n));
                }
            }
            Mutn::RenameIdent(p, q) => {
                let words: Vec<usize> = toks
                    .iter()
                    .enumerate()
                    .filter(|(_, t)| t.chars().next().is_some_and(|c| c.is_alphabetic()))
                    .map(|(i, _)| i)
                    .collect();
                if !words.is_empty() {
                    let a = words[idx(*p, words.len())];
                    let b = words[idx(*q, words.len())];
                    toks[a] = toks[b].clone();
                }
            }
            Mutn::DeleteChars(p, l) => {
                let s: Vec<char> = toks.concat().chars().collect();
                if !s.is_empty() {
                    let a = idx(*p, s.len());
                    let b = (a + 1 + *l as usize % 6).min(s.len());
                    let t: String = s[..a].iter().chain(s[b..].iter()).collect();
                    toks = lex(&t);
                }
            }
            Mutn::InsertChar(p, c) => {
                let mut s: Vec<char> = toks.concat().chars().collect();
                let a = idx(*p, s.len() + 1);
                s.insert(a, *c);
                toks = lex(&s.into_iter().collect::<String>());
            }
            Mutn::Truncate(p) => {
                let s: Vec<char> = toks.concat().chars().collect();
                let a = idx(*p, s.len() + 1);
                toks = lex(&s[..a].iter().collect::<String>());
            }
        }
    }
    toks.concat()
}

fn mutn_s() -> impl Strategy<Value = Mutn> {
    prop_oneof![
        3 => (any::<u16>(), any::<u8>()).prop_map(|(a, b)| Mutn::DeleteTokens(a, b)),
        2 => (any::<u16>(), any::<u8>()).prop_map(|(a, b)| Mutn::DuplicateTokens(a, b)),
        4 => (any::<u16>(), any::<u16>()).prop_map(|(a, b)| Mutn::ReplaceToken(a, b)),
        3 => (any::<u16>(), any::<u16>()).prop_map(|(a, b)| Mutn::InsertToken(a, b)),
        2 => (any::<u16>(), any::<u16>()).prop_map(|(a, b)| Mutn::SwapTokens(a, b)),
        4 => (any::<u16>(), any::<u16>()).prop_map(|(a, b)| Mutn::RenameIdent(a, b)),
        2 => (any::<u16>(), any::<u8>()).prop_map(|(a, b)| Mutn::DeleteChars(a, b)),
        2 => (any::<u16>(), prop_oneof![any::<char>(), prop::sample::select(vec!['{', '}', '"', '\\', '\0', '\n', '`', '-', '\u{e9}', '\u{2028}'])])
            .prop_map(|(a, b)| Mutn::InsertChar(a, b)),
        1 => any::<u16>().prop_map(Mutn::Truncate),
    ]
}

/// Markdown wrappers: front matter and fence variants.
fn wrap_md(front: u8, fence: u8, src: &str, second: &str) -> String {
    let fm = match front % 12 {
        0..=4 => "---\npolicy-version: 2\n---\n",
        5 => "",
        6 => "---\npolicy-version: 1\n---\n",
        7 => "---\npolicy-version: \"2\"\nother: [1, 2]\n---\n",
        8 => "---\npolicy_version: 2\n---\n",
        9 => "---\n- a\n- b\n---\n",
        10 => "---\npolicy-version: {a: 2}\n: :\n---\n",
        _ => "---\npolicy-version: 2\n",
    };
    let body = match fence % 10 {
        0..=3 => format!("\n```policy\n{src}\n```\n"),
        4 => format!("\n# T\n\ntext\n\n```policy\n{src}\n```\n\nmore\n\n```policy\n{second}\n```\n"),
        5 => format!("\n~~~policy\n{src}\n~~~\n"),
        6 => format!("\n- item\n\n  ```policy\n  {src}\n  ```\n\n> ```policy\n> {second}\n> ```\n"),
        7 => format!("\n```policy\n{src}\n"),
        8 => format!("\n````policy extra words\n{src}\n````\n\n```Policy\n{second}\n```\n"),
        _ => format!("\n\u{feff}```policy\r\n{}\r\n```\r\n| a | b |\n|---|---|\n| `x` | ```policy |\n", src.replace('\n', "\r\n")),
    };
    format!("{fm}{body}")
}

fn case() -> impl Strategy<Value = Case> {
    let c = corpus();
    let ns = c.sources.len();
    let nd = c.docs.len();
    let tok = prop_oneof![
        5 => any::<u16>().prop_map(|k| vocab(k).to_string()),
        2 => prop::sample::select(IDENTS.to_vec()).prop_map(str::to_string),
        1 => (0u32..300).prop_map(|n| n.to_string()),
        1 => "-?[0-9]{17,22}",
        1 => "\"[a-z\\\\x\"]{0,4}\"",
        1 => "[ -~]{1,3}",
    ];
    let soup = prop::collection::vec((tok, prop::sample::select(vec![" ", " ", "\n", "", "\t"])), 0..60)
        .prop_map(|v| v.into_iter().map(|(t, s)| format!("{t}{s}")).collect::<String>());
    prop_oneof![
        // arbitrary text
        2 => "\\PC{0,120}".prop_map(|text| Case { kind: "arbitrary".into(), text }),
        1 => ".{0,200}".prop_map(|text| Case { kind: "arbitrary".into(), text }),
        1 => prop::collection::vec(any::<char>(), 0..80).prop_map(|v| Case { kind: "arbitrary".into(), text: v.into_iter().collect() }),
        // token soup
        4 => soup.clone().prop_map(|text| Case { kind: "soup".into(), text }),
        // grammar sampler
        8 => prop::collection::vec(any::<u8>(), 0..400).prop_map(|d| Case { kind: "grammar".into(), text: grammar_text(&d, false) }),
        3 => prop::collection::vec(any::<u8>(), 0..120).prop_map(|d| Case { kind: "grammar_expr".into(), text: grammar_text(&d, true) }),
        // scope/type-aware sampler (mostly compiles), plain and mutated
        8 => prop::collection::vec(any::<u8>(), 0..600).prop_map(|d| Case { kind: "typed".into(), text: typed_text(&d) }),
        4 => (prop::collection::vec(any::<u8>(), 0..500), prop::collection::vec(mutn_s(), 1..3))
            .prop_map(|(d, m)| Case { kind: "typed_mutated".into(), text: mutate(&typed_text(&d), &m) }),
        // grammar sample, then mutated
        3 => (prop::collection::vec(any::<u8>(), 0..300), prop::collection::vec(mutn_s(), 1..3))
            .prop_map(|(d, m)| Case { kind: "grammar_mutated".into(), text: mutate(&grammar_text(&d, false), &m) }),
        // corpus, mutated
        8 => (any::<u16>(), prop::collection::vec(mutn_s(), 0..4))
            .prop_map(move |(i, m)| Case { kind: if m.is_empty() { "corpus".into() } else { "corpus_mutated".into() }, text: mutate(&corpus().sources[idx(i, ns)], &m) }),
        // two corpus entries glued together (name clashes, duplicate definitions)
        2 => (any::<u16>(), any::<u16>())
            .prop_map(move |(i, j)| Case { kind: "corpus_pair".into(), text: format!("{}\n{}", corpus().sources[idx(i, ns)], corpus().sources[idx(j, ns)]) }),
        // markdown documents
        3 => (any::<u16>(), prop::collection::vec(mutn_s(), 0..4))
            .prop_map(move |(i, m)| Case { kind: "doc_mutated".into(), text: mutate(&corpus().docs[idx(i, nd)], &m) }),
        4 => (any::<u8>(), any::<u8>(), any::<u16>(), any::<u16>(), prop::collection::vec(mutn_s(), 0..2))
            .prop_map(move |(f, b, i, j, m)| Case {
                kind: "doc_wrapped".into(),
                text: wrap_md(f, b, &mutate(&corpus().sources[idx(i, ns)], &m), &corpus().sources[idx(j, ns)]),
            }),
        2 => (any::<u8>(), any::<u8>(), prop::collection::vec(any::<u8>(), 0..200))
            .prop_map(|(f, b, d)| Case { kind: "doc_wrapped_grammar".into(), text: wrap_md(f, b, &grammar_text(&d, false), "let z = 1") }),
        1 => (any::<u8>(), any::<u8>(), soup).prop_map(|(f, b, s)| Case { kind: "doc_wrapped_soup".into(), text: wrap_md(f, b, &s, "") }),
    ]
}

// ---- oracle ---------------------------------------------------------------------------------------------------------

fn short_file(loc: &str) -> String {
    let l = loc.rsplit_once(':').map(|x| x.0).unwrap_or(loc);
    match l.find("crates/") {
        Some(i) => l[i..].to_string(),
        None => match l.find("/registry/src/") {
            Some(i) => l[i + 14..].split_once('/').map(|x| x.1.to_string()).unwrap_or_else(|| l.to_string()),
            None => l.to_string(),
        },
    }
}

/// Keeps the input-independent head of a panic message (up to the first number or quoted excerpt; backtick spans that
/// look like code such as `Option::unwrap()` are kept), so that one defect has one signature.
fn normalize(msg: &str) -> String {
    // one family in the markdown crate: the pair of event names after this text varies with the input
    if let Some(i) = msg.find("mismatched (non-jsx)") {
        return msg[..i + "mismatched (non-jsx)".len()].to_string();
    }
    let chars: Vec<char> = msg.chars().collect();
    let mut out = String::new();
    let mut i = 0;
    while i < chars.len() && out.len() < 100 {
        let c = chars[i];
        if c.is_ascii_digit() || c == '\'' || c == '"' || !c.is_ascii() || c.is_ascii_control() {
            break;
        }
        if c == '`' {
            match chars[i + 1..].iter().take(40).position(|x| *x == '`') {
                Some(j) if chars[i + 1..i + 1 + j].iter().all(|x| x.is_ascii_graphic()) => {
                    out.extend(&chars[i..i + j + 2]);
                    i += j + 2;
                    continue;
                }
                _ => break,
            }
        }
        out.push(c);
        i += 1;
    }
    out.trim_end().to_string()
}

fn guarded<R>(what: &str, input: &str, f: impl FnOnce() -> R) -> Result<R, Failure> {
    vcommon::catch(f).map_err(|(msg, loc)| {
        let m = normalize(&msg);
        Failure::new(
            format!("panic in {what}: {m} @ {}", short_file(&loc)),
            format!("{what} panicked with `{msg}` at {loc}; input: {input:?}"),
        )
    })
}

/// Rendering failures are reported only after everything else in the case has been checked.
struct Deferred(Vec<Failure>, usize);

impl Deferred {
    /// Printing a returned error is not one of the steps C27 speaks about (parse, compile): a panic while
    /// rendering is recorded as a label only.
    fn render(&mut self, what: &str, input: &str, f: impl FnOnce() -> String) {
        if guarded(what, input, f).is_err() {
            self.1 += 1;
        }
    }
}

fn compile_all(p: &aranya_policy_ast::Policy, via: &str, c: &Case, input: &str, info: &mut CaseInfo, df: &mut Deferred) -> CheckResult {
    let mut any_ok = false;
    for debug in [true, false] {
        for stub in [false, true] {
            let r = guarded("Compiler::compile", input, || Compiler::new(p).debug(debug).stub_ffi(stub).compile())?;
            match r {
                Ok(_) => any_ok = true,
                // the structured error must be printable as well
                Err(e) => df.render("CompileError::to_string", input, || e.to_string()),
            }
        }
    }
    info.nontrivial();
    info.label(format!("{via}_parsed"));
    info.label(format!("parsed_{}", c.kind));
    info.label(if any_ok { "compiled_ok" } else { "compile_error" });
    if any_ok {
        info.label(format!("compiled_ok_{}", c.kind));
    }
    Ok(())
}

#[allow(deprecated)]
fn versions() -> [Version; 2] {
    [Version::V2, Version::V1]
}

fn check(c: &Case, info: &mut CaseInfo) -> CheckResult {
    info.label(format!("kind_{}", c.kind));
    let t = &c.text;
    let mut df = Deferred(Vec::new(), 0);
    match guarded("parse_policy_document", t, || parse_policy_document(t)) {
        Ok(Ok(p)) => compile_all(&p, "document", c, t, info, &mut df)?,
        Ok(Err(e)) => df.render("ParseError::to_string", t, || e.to_string()),
        // the markdown front end failing does not stop the other front ends from being examined
        Err(fl) => df.0.push(fl),
    }
    for v in versions() {
        match guarded("parse_policy_str", t, || parse_policy_str(t, v))? {
            Ok(p) => compile_all(&p, "source", c, t, info, &mut df)?,
            Err(e) => df.render("ParseError::to_string", t, || e.to_string()),
        }
    }
    match guarded("parse_expression", t, || parse_expression(t))? {
        Ok(_) => {
            info.label("expression_parsed");
            info.nontrivial();
        }
        Err(e) => df.render("ParseError::to_string", t, || e.to_string()),
    }
    // bare source is also tried inside a standard document
    if !c.kind.starts_with("doc") && t.len() < 4000 {
        let doc = policies::to_doc(t);
        match guarded("parse_policy_document", &doc, || parse_policy_document(&doc)) {
            Ok(Ok(p)) => {
                // compile only once more (same AST up to span offsets)
                let r = guarded("Compiler::compile", &doc, || Compiler::new(&p).compile())?;
                if let Err(e) = r {
                    df.render("CompileError::to_string", &doc, || e.to_string());
                }
                info.label("wrapped_document_parsed");
            }
            Ok(Err(e)) => df.render("ParseError::to_string", &doc, || e.to_string()),
            Err(fl) => df.0.push(fl),
        }
    }
    if df.1 > 0 {
        info.label("error_rendering_panicked_(outside_the_statement)");
    }
    match df.0.into_iter().next() {
        Some(fl) => Err(fl),
        None => Ok(()),
    }
}

pub fn run(ctx: &Ctx) -> ! {
    let mut rep = Report::new(ctx, "exploration");
    let c = corpus();
    rep.assume(format!(
        "corpus: {} policy sources and {} markdown documents ({} read from $VERIF_REPO test data, the rest embedded); cases store the final text",
        c.sources.len(),
        c.docs.len(),
        c.from_repo
    ));
    rep.assume("nesting depth of generated text is bounded (grammar sampler depth 7, inputs <= ~20 kB); exhaustion of the native stack by deeper nesting is not examined");
    rep.assume("printing the returned ParseError / CompileError (Display) is exercised but a panic there is only recorded as a label: the statement speaks about parsing and compiling, not about rendering errors");
    if std::env::var_os("VH_ROBUST_DUMP").is_some() {
        let mut rng = vcommon::rng_for(ctx.seed, "dump");
        use proptest::prelude::RngCore;
        let mut ok = 0;
        for _ in 0..300 {
            let mut d = vec![0u8; 500];
            rng.fill_bytes(&mut d);
            let t = if std::env::var_os("VH_ROBUST_TYPED").is_some() { typed_text(&d) } else { grammar_text(&d, false) };
            match parse_policy_str(&t, Version::V2) {
                Ok(p) => {
                    ok += 1;
                    match Compiler::new(&p).compile() {
                        Ok(_) => println!("COMPILE ok"),
                        Err(e) => {
                            println!("COMPILE {}", e.to_string().lines().next().unwrap_or(""));
                            if std::env::var_os("VH_ROBUST_FULL").is_some() {
                                println!("FULL {}", e.to_string().lines().take(12).collect::<Vec<_>>().join("\nFULL "));
                            }
                        }
                    }
                }
                Err(e) => {
                    let sp = e.span.map(|s| (s.start(), s.end()));
                    let ex = sp.map(|(a, _)| t.get(a.saturating_sub(30)..(a + 20).min(t.len())).unwrap_or("").replace('\n', " "));
                    println!("ERR {:?} {} | near: {:?}", e.kind, e.message.lines().next().unwrap_or(""), ex);
                }
            }
        }
        println!("grammar sampler parse rate {ok}/300");
    }
    rep.explore(
        "front_ends",
        "texts: arbitrary unicode; token soup over all literal tokens of policy.pest; a grammar sampler for policy.pest \
         (all top-level items, statements and expression forms, names from a small pool, random types/scopes, depth <= 7); \
         sampler output with token/char mutations; repository + harness corpus of policy sources with 0..3 mutations \
         (delete/duplicate/replace/insert/swap tokens, rename identifier, delete/insert characters, truncate); pairs of \
         corpus entries; markdown documents (corpus documents mutated; sources wrapped with 12 front-matter and 10 fence \
         variants). Every text goes through parse_policy_document, parse_policy_str (V1, V2), parse_expression, and, if \
         not already a document, through a standard document wrapper; every AST obtained is compiled with debug x stub_ffi \
         (4 combinations); returned errors are rendered. Non-trivial = some parser accepted the text (the compiler ran)",
        case,
        ctx.pick(100_000, 2_000_000),
        check,
    );
    rep.finish()
}
