pub fn run(_ctx: &vcommon::Ctx) -> ! { todo!() }
