//! C31: the policy-compiler binary exits 0 and writes a module only for documents that parse, compile and
//! (unless --no-validate) pass validation; documents failing validation make it exit with failure.
use std::{
    path::{Path, PathBuf},
    process::Command,
    sync::OnceLock,
};

use aranya_policy_compiler::{
    ActionAnalyzer, Compiler, FinishAnalyzer, FunctionAnalyzer, TraceAnalyzerBuilder, ValueAnalyzer,
};
use aranya_policy_lang::lang::parse_policy_document;
use aranya_policy_module::{LabelType, Module, ModuleData};
use proptest::prelude::*;
use serde::{Deserialize, Serialize};
use vcommon::{CaseInfo, CheckResult, Ctx, Report, ensure, idx};

use crate::policies;

// ---- building the binary under test ----------------------------------------------------------------

fn repo() -> PathBuf {
    PathBuf::from(std::env::var("VERIF_REPO").unwrap_or_else(|_| "/repo".into()))
}

/// `<target>/cli` next to the directory this harness binary was built into.
fn cli_target_dir() -> PathBuf {
    if let Ok(d) = std::env::var("VERIF_CLI_TARGET") {
        return PathBuf::from(d);
    }
    let exe = std::env::current_exe().unwrap_or_else(|_| PathBuf::from("/verif/target/release/vh-robust"));
    // <target>/release/vh-robust -> <target>/cli
    exe.parent()
        .and_then(Path::parent)
        .map(|t| t.join("cli"))
        .unwrap_or_else(|| PathBuf::from("/verif/target/cli"))
}

fn build_cli() -> Result<PathBuf, String> {
    let target = cli_target_dir();
    let out = Command::new("cargo")
        .args(["build", "--offline", "--locked", "-p", "aranya-policy-compiler", "--bin", "policy-compiler"])
        .arg("--manifest-path")
        .arg(repo().join("Cargo.toml"))
        .arg("--target-dir")
        .arg(&target)
        .env("CARGO_NET_OFFLINE", "true")
        .env_remove("CARGO_TARGET_DIR")
        .env_remove("RUSTFLAGS")
        .output()
        .map_err(|e| format!("cannot run cargo: {e}"))?;
    if !out.status.success() {
        let err = String::from_utf8_lossy(&out.stderr);
        let tail: String = err.lines().rev().take(15).collect::<Vec<_>>().into_iter().rev().collect::<Vec<_>>().join("\n");
        return Err(format!("cargo build of policy-compiler failed:\n{tail}"));
    }
    let bin = target.join("debug").join("policy-compiler");
    if !bin.exists() {
        return Err(format!("{} missing after build", bin.display()));
    }
    Ok(bin)
}

static CLI: OnceLock<PathBuf> = OnceLock::new();

// ---- cases -------------------------------------------------------------------------------------------

#[derive(Clone, Debug, Serialize, Deserialize)]
struct Case {
    /// How the document was put together (label only; the expected outcome is computed from `doc`).
    hint: String,
    doc: String,
    /// by construction the document contains a function in which some path does not return
    #[serde(default)]
    model_invalid: bool,
    no_validate: bool,
    stub_ffi: bool,
    explicit_out: bool,
    verbose: bool,
}

/// Statement trees for generated functions / actions whose validity depends on their shape.
#[derive(Clone, Debug)]
enum St {
    Terminal,
    Let,
    If(Vec<St>, Option<Vec<St>>),
    Match(Vec<St>, Vec<St>),
    /// k consecutive `check` statements (k branches on one path; a failed check ends the path)
    Checks(u8),
    /// `if .. {a0} else if .. {a1} .. [else {e}]`; each arm is the terminal (true) or a `let` (false)
    Chain(Vec<bool>, Option<bool>),
}

/// Does every path through the block reach the terminal statement?  (Written from the language: `if`
/// without `else` and `check` fall through; a chain terminates iff it has a final `else` and every arm does.)
fn terminates(b: &[St]) -> bool {
    b.iter().any(|s| match s {
        St::Terminal => true,
        St::Let | St::Checks(_) => false,
        St::If(a, Some(e)) => terminates(a) && terminates(e),
        St::If(_, None) => false,
        St::Match(a, e) => terminates(a) && terminates(e),
        St::Chain(arms, e) => *e == Some(true) && arms.iter().all(|t| *t),
    })
}

fn longest_branch_run(b: &[St]) -> usize {
    b.iter()
        .map(|s| match s {
            St::Checks(k) => usize::from(*k),
            St::Chain(a, _) => a.len(),
            St::If(a, e) => 1 + longest_branch_run(a).max(e.as_deref().map_or(0, longest_branch_run)),
            St::Match(a, e) => 1 + longest_branch_run(a).max(longest_branch_run(e)),
            _ => 0,
        })
        .sum()
}

fn st(deep: bool) -> impl Strategy<Value = Vec<St>> {
    let leaf = prop_oneof![
        6 => Just(St::Terminal),
        4 => Just(St::Let),
        if deep { 4 } else { 1 } => prop_oneof![if deep { 1 } else { 3 } => 1u8..12, 2 => 12u8..70].prop_map(St::Checks),
        if deep { 3 } else { 1 } => (prop::collection::vec(prop::bool::weighted(0.8), 1..60), prop::option::weighted(0.8, prop::bool::weighted(0.8)))
            .prop_map(|(a, e)| St::Chain(a, e)),
    ];
    let node = leaf.prop_recursive(3, 12, 3, |inner| {
        let block = prop::collection::vec(inner, 0..3);
        prop_oneof![
            (block.clone(), prop::option::of(block.clone())).prop_map(|(a, b)| St::If(a, b)),
            (block.clone(), block).prop_map(|(a, b)| St::Match(a, b)),
        ]
    });
    prop::collection::vec(node, 0..4)
}

fn render_block(b: &[St], terminal: &str, depth: usize, n: &mut usize, out: &mut String) {
    let pad = "    ".repeat(depth);
    for s in b {
        match s {
            St::Terminal => out.push_str(&format!("{pad}{terminal}\n")),
            St::Let => {
                *n += 1;
                out.push_str(&format!("{pad}let v{} = x\n", *n));
            }
            St::If(a, e) => {
                *n += 1;
                out.push_str(&format!("{pad}if x > {} {{\n", *n));
                render_block(a, terminal, depth + 1, n, out);
                if let Some(e) = e {
                    out.push_str(&format!("{pad}}} else {{\n"));
                    render_block(e, terminal, depth + 1, n, out);
                }
                out.push_str(&format!("{pad}}}\n"));
            }
            St::Checks(k) => {
                for _ in 0..*k {
                    *n += 1;
                    let fail = if terminal == "return x" { "return x" } else { "todo()" };
                    out.push_str(&format!("{pad}check x != {} else {fail}\n", *n));
                }
            }
            St::Chain(arms, e) => {
                for (i, t) in arms.iter().enumerate() {
                    *n += 1;
                    let kw = if i == 0 { format!("{pad}if") } else { " else if".to_string() };
                    let body = if *t { terminal.to_string() } else { format!("let v{} = x", *n) };
                    out.push_str(&format!("{kw} x > {} {{\n{pad}    {body}\n{pad}}}", *n));
                }
                if let Some(t) = e {
                    *n += 1;
                    let body = if *t { terminal.to_string() } else { format!("let v{} = x", *n) };
                    out.push_str(&format!(" else {{\n{pad}    {body}\n{pad}}}"));
                }
                out.push('\n');
            }
            St::Match(a, e) => {
                *n += 1;
                out.push_str(&format!("{pad}match x == {} {{\n{pad}    true => {{\n", *n));
                render_block(a, terminal, depth + 2, n, out);
                out.push_str(&format!("{pad}    }}\n{pad}    false => {{\n"));
                render_block(e, terminal, depth + 2, n, out);
                out.push_str(&format!("{pad}    }}\n{pad}}}\n"));
            }
        }
    }
}

/// kind 0: function (terminal = return), 1: action (publish), 2: command policy (finish)
fn render_shape(kind: u8, body: &[St]) -> String {
    let mut out = String::new();
    let mut n = 0;
    match kind % 3 {
        0 => {
            out.push_str("function shaped(x int) int {\n");
            render_block(body, "return x", 1, &mut n, &mut out);
            out.push_str("}\n");
        }
        1 => {
            out.push_str("command ShapeCmd {\n    fields { x int }\n    seal { return todo() }\n    open { return todo() }\n    policy { finish {} }\n}\n");
            out.push_str("action shaped(x int) {\n");
            render_block(body, "publish ShapeCmd { x: x }", 1, &mut n, &mut out);
            out.push_str("}\n");
        }
        _ => {
            out.push_str("command ShapeCmd {\n    fields { x int }\n    seal { return todo() }\n    open { return todo() }\n    policy {\n        let x = this.x\n");
            render_block(body, "finish {}", 2, &mut n, &mut out);
            out.push_str("    }\n}\n");
        }
    }
    out
}

fn wrap(variant: u8, src: &str, extra: &str) -> String {
    match variant % 8 {
        // front matter missing
        5 => format!("# Policy\n\n```policy\n{src}\n```\n"),
        // old version
        6 => format!("---\npolicy-version: 1\n---\n\n```policy\n{src}\n```\n"),
        // two chunks and a foreign code block
        3 | 4 => format!(
            "---\npolicy-version: 2\n---\n\n# Title\n\n```rust\nfn main() {{}}\n```\n\n```policy\n{src}\n```\n\ntext between\n\n```policy\n{extra}\n```\n"
        ),
        // no policy block at all
        7 => format!("---\npolicy-version: 2\n---\n\n```text\n{src}\n```\n"),
        _ => {
            let mut d = policies::to_doc(src);
            if !extra.is_empty() {
                d = policies::to_doc(&format!("{src}\n{extra}"));
            }
            d
        }
    }
}

fn case(focus: bool) -> impl Strategy<Value = Case> {
    let v = policies::VALID.len();
    let base = prop_oneof![
        3 => any::<u16>().prop_map(move |i| ("valid".to_string(), policies::VALID[idx(i, v)].to_string())),
        3 => any::<u16>().prop_map(|i| {
            let (n, s) = policies::INVALID_VALIDATION[idx(i, policies::INVALID_VALIDATION.len())];
            (format!("fails validation: {n}"), s.to_string())
        }),
        2 => any::<u16>().prop_map(|i| {
            let (n, s) = policies::INVALID_COMPILE[idx(i, policies::INVALID_COMPILE.len())];
            (format!("compile error: {n}"), s.to_string())
        }),
        2 => any::<u16>().prop_map(|i| {
            let (n, s) = policies::INVALID_PARSE[idx(i, policies::INVALID_PARSE.len())];
            (format!("parse error: {n}"), s.to_string())
        }),
        // a valid policy followed by one that fails validation / compilation
        2 => (any::<u16>(), any::<u16>()).prop_map(move |(i, j)| {
            let (n, s) = policies::INVALID_VALIDATION[idx(j, policies::INVALID_VALIDATION.len())];
            (format!("valid + fails validation: {n}"), format!("{}\n{}", policies::VALID[idx(i, v)], s.replace("command C ", "command Cx ").replace("publish C ", "publish Cx ")))
        }),
        // generated control-flow shapes: validity depends on whether every path ends in return/publish/finish
        if focus { 10_000 } else { 8 } => (if focus { 0u8..1 } else { 0u8..3 }, st(focus), prop::option::weighted(if focus { 0.2 } else { 0.5 }, any::<u16>()), prop::option::weighted(if focus { 0.6 } else { 0.35 }, (st(focus), prop::option::weighted(0.6, 1u8..70))))
            .prop_map(move |(k, body, with, second)| {
                let mut s = render_shape(k, &body);
                let mut hint = format!("shape kind {k}");
                if k % 3 == 0 && !terminates(&body) {
                    hint.push_str(" [MODEL-INVALID]");
                }
                hint.push_str(&format!(" [run {}]", longest_branch_run(&body)));
                if let Some((b2, checks)) = second {
                    // a second, independent function: long runs of branches there must not influence the verdict
                    // on the first one
                    let mut b2 = b2;
                    if let Some(kc) = checks {
                        b2.insert(0, St::Checks(kc));
                    }
                    let mut out = String::from("function zz_second(x int) int {\n");
                    let mut n = 1000;
                    render_block(&b2, "return x", 1, &mut n, &mut out);
                    out.push_str("}\n");
                    if !terminates(&b2) {
                        hint.push_str(" [MODEL-INVALID]");
                    }
                    hint.push_str(&format!(" [second run {}]", longest_branch_run(&b2)));
                    s.push_str(&out);
                }
                if let Some(i) = with {
                    s = format!("{}\n{}", policies::VALID[idx(i, v)], s);
                }
                (hint, s)
            }),
    ];
    (
        base,
        if focus { prop_oneof![1 => 0u8..3, 1 => 0u8..3] } else { prop_oneof![6 => 0u8..3, 2 => 3u8..8] },
        prop::option::weighted(if focus { 0.0001 } else { 0.15 }, (any::<u16>(), any::<u16>())),
        prop::bool::weighted(if focus { 0.2 } else { 0.5 }),
        prop::bool::weighted(if focus { 0.0001 } else { 0.15 }),
        any::<bool>(),
        prop::bool::weighted(0.2),
    )
        .prop_map(|((hint, mut src), variant, del, no_validate, stub_ffi, explicit_out, verbose)| {
            let mut hint = hint;
            let mut model_invalid = hint.contains("[MODEL-INVALID]");
            if let Some((p, l)) = del {
                model_invalid = false;
                // delete a short run of characters: mostly parse / compile errors
                let chars: Vec<char> = src.chars().collect();
                if !chars.is_empty() {
                    let a = idx(p, chars.len());
                    let b = (a + 1 + idx(l, 6)).min(chars.len());
                    src = chars[..a].iter().chain(chars[b..].iter()).collect();
                    hint.push_str(" (chars deleted)");
                }
            }
            let extra = if variant % 8 == 3 { policies::VALID[2] } else if variant % 8 == 4 { "function second_chunk() int { return 1 }" } else { "" };
            let doc = wrap(variant, &src, extra);
            Case { hint: format!("{hint}; wrap {}", variant % 8), doc, model_invalid, no_validate, stub_ffi, explicit_out, verbose }
        })
}

// ---- expected outcome, from the library ------------------------------------------------------------------

#[derive(Debug, PartialEq, Clone, Copy)]
enum Verdict {
    ParseError,
    CompileError,
    FailsValidation,
    Valid,
    /// the tracer itself gave up; `validate` does not define an answer
    TraceError,
    /// the library panicked (C27's business)
    LibraryPanic,
}

/// The same traversal `validate()` performs, without printing, reporting whether any trace failure exists.
fn validation_fails(module: &Module) -> Result<bool, String> {
    let ModuleData::V0(ref m) = module.data;
    let globals: Vec<_> = m.globals.keys().cloned().collect();
    let mut failed = false;
    for l in m.labels.keys() {
        let mut tracer = TraceAnalyzerBuilder::new(m);
        match l.ltype {
            LabelType::Action => tracer = tracer.add_analyzer(ActionAnalyzer::new()),
            LabelType::CommandPolicy | LabelType::CommandRecall => tracer = tracer.add_analyzer(FinishAnalyzer::new()),
            LabelType::CommandSeal | LabelType::CommandOpen => {}
            LabelType::Function => tracer = tracer.add_analyzer(FunctionAnalyzer::new()),
            LabelType::Temporary => return Err("temporary label in module".into()),
        }
        let tracer = tracer.add_analyzer(ValueAnalyzer::new(globals.clone())).build();
        match tracer.trace(l) {
            Ok(f) => failed |= !f.is_empty(),
            Err(e) => return Err(e.to_string()),
        }
    }
    Ok(failed)
}

fn verdict(doc: &str, stub_ffi: bool) -> Verdict {
    let r = vcommon::catch(|| {
        let ast = match parse_policy_document(doc) {
            Ok(a) => a,
            Err(_) => return Verdict::ParseError,
        };
        let module = match Compiler::new(&ast).stub_ffi(stub_ffi).compile() {
            Ok(m) => m,
            Err(e) => {
                if std::env::var_os("VH_C31_DEBUG").is_some() {
                    eprintln!("COMPILE-ERROR {}", e.to_string().lines().take(3).collect::<Vec<_>>().join(" / "));
                }
                return Verdict::CompileError;
            }
        };
        match validation_fails(&module) {
            Ok(true) => Verdict::FailsValidation,
            Ok(false) => Verdict::Valid,
            Err(_) => Verdict::TraceError,
        }
    });
    r.unwrap_or(Verdict::LibraryPanic)
}

fn check(c: &Case, info: &mut CaseInfo) -> CheckResult {
    let bin = CLI.get().expect("cli built");
    let v = verdict(&c.doc, c.stub_ffi);
    info.label(format!("{v:?}{}", if c.no_validate { " --no-validate" } else { "" }));
    if c.stub_ffi {
        info.label("--stub-ffi");
    }

    let dir = tempfile::tempdir().map_err(|e| vcommon::Failure::new("harness: tempdir", e.to_string()))?;
    let input = dir.path().join("policy.md");
    std::fs::write(&input, &c.doc).map_err(|e| vcommon::Failure::new("harness: write", e.to_string()))?;
    let out_path = if c.explicit_out { dir.path().join("out.module") } else { dir.path().join("policy.pmod") };
    let mut cmd = Command::new(bin);
    cmd.arg(&input);
    if c.explicit_out {
        cmd.arg("--out").arg(&out_path);
    }
    if c.no_validate {
        cmd.arg("--no-validate");
    }
    if c.stub_ffi {
        cmd.arg("--stub-ffi");
    }
    if c.verbose {
        cmd.arg("--verbose");
    }
    cmd.current_dir(dir.path()).env_remove("RUST_BACKTRACE");
    // stdout/stderr go to files outside the case directory (no pipe to fill up, nothing to confuse the
    // stray-file check)
    let logs = tempfile::tempdir().map_err(|e| vcommon::Failure::new("harness: tempdir", e.to_string()))?;
    let so = std::fs::File::create(logs.path().join("stdout")).map_err(|e| vcommon::Failure::new("harness: log", e.to_string()))?;
    let se = std::fs::File::create(logs.path().join("stderr")).map_err(|e| vcommon::Failure::new("harness: log", e.to_string()))?;
    cmd.stdin(std::process::Stdio::null()).stdout(so).stderr(se);
    let mut child = cmd.spawn().map_err(|e| vcommon::Failure::new("harness: spawn", e.to_string()))?;
    let mut waited = 0u32;
    let status = loop {
        match child.try_wait() {
            Ok(Some(st)) => break st,
            Ok(None) => {
                if waited > 60_000 {
                    // the validator's path tracing can take very long; not what this property is about
                    let _ = child.kill();
                    let _ = child.wait();
                    info.label("cli_timeout_no_verdict");
                    return Ok(());
                }
                std::thread::sleep(std::time::Duration::from_millis(5));
                waited += 1;
            }
            Err(e) => return Err(vcommon::Failure::new("harness: wait", e.to_string())),
        }
    };
    struct Out {
        stdout: Vec<u8>,
        stderr: Vec<u8>,
    }
    let out = Out {
        stdout: std::fs::read(logs.path().join("stdout")).unwrap_or_default(),
        stderr: std::fs::read(logs.path().join("stderr")).unwrap_or_default(),
    };
    let code = status.code();
    let wrote = out_path.exists();
    let others: Vec<String> = std::fs::read_dir(dir.path())
        .map(|rd| rd.filter_map(|e| e.ok()).map(|e| e.file_name().to_string_lossy().into_owned()).collect())
        .unwrap_or_default();
    let out_name = out_path.file_name().map(|n| n.to_string_lossy().into_owned()).unwrap_or_default();
    let stray = others.iter().any(|n| n != "policy.md" && *n != out_name);
    let detail = format!(
        "verdict={v:?} no_validate={} stub_ffi={} exit={code:?} wrote={wrote} files={others:?} hint={} stdout={:?} stderr={:?}",
        c.no_validate,
        c.stub_ffi,
        c.hint,
        String::from_utf8_lossy(&out.stdout).chars().take(300).collect::<String>(),
        String::from_utf8_lossy(&out.stderr).chars().take(300).collect::<String>()
    );

    ensure!(matches!(code, Some(0) | Some(1)), "cli: abnormal termination", "{detail}");
    ensure!(!stray, "cli: wrote a file other than the requested output", "{detail}");
    let success = code == Some(0);

    // Independent of the library's tracer: a generated function in which some path does not return fails
    // validation by the definition of the function rule, so once the document parses and compiles the tool must
    // refuse it (unless validation is disabled).
    if c.model_invalid && matches!(v, Verdict::FailsValidation | Verdict::Valid | Verdict::TraceError) {
        info.label("model_invalid_function_compiles");
        if !c.no_validate {
            info.nontrivial();
            ensure!(
                !success && !wrote,
                "cli: accepted a function that does not return on every path",
                "{detail}"
            );
        }
    }
    if c.hint.contains("shape kind 0") && !c.hint.contains("(chars deleted)") && !c.model_invalid && v == Verdict::FailsValidation {
        // the model and the library disagree in the other direction: not a claim of the statement, reported as a label
        info.label("library_stricter_than_model");
    }
    match v {
        Verdict::LibraryPanic | Verdict::TraceError => {
            // no expectation defined by the statement beyond: a module is only written on success
            ensure!(success || !wrote, "cli: module written although exit status is failure", "{detail}");
            return Ok(());
        }
        Verdict::ParseError | Verdict::CompileError => {
            info.nontrivial();
            ensure!(!success && !wrote, "cli: accepted a document that does not parse or compile", "{detail}");
        }
        Verdict::FailsValidation if !c.no_validate => {
            info.nontrivial();
            ensure!(!success && !wrote, "cli: accepted a policy that fails validation", "{detail}");
        }
        Verdict::Valid if !c.no_validate => {
            info.nontrivial();
            ensure!(success, "cli: rejected a valid policy with validation enabled", "{detail}");
        }
        Verdict::Valid | Verdict::FailsValidation => {
            info.nontrivial();
            ensure!(success, "cli: rejected a compilable policy under --no-validate", "{detail}");
        }
    }
    ensure!(success || !wrote, "cli: module written although exit status is failure", "{detail}");
    if success {
        ensure!(wrote == !c.stub_ffi, "cli: exit 0 but module file presence is wrong", "{detail}");
        if wrote {
            let bytes = std::fs::read(&out_path).unwrap_or_default();
            let m: Result<Module, _> = ciborium::from_reader(&bytes[..]);
            ensure!(m.is_ok(), "cli: written file is not a module", "{detail} decode error={:?}", m.err().map(|e| e.to_string()));
        }
    }
    Ok(())
}

pub fn run(ctx: &Ctx) -> ! {
    let mut rep = Report::new(ctx, "exploration");
    match build_cli() {
        Ok(p) => {
            let _ = CLI.set(p);
        }
        Err(e) => {
            println!("INCONCLUSIVE property=C31 {e}");
            std::process::exit(2);
        }
    }
    if std::env::var_os("VH_ROBUST_DUMP").is_some() {
        for (i, s) in policies::VALID.iter().enumerate() {
            println!("VALID[{i}] -> {:?}", verdict(&policies::to_doc(s), false));
        }
        for (n, s) in policies::INVALID_VALIDATION {
            println!("INVALID_VALIDATION[{n}] -> {:?}", verdict(&policies::to_doc(s), false));
        }
        for (n, s) in policies::INVALID_COMPILE {
            println!("INVALID_COMPILE[{n}] -> {:?}", verdict(&policies::to_doc(s), false));
        }
        for (n, s) in policies::INVALID_PARSE {
            println!("INVALID_PARSE[{n}] -> {:?}", verdict(&policies::to_doc(s), false));
        }
        for (i, s) in policies::RICH.iter().enumerate() {
            if let Err(e) = parse_policy_document(&policies::to_doc(s)) {
                println!("RICH[{i}] parse: {e}");
            } else if let Err(e) = Compiler::new(&parse_policy_document(&policies::to_doc(s)).unwrap()).compile() {
                println!("RICH[{i}] compile: {e}");
            } else {
                println!("RICH[{i}] compiles");
            }
        }
        for (i, s) in policies::VALID.iter().enumerate() {
            if let Err(e) = parse_policy_document(&policies::to_doc(s)) {
                println!("VALID[{i}] parse: {e}");
            } else if let Err(e) = Compiler::new(&parse_policy_document(&policies::to_doc(s)).unwrap()).compile() {
                println!("VALID[{i}] compile: {e}");
            }
        }
    }
    rep.assume("the binary under test is built by this check from $VERIF_REPO (default /repo) with `cargo build -p aranya-policy-compiler --bin policy-compiler` (dev profile) into <target>/cli");
    rep.assume("expected outcome = parse_policy_document ∧ Compiler::compile ∧ (--no-validate ∨ no trace failure from the analyzers validate() uses), computed in-process with the library; the verdict on validation uses the tracer API directly, not validate()'s boolean");
    rep.assume("documents for which the tracer returns an error or the library panics carry no expectation except 'no module on failure'");
    rep.explore(
        "cli",
        "markdown documents built from: 4 hand-written valid policies, 5 that compile but fail validation (missing return / \
         publish / finish on a path), 9 compile errors, 7 parse errors, valid+invalid concatenations, generated control-flow \
         shapes (function/action/command-policy bodies of nested if/else/match whose paths end or do not end in \
         return/publish/finish), optional deletion of a character run; wrappers: plain, two policy chunks with foreign \
         code block, no front matter, policy-version 1, no policy block; flags --no-validate, --stub-ffi, --out, --verbose. \
         Non-trivial = library verdict is parse error, compile error, fails-validation or valid (expected exit status \
         and output-file presence are then defined)",
        || case(false),
        ctx.pick(192, 2000),
        check,
    );
    rep.explore(
        "cli_function_shapes",
        "documents with one or two generated functions (plus, in 20%, a hand-written valid policy): bodies of nested \
         if/else/match, runs of 1-69 consecutive check statements and else-if chains of 1-59 arms, each path ending or not \
         ending in return; valid wrappers only; --no-validate in 20%.  Expected outcome from the generator's own \
         termination model (a function with a path that does not return fails validation) as well as from the library. \
         Non-trivial = the document compiles and the expected exit status is defined",
        || case(true),
        ctx.pick(128, 2000),
        check,
    );
    rep.finish()
}
